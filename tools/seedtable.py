#!/venv/bin/python
"""Print the markdown table of section 13 of DESIGN.md from seeded/*/meta.json and seeded/SUMMARY.json
(written by tools/experiments.py --write)."""
import json
import os

VERIF = os.path.dirname(os.path.dirname(os.path.abspath(__file__)))
summ = json.load(open(os.path.join(VERIF, "seeded", "SUMMARY.json")))


def cell(s, n):
    s = " ".join(str(s).split()).replace("|", "/")
    return s[:n]


print("| seeded change | round | what was changed (sub-agent's words, abridged) | needs | first run | caught by (own property) | also flagged by |")
print("|---|---|---|---|---|---|---|")
for name in sorted(summ):
    meta = json.load(open(os.path.join(VERIF, "seeded", name, "meta.json")))
    own = name.split("_")[0]
    res = summ[name]
    own_rules = sorted({f.split("@")[0] for f in res.get(own, {}).get("fired", [])})
    others = sorted(p for p, r in res.items() if p != own and r["exit"] == 1)
    first = meta.get("first_run", "")
    first = "missed" + (first[first.index(" (flagged"):] if "(flagged" in first else "") if first.startswith("missed") else ("caught" if first else "see text")
    print(f"| {name} | {meta.get('round', 1)} | {cell(meta.get('summary', ''), 150)} | {cell(meta.get('needs', ''), 120)} | {first} | {', '.join(own_rules) or '-'} | {', '.join(others) or '-'} |")
