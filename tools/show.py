#!/venv/bin/python
"""Print a source file with docstrings elided (line numbers preserved)."""
import ast, sys
for path in sys.argv[1:]:
    src = open(path).read()
    tree = ast.parse(src)
    skip = set()
    for node in ast.walk(tree):
        if isinstance(node, (ast.FunctionDef, ast.ClassDef, ast.Module, ast.AsyncFunctionDef)):
            if node.body and isinstance(node.body[0], ast.Expr) and isinstance(getattr(node.body[0], 'value', None), ast.Constant) and isinstance(node.body[0].value.value, str):
                d = node.body[0]
                for l in range(d.lineno, d.end_lineno + 1):
                    skip.add(l)
        # attribute docstrings
        if isinstance(node, ast.ClassDef):
            for s in node.body:
                if isinstance(s, ast.Expr) and isinstance(s.value, ast.Constant) and isinstance(s.value.value, str):
                    for l in range(s.lineno, s.end_lineno + 1):
                        skip.add(l)
    print('#####', path)
    for i, line in enumerate(src.splitlines(), 1):
        if i in skip or not line.strip():
            continue
        print(f'{i:4d} {line}')
