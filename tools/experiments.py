#!/venv/bin/python
"""Re-run every check against every kept experiment (seeded breaking changes, benign refactorings).

usage: experiments.py [--seeded] [--benign] [--jobs N] [--write]

For each directory under /verif/seeded (resp. /verif/benign) a scratch tree is built outside /repo and
/verif (`git -C /repo archive HEAD | tar -x` + `git apply patch.diff`), all 20 quick checks are run on it
with --no-evidence, and the tree is removed.  Expected:
  seeded/<Cxx_k>: the check of property Cxx exits 1 (violation reported)
  benign/<id>:    every check exits 0
Prints the deviations; exit status 0 iff there are none.  With --write the per-experiment results are
stored in <dir>/SUMMARY.json (rules that fired per property) - the source of the tables in DESIGN.md.
Nothing here is part of a registered check: it is the regression harness of the checker itself.
"""

from __future__ import annotations

import argparse
import json
import os
import re
import shutil
import subprocess
import sys
import tempfile
from concurrent.futures import ThreadPoolExecutor

VERIF = os.path.dirname(os.path.dirname(os.path.abspath(__file__)))
PROPS = [f"C{i:02d}" for i in range(1, 21)]


def sh(cmd: str, cwd: str | None = None) -> tuple[int, str]:
    p = subprocess.run(cmd, shell=True, cwd=cwd, capture_output=True, text=True)
    return p.returncode, p.stdout + p.stderr


def build(kind: str, name: str, root: str) -> str | None:
    tree = os.path.join(root, f"{kind}_{name}")
    os.makedirs(tree)
    rc, out = sh(f"git -C /repo archive HEAD | tar -x -C {tree}")
    if rc:
        print(out)
        return None
    rc, out = sh(f"git apply {os.path.join(VERIF, kind, name, 'patch.diff')}", cwd=tree)
    if rc:
        print(f"{kind}/{name}: patch does not apply: {out[:200]}")
        return None
    return tree


def run_check(tree: str, prop: str) -> tuple[int, list[str]]:
    rc, out = sh(f"./check {prop} --repo {tree} --no-evidence", cwd=VERIF)
    fired = []
    for line in out.splitlines():
        m = re.match(r"-- violation of (\S+) at \S+ in \S+?([^. ]+)$", line)
        if m:
            fired.append(f"{m.group(1)}@{m.group(2)}")
        elif line.startswith("ANALYSIS-ERROR"):
            fired.append("AE:" + line.split(":", 1)[-1].strip()[:120])
    return rc, sorted(set(fired))


def main() -> int:
    ap = argparse.ArgumentParser()
    ap.add_argument("--seeded", action="store_true")
    ap.add_argument("--benign", action="store_true")
    ap.add_argument("--jobs", type=int, default=min(16, os.cpu_count() or 4))
    ap.add_argument("--write", action="store_true")
    ap.add_argument("--only", default=None, help="regex on the experiment name")
    ap.add_argument("--own", action="store_true", help="seeded experiments: run only the check of the property the change breaks")
    ap.add_argument("--props", default=None, help="comma-separated properties to run (default all 20); a quick regression after a rule change")
    args = ap.parse_args()
    kinds = [k for k in ("seeded", "benign") if getattr(args, k)] or ["seeded", "benign"]
    props = args.props.split(",") if args.props else PROPS
    root = tempfile.mkdtemp(prefix="ropt_exp_")
    bad = 0
    try:
        for kind in kinds:
            names = sorted(n for n in os.listdir(os.path.join(VERIF, kind)) if os.path.isfile(os.path.join(VERIF, kind, n, "patch.diff")))
            if args.only:
                names = [n for n in names if re.search(args.only, n)]
            summary = {}
            # build, run, remove in chunks to keep the disk footprint small
            for i in range(0, len(names), 20):
                chunk = names[i:i + 20]
                trees = {n: build(kind, n, root) for n in chunk}
                jobs = [(n, p) for n in chunk if trees[n] for p in ([n.split('_')[0]] if args.own and kind == 'seeded' else props)]
                with ThreadPoolExecutor(args.jobs) as ex:
                    outs = list(ex.map(lambda np_: run_check(trees[np_[0]], np_[1]), jobs))
                for (n, p), (rc, fired) in zip(jobs, outs):
                    summary.setdefault(n, {})[p] = {"exit": rc, "fired": fired}
                for n in chunk:
                    if trees[n]:
                        shutil.rmtree(trees[n], ignore_errors=True)
                    else:
                        bad += 1
            for n, res in sorted(summary.items()):
                if kind == "seeded":
                    own = n.split("_")[0]
                    if own not in res:
                        continue
                    if res[own]["exit"] != 1:
                        bad += 1
                        print(f"MISSED seeded/{n}: {own} exit {res[own]['exit']} {res[own]['fired']}")
                    for p, r in res.items():
                        if r["exit"] == 2:
                            print(f"note seeded/{n}: {p} cannot decide: {r['fired']}")
                else:
                    for p, r in res.items():
                        if r["exit"] != 0:
                            bad += 1
                            print(f"ALARM benign/{n}: {p} exit {r['exit']} {r['fired']}")
            print(f"{kind}: {len(summary)} experiments, {sum(len(r) for r in summary.values())} check runs")
            if args.write and not args.props and not args.own:
                compact = {n: {p: r for p, r in res.items() if r["exit"] != 0} for n, res in summary.items()}
                json.dump(compact, open(os.path.join(VERIF, kind, "SUMMARY.json"), "w"), indent=1, sort_keys=True)
    finally:
        shutil.rmtree(root, ignore_errors=True)
    print("deviations:", bad)
    return 0 if bad == 0 else 1


if __name__ == "__main__":
    sys.exit(main())
