#!/venv/bin/python
"""Confirm a seeded change and run the checks against it.

usage: seedeval.py <change-dir> [--props C01,C02|all] [--keep <seeded-id>] [--no-confirm]

<change-dir> holds patch.diff, demo.py, meta.json (as produced by a sub-agent).
Steps (all in a scratch worktree of /repo under /tmp/scratch, removed afterwards):
  1. demo.py passes on the clean tree
  2. patch applies; `import ropt` works; the 209-test suite passes; demo.py fails
  3. ./check <prop> --repo <scratch> for the requested properties: which rules fire
With --keep the change is copied to /verif/seeded/<seeded-id>/ with the results in meta.json.
"""

from __future__ import annotations

import argparse
import json
import os
import shutil
import subprocess
import sys
import time

VERIF = os.path.dirname(os.path.dirname(os.path.abspath(__file__)))
PY = "/venv/bin/python"


def sh(cmd, cwd=None, env=None, timeout=1800):
    p = subprocess.run(cmd, shell=True, cwd=cwd, env=env, capture_output=True, text=True, timeout=timeout)
    return p.returncode, p.stdout + p.stderr


def main() -> int:
    ap = argparse.ArgumentParser()
    ap.add_argument("change")
    ap.add_argument("--props", default=None)
    ap.add_argument("--keep", default=None)
    ap.add_argument("--no-confirm", action="store_true")
    ap.add_argument("--benign", action="store_true", help="behaviour-preserving change: demo must pass with the change, every check must stay silent")
    args = ap.parse_args()
    change = os.path.abspath(args.change)
    meta = json.load(open(os.path.join(change, "meta.json")))
    prop = meta.get("property", "C00")
    props = [prop] if args.props is None else ([f"C{i:02d}" for i in range(1, 21)] if args.props == "all" else args.props.split(","))
    scratch = f"/tmp/scratch/{os.getpid()}_{int(time.time())}"
    os.makedirs("/tmp/scratch", exist_ok=True)
    rc, out = sh(f"git -C /repo worktree add -q {scratch} HEAD")
    if rc:
        print(out)
        return 2
    result = {"property": prop, "confirmed": {}, "checks": {}}
    try:
        env = dict(os.environ, PYTHONPATH=f"{scratch}/src", PYTHONDONTWRITEBYTECODE="1")
        demo = os.path.join(change, "demo.py")
        if not args.no_confirm:
            rc0, out0 = sh(f"{PY} {demo}", cwd=scratch, env=env)
            result["confirmed"]["demo_passes_without_change"] = rc0 == 0
        rc, out = sh(f"git apply {os.path.join(change, 'patch.diff')}", cwd=scratch)
        result["confirmed"]["patch_applies"] = rc == 0
        if rc:
            print("patch does not apply:", out[:500])
            return 2
        if not args.no_confirm:
            rc, out = sh(f"{PY} -c 'import ropt'", cwd=scratch, env=env)
            result["confirmed"]["imports"] = rc == 0
            rc, out = sh(f"{PY} -m pytest -q -p no:cacheprovider --timeout=900 2>&1 | tail -1", cwd=scratch, env=env)
            result["confirmed"]["suite"] = out.strip()
            result["confirmed"]["suite_passes_with_change"] = out.strip().startswith("209 passed")
            rc1, out1 = sh(f"{PY} {demo}", cwd=scratch, env=env)
            if args.benign:
                result["confirmed"]["demo_passes_with_change"] = rc1 == 0
            else:
                result["confirmed"]["demo_fails_with_change"] = rc1 != 0
        for p in props:
            rc, out = sh(f"./check {p} --repo {scratch} --no-evidence", cwd=VERIF)
            fired = []
            for line in out.splitlines():
                if line.startswith("-- violation of "):
                    fired.append(line[len("-- violation of "):].split(" in ")[0])
                if line.startswith("ANALYSIS-ERROR"):
                    fired.append(line[:200])
            result["checks"][p] = {"exit": rc, "fired": fired}
    finally:
        sh(f"git -C /repo worktree remove --force {scratch}")
        sh("git -C /repo worktree prune")
        shutil.rmtree(scratch, ignore_errors=True)
    caught = [p for p, r in result["checks"].items() if r["exit"] == 1]
    result["caught_by"] = caught
    result["alarms"] = {p: r for p, r in result["checks"].items() if r["exit"] != 0}
    print(json.dumps(result, indent=1))
    if args.keep:
        dst = os.path.join(VERIF, "benign" if args.benign else "seeded", args.keep)
        os.makedirs(dst, exist_ok=True)
        for fn in ("patch.diff", "demo.py"):
            shutil.copy(os.path.join(change, fn), os.path.join(dst, fn))
        meta_out = dict(meta)
        meta_out["confirmed"] = result["confirmed"]
        meta_out["what_was_run"] = [
            "demo.py on a clean scratch worktree of /repo HEAD (must pass)",
            "git apply patch.diff; import ropt; the 209-test suite with PYTHONPATH=<scratch>/src (must pass); demo.py (must fail)",
            "./check <property> --repo <scratch> --no-evidence for: " + ", ".join(props),
        ]
        meta_out["check_results"] = result["checks"]
        meta_out["caught_by"] = caught
        if args.benign:
            meta_out["alarms"] = result["alarms"]
        json.dump(meta_out, open(os.path.join(dst, "meta.json"), "w"), indent=1)
    return 0


if __name__ == "__main__":
    sys.exit(main())
