#!/bin/bash
# usage: fixcommit.sh "<message>"  -- runs the suite, commits /repo if 209 pass
cd /repo || exit 1
out=$(/venv/bin/python -m pytest -q -p no:cacheprovider --timeout=900 2>&1 | tail -1)
echo "$out"
if echo "$out" | grep -q "^209 passed"; then
  git add -A && git commit -qm "$1" && git log --oneline | head -1
else
  echo "TESTS DO NOT PASS - not committed"; exit 1
fi
