#!/bin/bash
# run every quick check, report exit codes; validate evidence
cd /verif
tier=${1:-quick}
fail=0
for i in $(seq -w 1 20); do
  p=C$i
  out=$(./check $p --tier $tier 2>&1); rc=$?
  echo "$p rc=$rc $(echo "$out" | tail -1)"
  [ $rc -ne 0 ] && fail=1 && echo "$out" | grep -E "^(VIOLATION|ANALYSIS|--)" | head -5
done
python3-vt - <<'P'
import json,jsonschema,glob
sch=json.load(open('/root/.vp/EVIDENCE.schema.json'))
for f in sorted(glob.glob('/verif/evidence/C*.json')):
    try:
        jsonschema.validate(json.load(open(f)),sch)
    except Exception as e:
        print('INVALID',f,str(e)[:200])
print('evidence validated', len(glob.glob('/verif/evidence/C*.json')))
P
exit $fail
