"""E9 - in-memory variant generator (thorough tier).

For the functions in which a property's rules found their obligation sites, small
syntactic mutants are derived (comparator flips, operator swaps, polarity
changes, dropped statements, swapped arguments, any/all, repeat/tile,
lower/upper, break/continue ...), each applied to an in-memory copy of the
module (never written to disk) and the property's rules are re-run on the
variant tree.  A mutant is *killed* when the rules report a violation (or can
no longer decide).  The kill ratio measures how sensitive the rules are to
changes of the code they claim to constrain; survivors are listed in the
evidence.  Mutants never influence the verdict on the real tree.
"""

from __future__ import annotations

import ast
import copy
import os
import random
from dataclasses import dataclass

from .model import Repo

CMP_SWAP = {ast.Lt: ast.LtE, ast.LtE: ast.Lt, ast.Gt: ast.GtE, ast.GtE: ast.Gt, ast.Eq: ast.NotEq, ast.NotEq: ast.Eq, ast.Is: ast.IsNot, ast.IsNot: ast.Is,
            ast.In: ast.NotIn, ast.NotIn: ast.In}
BIN_SWAP = {ast.Add: ast.Sub, ast.Sub: ast.Add, ast.Mult: ast.Div, ast.Div: ast.Mult, ast.BitAnd: ast.BitOr, ast.BitOr: ast.BitAnd}
NAME_SWAP = {
    "any": "all", "all": "any", "repeat": "tile", "tile": "repeat", "lower_bounds": "upper_bounds", "upper_bounds": "lower_bounds",
    "vstack": "hstack", "argmin": "argmax", "maximum": "minimum", "minimum": "maximum", "logical_or": "logical_and", "logical_and": "logical_or",
    "isfinite": "isinf", "objectives": "constraints", "min": "max", "max": "min", "floor": "ceil", "zeros": "ones",
    "from_optimizer": "to_optimizer", "to_optimizer": "from_optimizer", "_mutable": "_immutable", "_immutable": "_mutable",
    "functions": "gradients", "lower": "upper", "first": "last",
}


@dataclass
class Mutant:
    relpath: str
    func: str
    lineno: int
    op: str
    source: str

    @property
    def label(self) -> str:
        return f"{self.relpath}:{self.lineno} {self.func.rsplit('.', 1)[-1]} [{self.op}]"


def _func_node(tree: ast.Module, lineno: int, name: str):
    for n in ast.walk(tree):
        if isinstance(n, (ast.FunctionDef, ast.AsyncFunctionDef)) and n.lineno == lineno and n.name == name:
            return n
    return None


def mutants_of(repo: Repo, funcs: list[str], limit: int, seed: int) -> list[Mutant]:
    out: list[Mutant] = []
    for q in sorted(set(funcs)):
        f = repo.funcs.get(q)
        if f is None or isinstance(f.node, ast.Lambda):
            continue
        mod = f.module
        base = ast.parse(mod.source)
        target = _func_node(base, f.node.lineno, f.name)
        if target is None:
            continue
        nodes = list(ast.walk(target))
        skip: set[int] = set()
        for n in nodes:
            anns = []
            if isinstance(n, ast.arg) and n.annotation is not None:
                anns.append(n.annotation)
            if isinstance(n, (ast.FunctionDef, ast.AsyncFunctionDef)) and n.returns is not None:
                anns.append(n.returns)
            if isinstance(n, ast.AnnAssign):
                anns.append(n.annotation)
            if isinstance(n, ast.Expr) and isinstance(n.value, ast.Constant) and isinstance(n.value.value, str):
                anns.append(n)  # docstrings
            for a in anns:
                skip.update(id(x) for x in ast.walk(a))
        for idx, n in enumerate(nodes):
            if id(n) in skip:
                continue
            for op, apply in _operators(n):
                tree = copy.deepcopy(base)
                t2 = _func_node(tree, f.node.lineno, f.name)
                n2 = list(ast.walk(t2))[idx]
                try:
                    if not apply(n2, tree):
                        continue
                    src = ast.unparse(ast.fix_missing_locations(tree))
                    compile(src, mod.relpath, "exec")
                except Exception:  # noqa: BLE001
                    continue
                out.append(Mutant(mod.relpath, q, getattr(n, "lineno", f.node.lineno), op, src))
    rnd = random.Random(seed)
    if len(out) > limit:
        out = sorted(rnd.sample(out, limit), key=lambda m: (m.relpath, m.lineno, m.op))
    return out


def _replace_stmt_with_pass(tree: ast.AST, stmt: ast.stmt) -> bool:
    for parent in ast.walk(tree):
        for fld in ("body", "orelse", "finalbody"):
            body = getattr(parent, fld, None)
            if isinstance(body, list) and stmt in body:
                body[body.index(stmt)] = ast.Pass()
                return True
    return False


def _operators(n: ast.AST):
    """Yield (operator name, function(node_copy, tree) -> bool)."""
    if isinstance(n, ast.Compare) and len(n.ops) == 1 and type(n.ops[0]) in CMP_SWAP:
        def f(c, _t):
            c.ops = [CMP_SWAP[type(c.ops[0])]()]
            return True
        yield f"cmp {type(n.ops[0]).__name__}->{CMP_SWAP[type(n.ops[0])].__name__}", f
    if isinstance(n, (ast.BinOp, ast.AugAssign)) and type(n.op) in BIN_SWAP:
        def f(c, _t):
            c.op = BIN_SWAP[type(c.op)]()
            return True
        yield f"binop {type(n.op).__name__}->{BIN_SWAP[type(n.op)].__name__}", f
    if isinstance(n, ast.BoolOp):
        def f(c, _t):
            c.op = ast.Or() if isinstance(c.op, ast.And) else ast.And()
            return True
        yield "and<->or", f
    if isinstance(n, ast.UnaryOp) and isinstance(n.op, (ast.Not, ast.Invert, ast.USub)):
        def f(c, tree):
            for p in ast.walk(tree):
                for fld, val in ast.iter_fields(p):
                    if val is c:
                        setattr(p, fld, c.operand)
                        return True
                    if isinstance(val, list) and c in val:
                        val[val.index(c)] = c.operand
                        return True
            return False
        yield f"drop {type(n.op).__name__}", f
    if isinstance(n, ast.Attribute) and n.attr in NAME_SWAP:
        def f(c, _t):
            c.attr = NAME_SWAP[c.attr]
            return True
        yield f"attr {n.attr}->{NAME_SWAP[n.attr]}", f
    if isinstance(n, ast.Constant) and isinstance(n.value, (int, float)) and not isinstance(n.value, bool):
        def f(c, _t):
            c.value = c.value + 1 if c.value in (0, -1) else (0 if c.value == 1 else c.value * 2)
            return True
        yield f"const {n.value}", f
    if isinstance(n, ast.Constant) and isinstance(n.value, bool):
        def f(c, _t):
            c.value = not c.value
            return True
        yield f"const {n.value}", f
    if isinstance(n, ast.Call) and len(n.args) >= 2 and not any(isinstance(a, ast.Starred) for a in n.args[:2]):
        def f(c, _t):
            c.args[0], c.args[1] = c.args[1], c.args[0]
            return True
        yield "swap args", f
    if isinstance(n, ast.Call) and isinstance(n.func, ast.Attribute) and n.func.attr == "copy" and not n.args:
        def f(c, tree):
            for p in ast.walk(tree):
                for fld, val in ast.iter_fields(p):
                    if val is c:
                        setattr(p, fld, c.func.value)
                        return True
                    if isinstance(val, list) and c in val:
                        val[val.index(c)] = c.func.value
                        return True
            return False
        yield "drop .copy()", f
    if isinstance(n, (ast.Expr, ast.AugAssign)) and not (isinstance(n, ast.Expr) and isinstance(n.value, ast.Constant)):
        yield "delete stmt", lambda c, tree: _replace_stmt_with_pass(tree, c)
    if isinstance(n, ast.Assign) and any(isinstance(t, (ast.Subscript, ast.Attribute)) for t in n.targets):
        yield "delete store", lambda c, tree: _replace_stmt_with_pass(tree, c)
    if isinstance(n, ast.Break):
        def f(c, tree):
            for p in ast.walk(tree):
                for fld in ("body", "orelse"):
                    b = getattr(p, fld, None)
                    if isinstance(b, list) and c in b:
                        b[b.index(c)] = ast.Continue()
                        return True
            return False
        yield "break->continue", f
    if isinstance(n, ast.Continue):
        def f(c, tree):
            for p in ast.walk(tree):
                for fld in ("body", "orelse"):
                    b = getattr(p, fld, None)
                    if isinstance(b, list) and c in b:
                        b[b.index(c)] = ast.Break()
                        return True
            return False
        yield "continue->break", f
    if isinstance(n, ast.If) and not n.orelse and n.body and isinstance(n.body[0], ast.Raise):
        yield "delete raising guard", lambda c, tree: _replace_stmt_with_pass(tree, c)
    if isinstance(n, ast.Subscript) and isinstance(n.slice, ast.Slice) and n.slice.upper is not None and isinstance(n.ctx, ast.Load):
        def f(c, _t):
            c.slice.upper = ast.BinOp(left=c.slice.upper, op=ast.Sub(), right=ast.Constant(value=1))
            return True
        yield "slice upper-1", f


# ------------------------------------------------------------------ evaluation
def _eval_one(args):
    root, relpath, source, prop, known = args
    import importlib

    from .core import Ctx, match_known, run_rules
    from .model import AnalysisError

    try:
        importlib.import_module(f"sa.rules.{prop.lower()}")
        repo = Repo(root, overrides={relpath: source})
        ctx = Ctx(repo, "quick")
        results = run_rules(ctx, prop)
        fired = sorted({i.rule for r in results for i in r.instances if not i.ok and match_known(i, prop, known) is None})
        return ("killed" if fired else "survived", fired)
    except AnalysisError as exc:
        return ("undecided", [str(exc)[:80]])
    except Exception as exc:  # noqa: BLE001
        return ("error", [f"{type(exc).__name__}: {exc}"[:80]])


def sensitivity(repo: Repo, prop: str, funcs: list[str], known: dict, limit: int = 96, seed: int = 0, jobs: int | None = None) -> dict:
    import multiprocessing as mp

    ms = mutants_of(repo, funcs, limit, seed)
    if not ms:
        return {"mutants": 0}
    jobs = jobs or min(16, os.cpu_count() or 4)
    ctx = mp.get_context("fork")
    with ctx.Pool(jobs) as pool:
        outs = pool.map(_eval_one, [(repo.root, m.relpath, m.source, prop, known) for m in ms], chunksize=1)
    stats = {"killed": 0, "survived": 0, "undecided": 0, "error": 0}
    by_rule: dict[str, int] = {}
    survivors, killed_samples = [], []
    for m, (status, info) in zip(ms, outs):
        stats[status] += 1
        if status == "killed":
            for r in info:
                by_rule[r] = by_rule.get(r, 0) + 1
            if len(killed_samples) < 8:
                killed_samples.append(f"{m.label} -> {','.join(info)}")
        elif status == "survived" and (len(survivors) < 25 or os.environ.get("VERIF_ALL_SURVIVORS")):
            survivors.append(m.label)
        elif status in ("undecided", "error") and len(survivors) < 40:
            survivors.append(f"{m.label} -> {status}: {info[0] if info else ''}")
    return {
        "mutants": len(ms),
        **stats,
        "kill_ratio": round((stats["killed"] + stats["undecided"]) / len(ms), 3),
        "killed_by_rule": dict(sorted(by_rule.items())),
        "killed_samples": killed_samples,
        "survivor_samples": survivors,
        "functions_mutated": sorted(set(m.func for m in ms)),
        "note": "survivors are mutants the structural clauses do not constrain (equivalent mutants, numeric details, code outside the claimed clauses); they do not affect the verdict",
    }
