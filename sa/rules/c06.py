"""C06 - evaluator requests are complete and correctly labelled; inactive entries inert.

  C06.1 LAYOUT row layout of the variables matrix == index maps of the realization /
               perturbation labels == the split applied to the returned arrays
  C06.2 DOM    user domain at the evaluator boundary (from_optimizer in, to_optimizer out)
  C06.3 TERM   active flags: |w| > 0, from the configured or the cached function weights
  C06.4 EFFECT the evaluator's returned object and arrays are never mutated
  C06.5 TABLE  every array field of every result object is an immutable snapshot
"""

from __future__ import annotations

import ast

from ..cfg import cfg_of
from ..core import META, Ctx, RuleResult, rule
from ..dataflow import dataflow_of, MUTATING_METHODS
from ..model import AnalysisError, Cls, Func, norm_stmt, parent
from ..pattern import C, G, V, call, match, norm
from ..terms import Term, alts, contains, ends_with_attrs, ifexp_to_phi, root_of, show, subterms
from ..util import calls_in, deep_subterms, nodes_in, value_closure

P = "C06"
MOD = "ropt.ensemble_evaluator._evaluator_results"

META[P] = {
    "explanation": (
        "A small layout domain (index maps of tile/repeat/arange/hstack labels, row owners of repeat/reshape/vstack matrices, splits of the returned "
        "arrays) decides label/row agreement of the three request builders; sibling agreement decides the transform pairing; an ownership analysis "
        "(origin = the evaluator's return value; views vs copies; mutation summaries through dataclass constructors and helpers) decides no-mutation; "
        "a field table over all ResultField subclasses decides the snapshot clause."
    ),
    "not_decided": ["garbage-invariance as a numeric statement (follows from C06.3 + zero weights + C02.2)"],
}


def builders(ctx: Ctx) -> list[tuple[Func, ast.Call]]:
    """Functions that call the user evaluator (a parameter annotated Evaluator)."""
    out = []
    for f in ctx.repo.funcs_in(MOD):
        for c in calls_in(f):
            t = ctx.X.at(f, c.func)
            if t[0] == "param":
                for a in f.node.args.args + f.node.args.kwonlyargs:
                    if a.arg == t[2] and a.annotation is not None and "Evaluator" in ast.unparse(a.annotation):
                        out.append((f, c))
    if len(out) < 3:
        raise AnalysisError(f"expected three request builders calling the evaluator, found {len(out)}")
    return out


# ------------------------------------------------------------------ layouts
def label_layout(t: Term):
    """Segments of a 1-D label array: ('iota', A) | ('outer', A, B) k->k//B |
    ('inner', A, B) k->k%B | ('const', A, c)."""
    n = norm(t)

    def arange_dim(x):
        if x[0] == "call" and x[1] == G("numpy.arange") and x[2]:
            return x[2][0]
        return None

    if n[0] == "call" and n[1][0] == "global":
        q = n[1][1]
        if q == "numpy.arange":
            return [("iota", n[2][0])]
        if q == "numpy.tile" and len(n[2]) == 2 and arange_dim(n[2][0]) is not None:
            return [("inner", n[2][1], arange_dim(n[2][0]))]
        if q == "numpy.repeat" and len(n[2]) == 2 and arange_dim(n[2][0]) is not None:
            return [("outer", arange_dim(n[2][0]), n[2][1])]
        if q == "numpy.full" and len(n[2]) == 2:
            return [("const", n[2][0], n[2][1])]
        if q in ("numpy.hstack", "numpy.concatenate") and n[2] and n[2][0][0] in ("tuple", "list"):
            out = []
            for e in n[2][0][1]:
                l = label_layout(e)
                if l is None:
                    return None
                out += l
            return out
    return None


def rows_layout(t: Term):
    """Segments of the row axis of a 2-D matrix: ('outer', A, B) row k is row
    k//B of the source, copy k%B | ('grid', A, B) row k is element (k//B, k%B)
    of a 3-D source | ('copies', A) A copies of one vector."""
    n = norm(t)
    if n[0] == "phi":
        # alternatives with / without from_optimizer: row layout is the same
        ls = [rows_layout(a) for a in n[1]]
        ls = [l for l in ls if l is not None]
        return ls[0] if ls and all(l == ls[0] for l in ls) else None
    if n[0] == "call":
        fn = n[1]
        if fn[0] == "attr" and fn[2] in ("from_optimizer", "to_optimizer") and len(n[2]) == 1:
            return rows_layout(n[2][0])
        if fn == G("numpy.repeat") and len(n[2]) == 2 and any(k == "axis" and v == C(0) for k, v in n[3]):
            src, b = n[2]
            if src[0] == "sub" and contains(src[2], lambda s: s == G("numpy.newaxis")):
                return [("copies", b)]
            return [("outer", ("attr", ("attr", src, "shape"), "0"), b, src)]
        if fn == G("numpy.reshape") and len(n[2]) >= 2:
            src = n[2][0]
            return [("grid", src)]
        if fn in (G("numpy.vstack"), G("numpy.concatenate")) and n[2] and n[2][0][0] in ("tuple", "list"):
            out = []
            for e in n[2][0][1]:
                l = rows_layout(e)
                if l is None:
                    return None
                out += l
            return out
    return None


@rule(P)
def c06_1(ctx: Ctx) -> RuleResult:
    res = RuleResult("C06.1", "LAYOUT", "each requested row carries the label of the (vector, realization) / (realization, perturbation) it holds, and returned rows are split by the same layout")
    X = ctx.X
    for f, c in builders(ctx):
        t = ifexp_to_phi(X.at(f, c))
        vars_t, ctx_t = t[2][0], t[2][1]
        # the context object
        cc = [a for a in alts(ctx_t) if a[0] == "call"]
        if not cc:
            raise AnalysisError(f"{f.name}: evaluator context is not constructed in place")
        kw = dict(cc[0][3])
        real, pert = kw.get("realizations"), kw.get("perturbations")
        rl = rows_layout(vars_t)
        ll = label_layout(real) if real is not None else None
        pl = label_layout(pert) if pert is not None else None
        R = None
        for s in subterms(norm(real)):
            if s[0] == "call" and s[1] == G("numpy.arange") and s[2]:
                R = s[2][0]
        if rl is None or ll is None:
            res.add(f, c, "row layout of the request and of the realization labels is recognised", False,
                    f"cannot derive the layout of `{show(vars_t, 80)}` / `{show(real, 80) if real else '?'}`", construct=f"{f.name}: layouts recognised")
            continue
        kinds = [s[0] for s in rl]
        if kinds == ["outer"]:
            # functions for a batch: row k = vector k//R (R copies each); label must be k % R
            b = rl[0][2]
            ok = ll == [("inner", ll[0][1], b)] and ll[0][0] == "inner"
            same_n = ok and _same_dim(ll[0][1], rl[0][3])
            res.add(f, c, "batch of vectors: each vector is repeated R times consecutively and realizations are labelled k % R", ok and same_n,
                    "" if ok and same_n else f"rows are {_fmt(rl)} but realization labels are {_fmt(ll)}: a row is labelled with the wrong realization", construct=f"{f.name}: rows vs realization labels")
            res.add(f, c, "function requests carry no perturbation label", pert is None, "" if pert is None else "unexpected perturbation labels", construct=f"{f.name}: no perturbation labels")
            # split: vsplit(objectives, N)
            n_term = rl[0][3]
            # in the builder itself or in the private helpers it is cut into (the count as the builder passes it)
            from ..util import contextual

            splits = [(g_, s) for g_ in region(ctx, f) for s in nodes_in(g_, ast.Call) if X.at(g_, s.func) in (G("numpy.vsplit"), G("numpy.split"), G("numpy.array_split"))]
            ok = bool(splits) and all(_same_dim(X.at(g_, s.args[1]) if g_ is f else contextual(ctx, g_, X.at(g_, s.args[1]), stop=f)[0], n_term) for g_, s in splits if len(s.args) > 1)
            res.add(f, c, "returned arrays are split into one block of R rows per vector, in request order", ok,
                    "" if ok else "the split of the returned arrays does not follow the request layout", construct=f"{f.name}: split of results")
        elif kinds == ["grid"]:
            src = rl[0][1]
            ok_r = ll is not None and len(ll) == 1 and ll[0][0] == "outer"
            ok_p = pl is not None and len(pl) == 1 and pl[0][0] == "inner"
            dims_ok = ok_r and ok_p and ll[0][1] == pl[0][1] and ll[0][2] == pl[0][2]
            res.add(f, c, "perturbed variables (R, P, V) flattened R-major: realizations labelled k // P, perturbations k % P", ok_r and ok_p and dims_ok,
                    "" if ok_r and ok_p and dims_ok else f"labels are realizations={_fmt(ll)} perturbations={_fmt(pl)}: rows are attributed to the wrong (realization, perturbation)",
                    construct=f"{f.name}: rows vs labels")
            _check_grad_reshape(ctx, res, f, ll[0][1] if ok_r else None, ll[0][2] if ok_r else None)
        elif kinds == ["copies", "grid"]:
            exp_r = ll is not None and [s[0] for s in ll] == ["iota", "outer"]
            exp_p = pl is not None and [s[0] for s in pl] == ["const", "inner"]
            ok = exp_r and exp_p
            if ok:
                Rr = ll[0][1]
                ok = ll[1][1] == Rr and pl[0][1] == Rr and pl[1][1] == Rr and ll[1][2] == pl[1][2] and pl[0][2] == C(-1) and rl[0][1] == Rr
            res.add(f, c, "combined request: R unperturbed rows (realization k, perturbation -1) then R*P perturbed rows (k // P, k % P)", ok,
                    "" if ok else f"rows {_fmt(rl)} vs realizations {_fmt(ll)} / perturbations {_fmt(pl)}", construct=f"{f.name}: rows vs labels")
            # split points [:R] and [R:]
            Rr = ll[0][1] if exp_r else None
            heads = tails = 0
            bad = []
            for g_ in region(ctx, f):
                for s in nodes_in(g_, ast.Subscript):
                    if not isinstance(s.ctx, ast.Load):
                        continue
                    st = X.at(g_, s)
                    if st[0] != "sub":
                        continue
                    srcs = [y for _h, y in deep_subterms(ctx, g_, st[1], 3)] if g_ is not f else list(subterms(st[1]))
                    if not any(y[0] == "attr" and y[2] in ("objectives", "constraints") for y in srcs) and not any(y[0] == "iter" for y in srcs):
                        continue
                    idx = st[2][1][0] if st[2][0] == "tuple" else st[2]
                    if idx[0] != "slice":
                        continue
                    if idx[1] == C(None) and Rr is not None and _anon(norm(idx[2])) == _anon(Rr):
                        heads += 1
                    elif idx[2] == C(None) and Rr is not None and _anon(norm(idx[1])) == _anon(Rr):
                        tails += 1
                    else:
                        bad.append(s)
            ok = heads >= 2 and tails >= 2 and not bad
            res.add(f, c, "returned rows are split at R: [:R] are the function values, [R:] the perturbed values", ok,
                    "" if ok else f"split points are not [:R] / [R:] ({heads} heads, {tails} tails, {len(bad)} other)", construct=f"{f.name}: split of results")
            _check_grad_reshape(ctx, res, f, ll[1][1] if exp_r else None, ll[1][2] if exp_r else None)
        else:
            res.add(f, c, "row layout is one of the three request layouts", False, f"layout {_fmt(rl)}", construct=f"{f.name}: layout kind")
    res.floor = 7
    return res


def region(ctx: Ctx, f: Func) -> list[Func]:
    """The builder and the private functions of its module it hands its data to (a builder may be
    split into several functions)."""
    out = [f]
    for g in ctx.cg.reachable([f], include_nested_values=False):
        if g is not f and g.cls is None and g.module is f.module and g.name.startswith("_") and g not in out and not _is_builder(ctx, g):
            out.append(g)
    return out


def _is_builder(ctx: Ctx, g: Func) -> bool:
    return any(g is b for b, _c in builders(ctx))


def _anon(t):
    """Terms modulo the function a parameter belongs to (the same value seen from a helper)."""
    if not isinstance(t, tuple):
        return t
    if t and t[0] == "param" and len(t) == 3:
        return ("param", "*", t[2])
    return tuple(_anon(x) for x in t)


def _same_dim(a: Term, b: Term) -> bool:
    """a == b.shape[0] (or the same term)."""
    na, nb = norm(a), norm(b)
    if na == nb:
        return True
    sh = ("sub", ("attr", nb, "shape"), C(0))
    if na == sh:
        return True
    if na == ("attr", ("attr", nb, "shape"), "0"):
        return True
    # phi of transformed/untransformed variables: shape[0] is the same
    pb = {x for x in subterms(nb) if x[0] == "param"}
    if na[0] == "sub" and na[2] == C(0):
        shp = [x for x in subterms(na[1]) if x[0] == "attr" and x[2] == "shape"]
        if shp and all(pb & {y for y in subterms(x[1]) if y[0] == "param"} for x in shp):
            return True
    return False


def _fmt(l) -> str:
    if l is None:
        return "?"
    return "[" + ", ".join(f"{s[0]}({', '.join(show(x, 30) for x in s[1:3] if isinstance(x, tuple))})" for s in l) + "]"


def _check_grad_reshape(ctx: Ctx, res: RuleResult, f: Func, R, P_) -> None:
    """The gradient result object reshapes the returned rows to (R, P, -1)."""
    X = ctx.X
    for c in ctx.repo.classes.values():
        if c.module.name != MOD or "__post_init__" not in c.methods:
            continue
        m = c.methods["__post_init__"]
        rs = [cl for cl in calls_in(m) if isinstance(cl.func, ast.Attribute) and cl.func.attr == "reshape"]
        if not rs:
            continue
        shapes = {X.at(m, cl.args[0]) for cl in rs if cl.args}
        def shape_ok(s):
            if s[0] == "sub" and s[2][0] == "slice":
                s = s[1]
            return s[0] == "tuple" and len(s[1]) in (2, 3) and s[1][0][0] == "param" and "realization" in s[1][0][2] and s[1][1][0] == "param" and "perturbation" in s[1][1][2]

        ok = bool(shapes) and all(shape_ok(s) for s in shapes)
        # the constructor is called with realization_count=R, perturbation_count=P
        kw_ok = True
        for cl in calls_in(f):
            t = X.at(f, cl.func)
            if t == ("global", c.qualname):
                kws = dict(X.at(f, cl)[3])
                rc, pc = kws.get("realization_count"), kws.get("perturbation_count")
                kw_ok = rc is not None and pc is not None and (R is None or norm(rc) == R) and (P_ is None or norm(pc) == P_)
        res.add(m, m.node, "perturbed results are reshaped to (realization_count, perturbation_count, -1): R-major, matching the request", ok and kw_ok,
                "" if ok and kw_ok else "the reshape of the returned rows does not match the (realization, perturbation) order of the request", construct=f"{f.name}: reshape (R, P, -1)")


# --------------------------------------------------------------------- C06.2
@rule(P)
def c06_2(ctx: Ctx) -> RuleResult:
    res = RuleResult("C06.2", "DOM", "the evaluator receives user-domain variables (from_optimizer) and its outputs are mapped to the optimizer domain (to_optimizer), in all builders alike")
    X = ctx.X
    for f, c in builders(ctx):
        t = X.at(f, c)
        v = ifexp_to_phi(t[2][0])
        ok = False
        for ph in [x for x in subterms(v) if x[0] == "phi"]:
            tr = [a for a in ph[1] if a[0] == "call" and a[1][0] == "attr" and a[1][2] == "from_optimizer" and ends_with_attrs(a[1][1], "variables")]
            plain = [a for a in ph[1] if a not in tr]
            if len(tr) == 1 and len(plain) == 1 and tr[0][2] and tr[0][2][0] == plain[0]:
                ok = True
        # every path of the variables into the evaluator goes through that choice
        n_tr = len([x for x in subterms(v) if x[0] == "call" and x[1][0] == "attr" and x[1][2] == "from_optimizer"])
        ok = ok and n_tr == 1
        res.add(f, c, "variables passed to the evaluator are transforms.variables.from_optimizer(x) whenever that transform is set", ok,
                "" if ok else f"variables argument is `{show(v, 100)}`: the evaluator can receive optimizer-domain values", construct=f"{f.name}: from_optimizer")
        # the guard: transforms is not None and transforms.variables
        # outputs: what the result containers receive
        sinks = []
        for g_ in region(ctx, f):
            for cl in calls_in(g_):
                ft = X.at(g_, cl.func)
                if ft[0] == "global" and ft[1] in ctx.repo.classes and ctx.repo.classes[ft[1]].module.name == MOD:
                    sinks.append((g_, X.at(g_, cl)))
        for fld, trn in (("objectives", "objectives"), ("constraints", "nonlinear_constraints")):
            vals = []
            for g_, st in sinks:
                for k, v in st[3]:
                    if k in (fld, f"perturbed_{fld}"):
                        vals.append((g_, v))
            ok = bool(vals)
            why = "" if ok else f"no result container receives the {fld}"
            for g_, v in vals:
                cl_ = list(value_closure(ctx, v)) if g_ is f else [y for _h, y in deep_subterms(ctx, g_, v, 3)]
                tos = [x for x in cl_ if x[0] == "call" and x[1][0] == "attr" and x[1][2] == "to_optimizer"]
                good = [x for x in tos if ends_with_attrs(x[1][1], trn) and x[2] and contains(x[2][0], lambda y: y[0] == "attr" and y[2] == fld and y[1] == t)]
                if not good or len(good) != len(tos):
                    ok = False
                    why = (f"{fld} reach the result containers without transforms.{trn}.to_optimizer: they are consumed in the user domain while the optimizer works in the transformed domain"
                           if not tos else f"{fld} are mapped by `{show(tos[0][1], 60)}` instead of transforms.{trn}.to_optimizer")
            res.add(f, c, f"returned {fld} go through transforms.{trn}.to_optimizer before they are used", ok, why, construct=f"{f.name}: to_optimizer {fld}")
    res.floor = 9
    return res


def _strip_repeat(t: Term) -> Term:
    return t


def _flat(t: Term):
    out = []
    for a in alts(t):
        if a[0] == "ifexp":
            out += _flat(a[2]) + _flat(a[3])
        elif a[0] == "sub":
            out += _flat(a[1])
        else:
            out.append(a)
    return out


def _downstream_uses(ctx: Ctx, f: Func, evalcall: ast.Call, fld: str) -> list[Term]:
    """Terms of `<result>.<fld>` reads after the evaluator call."""
    out = []
    var = None
    p_ = parent(evalcall)
    if isinstance(p_, ast.Assign) and isinstance(p_.targets[0], ast.Name):
        var = p_.targets[0].id
    for n in nodes_in(f, ast.Attribute):
        if n.attr == fld and isinstance(n.ctx, ast.Load) and isinstance(n.value, ast.Name) and n.value.id == var and n.lineno > evalcall.lineno:
            # only reads that feed the result objects (return / yield values)
            out.append(ctx.X.at(f, n))
    return out


def _is_weights_path(attr_t, whole) -> bool:
    """`self._cache_for_gradient.realizations.objective_weights`: the cached function result is the documented source of
    the *weights* of a gradient-only request (C07.5 decides that it belongs to the requested point); only the flags
    themselves must not be kept."""
    for y in subterms(whole):
        if y[0] == "attr" and y[2] in ("objective_weights", "constraint_weights") and any(z == attr_t for z in subterms(y)):
            return True
    return False


# --------------------------------------------------------------------- C06.3
@rule(P)
def c06_3(ctx: Ctx) -> RuleResult:
    res = RuleResult("C06.3", "TERM", "a (function, realization) entry is active iff |weight| > 0; the weights are the configured ones or those of the cached function result")
    X = ctx.X
    # value-based: every comparison that decides an entry of the flags handed to the evaluator (the `active_objectives` /
    # `active_constraints` of each EvaluatorContext that is constructed) is `abs(W) > 0` or `W != 0`, wherever it is written
    from ..util import deep_subterms

    n_ctx = 0
    flag_cmps = []
    for bf, bcall in builders(ctx):
        for c_ in calls_in(bf):
            t_ = X.at(bf, c_)
            if t_[0] == "call" and t_[1][0] == "global" and t_[1][1].endswith(".EvaluatorContext"):
                for k_, v_ in t_[3]:
                    if k_ in ("active_objectives", "active_constraints"):
                        n_ctx += 1
                        for g_, y in deep_subterms(ctx, bf, v_, 4):
                            if y[0] == "cmp" and y[1] in ("<", "<=", ">", ">=", "==", "!=") and any(z[0] == "const" and z[1] in (0, 0.0) and not isinstance(z[1], bool) for z in (y[2], y[3])):
                                if (g_.qualname, y) not in [(a_.qualname, b_) for a_, b_ in flag_cmps]:
                                    flag_cmps.append((g_, y))
    if n_ctx == 0:
        raise AnalysisError("no EvaluatorContext with active flags is constructed by the request builders")
    for g_, y in flag_cmps:
        ny = norm(y)
        other = ny[3] if ny[2] == C(0) else ny[2]
        ok = (ny[1] == "<" and ny[2] == C(0) and other[0] == "call" and other[1] == G("numpy.abs")) or ny[1] == "!="
        res.add(g_, g_.node, "active == (abs(weights) > 0): every non-zero weight is active, every zero weight inactive", ok,
                "" if ok else f"an active flag is computed as `{show(y, 60)}`: a non-zero (e.g. negative) weight can be flagged inactive", construct=f"{g_.name}: active flag {show(y, 40)}")
    # the flags of a request are derived in the call that makes the request, from that call's weights: never read
    # back from a field of the evaluator that an earlier call stored (the weights of the cached function result
    # change from point to point, e.g. under a sort / CVaR filter)
    ee_ = ctx.repo.cls("ropt.ensemble_evaluator._ensemble_evaluator.EnsembleEvaluator")
    state_ = set()
    for m_ in ee_.methods.values():
        if m_.name == "__init__":
            continue
        for n_ in nodes_in(m_, (ast.Assign, ast.AnnAssign, ast.AugAssign)):
            for t_ in (n_.targets if isinstance(n_, ast.Assign) else [n_.target]):
                if isinstance(t_, ast.Attribute) and isinstance(t_.value, ast.Name) and m_.positional and t_.value.id == m_.positional[0]:
                    state_.add(t_.attr)
    n_args = 0
    for m_ in ee_.methods.values():
        for c_ in calls_in(m_):
            from ..callgraph import bind_args as _bind

            bound_args = []
            for g_ in ctx.cg.callees_of_call(m_, c_):
                if g_.cls is None and any(p_.startswith("active") for p_ in g_.params):
                    ct_ = X.at(m_, c_)
                    if ct_[0] == "call":
                        bound_args = [(pn_, at_) for pn_, at_ in _bind(g_, ct_, False).items() if pn_.startswith("active") and at_ is not None]
                    break

            class _KW:  # positional and keyword arguments alike, as (parameter name, term)
                def __init__(self, arg, term):
                    self.arg, self.term = arg, term

            for kw_ in [_KW(pn_, at_) for pn_, at_ in bound_args]:
                if kw_.arg and kw_.arg.startswith("active"):
                    n_args += 1
                    t_ = kw_.term
                    selfp = ("param", m_.qualname, m_.positional[0]) if m_.positional else None
                    stale = sorted({y[2] for y in subterms(t_) if y[0] == "attr" and y[1] == selfp and y[2] in state_ and not _is_weights_path(y, t_)})
                    ok_ = not stale
                    res.add(m_, c_, f"`{kw_.arg}` is derived in this call from this call's weights", ok_,
                            "" if ok_ else f"`{kw_.arg}` is read from `self.{stale[0]}`, which an earlier request stored: after the weights changed (another point, a filter) entries are flagged "
                            "active / inactive by the old weights - the evaluator's garbage for 'inactive' entries enters the gradient",
                            construct=f"{m_.name}: {kw_.arg} fresh")
    f = None
    for g in ctx.repo.funcs_in(MOD):
        if g.cls is None and "objective_weights" in g.params:
            f = g
    if f is None:
        if not flag_cmps:
            raise AnalysisError("active-realization helper not found")
        # the helper was dissolved into its callers: the value-based clause above is what can be said
        res.floor = 2
        return res
    rt = X.return_term(f)
    cmps = [s for s in subterms(norm(rt)) if s[0] == "cmp"]
    acts = [s for s in cmps if s[1] == "<" and s[2] == C(0)]
    ok = bool(acts) and all(s[3][0] == "call" and s[3][1] == G("numpy.abs") for s in acts) and len(acts) == len([s for s in cmps if s[1] in ("<", "<=", "==", "!=")])
    ok = ok or (bool(cmps) and all(s[1] == "!=" and C(0) in (s[2], s[3]) for s in cmps if s[1] not in ("is", "is not")))
    res.add(f, f.node, "active == (abs(weights) > 0): every non-zero weight is active, every zero weight inactive", ok,
            "" if ok else f"active flags are `{[show(s, 50) for s in cmps]}`: a non-zero (e.g. negative) weight can be flagged inactive", construct=f"{f.name}: active predicate")
    srcs = set()
    for s in acts or cmps:
        for x in subterms(s):
            if x[0] == "param":
                srcs.add(x[2])
            if x[0] == "attr" and x[2] == "weights":
                srcs.add("config." + ".".join(_names(x)))
    # ... wherever the comparisons are written (the helper may dispatch to private pieces)
    for _g, y in flag_cmps:
        for x in subterms(y):
            if x[0] == "param":
                srcs.add(x[2])
            if x[0] == "attr" and x[2] == "weights":
                srcs.add("config." + ".".join(_names(x)))
    ok = any(s.endswith("realizations.weights") for s in srcs) and "objective_weights" in srcs and "constraint_weights" in srcs
    res.add(f, f.node, "flags come from config.realizations.weights, or from the objective / constraint weight matrices when supplied", ok,
            "" if ok else f"sources are {sorted(srcs)}", construct=f"{f.name}: weight sources")
    # the gradient-only path passes the weights of the cached function result
    n = 0
    for caller, call_ in ctx.cg.callers(f):
        ct = X.at(caller, call_)
        kw = dict(ct[3])
        if "objective_weights" in kw:
            n += 1
            ok = all(ends_with_attrs(kw[k], "realizations", k) and contains(kw[k], lambda s: s[0] == "attr" and "cache" in s[2]) for k in ("objective_weights", "constraint_weights") if k in kw) and "constraint_weights" in kw
            res.add(caller, call_, "split evaluations: the gradient request is flagged with the weights of the cached function result of the same point", ok,
                    "" if ok else "the gradient request uses other weights than the function result it belongs to", construct=f"{caller.name}: weights of cached result")
    res.add(f, f.node, "a caller passes per-function weights for gradient-only requests", n >= 1, construct=f"{f.name}: gradient-only caller")
    # context: active = OR over functions
    ctxcls = ctx.repo.classes.get("ropt.evaluator._evaluator.EvaluatorContext")
    if ctxcls is not None and "__post_init__" in ctxcls.methods:
        m = ctxcls.methods["__post_init__"]
        # the value stored into `active`: built only from None, any(<flag matrix>, axis=0) and `|`
        seen_fields: set[str] = set()

        def or_only(t) -> bool:
            if t == C(None):
                return True
            if t[0] == "phi":
                return all(or_only(a) for a in t[1])
            if t[0] == "ifexp":
                return or_only(t[2]) and or_only(t[3])
            if t[0] == "binop" and t[1] == "|":
                return or_only(t[2]) and or_only(t[3])
            if t[0] == "call" and t[1] == G("numpy.any") and len(t[2]) == 1 and any(k == "axis" and v == C(0) for k, v in t[3]):
                a = t[2][0]
                if a[0] == "attr" and a[1][0] == "param":
                    seen_fields.add(a[2])
                    return True
            return False

        stores = [n for n in nodes_in(m, ast.Assign) if any(isinstance(t_, ast.Attribute) and t_.attr == "active" for t_ in n.targets)]
        bad = [n for n in stores if not or_only(norm(X.value_at(m, n.value)))]
        ok = bool(stores) and not bad and len(seen_fields) >= 2
        res.add(m, (bad[0] if bad else m.node), "a realization is active iff it is active for any objective or any constraint (OR over the function axis, OR of the two kinds)", ok,
                "" if ok else (f"`{norm_stmt(bad[0])[:80]}` is not an OR of the per-function flags: a realization needed by one function can be flagged inactive" if bad else "the per-realization summary does not cover objectives and constraints"),
                construct="EvaluatorContext: OR over functions")
    res.floor = 4
    return res


def _names(t: Term):
    out = []
    while t[0] == "attr":
        out.append(t[2])
        t = t[1]
    return list(reversed(out))


# --------------------------------------------------------------------- C06.4
VIEW_METHODS = {"reshape", "ravel", "transpose", "squeeze", "view", "swapaxes"}
VIEW_FUNCS = {"numpy.asarray", "numpy.reshape", "numpy.ravel", "numpy.transpose", "numpy.squeeze", "numpy.expand_dims", "numpy.broadcast_to", "numpy.moveaxis",
              "numpy.swapaxes", "numpy.split", "numpy.vsplit", "numpy.hsplit", "numpy.array_split", "numpy.atleast_1d", "numpy.atleast_2d"}


def is_view_of(t: Term, pred, depth: int = 0) -> bool:
    """t may alias (be a view of) a value satisfying pred."""
    if depth > 25:
        return False
    if pred(t):
        return True
    k = t[0]
    R = lambda x: is_view_of(x, pred, depth + 1)  # noqa: E731
    if k == "phi":
        return any(R(a) for a in t[1])
    if k == "ifexp":
        return R(t[2]) or R(t[3])
    if k == "attr":
        return t[2] == "T" and R(t[1]) or (t[2] not in ("shape", "size", "ndim", "dtype") and R(t[1]) and False)
    if k == "sub":
        idx = t[2]
        items = idx[1] if idx[0] == "tuple" else (idx,)
        basic = all(i[0] in ("slice", "const", "iter", "enumidx") or i == ("global", "numpy.newaxis") or (i[0] == "param") for i in items)
        # integer/slice indexing gives a view; boolean/array (advanced) indexing a copy.
        adv = any(i[0] in ("call", "cmp", "unary", "binop", "attr") for i in items)
        return R(t[1]) and not adv
    if k == "iter":
        return R(t[1])
    if k == "item":
        return R(t[1])
    if k == "call":
        fn = t[1]
        if fn[0] == "attr" and fn[2] in VIEW_METHODS:
            return R(fn[1])
        if fn[0] == "global" and fn[1] in VIEW_FUNCS and t[2]:
            return R(t[2][0])
        if fn[0] == "global" and fn[1] == "numpy.array" and any(k2 == "copy" and v == ("const", False) for k2, v in t[3]) and t[2]:
            return R(t[2][0])
        if fn[0] == "builtin" and fn[1] in ("zip", "enumerate", "reversed", "list", "tuple") or fn == ("global", "itertools.zip_longest"):
            return any(R(a) for a in t[2])
        return False
    if k in ("tuple", "list"):
        return any(R(a) for a in t[1])
    if k == "comp":
        return R(t[2])
    if k in ("update", "setattr", "mut", "aug"):
        return R(t[1] if k != "aug" else t[2])
    return False


def mutated_params(ctx: Ctx, f: Func, depth: int = 0) -> dict[str, ast.AST]:
    """Parameters of f whose array argument may be modified in place."""
    cache = ctx.__dict__.setdefault("_mut_cache", {})
    if f.qualname in cache:
        return cache[f.qualname]
    cache[f.qualname] = {}
    out: dict[str, ast.AST] = {}
    X = ctx.X
    params = [p for p in f.params]

    def aliases(t: Term) -> list[str]:
        return [p for p in params if is_view_of(t, lambda s, p=p: s == ("param", f.qualname, p))]

    for n in nodes_in(f, (ast.Assign, ast.AugAssign)):
        targets = n.targets if isinstance(n, ast.Assign) else [n.target]
        for t in targets:
            if isinstance(t, ast.Subscript):
                base = X.at(f, t.value)
                for p in aliases(base):
                    out.setdefault(p, n)
            elif isinstance(n, ast.AugAssign) and isinstance(t, ast.Name):
                base = X.at(f, t)  # value before the statement
                for p in aliases(base):
                    out.setdefault(p, n)
    for c in calls_in(f):
        if isinstance(c.func, ast.Attribute) and c.func.attr in ("fill", "sort", "resize", "put", "itemset", "setflags", "partition"):
            base = X.at(f, c.func.value)
            for p in aliases(base):
                out.setdefault(p, c)
        for kw in c.keywords:
            if kw.arg == "out":
                for p in aliases(X.at(f, kw.value)):
                    out.setdefault(p, c)
        ft = X.at(f, c.func)
        if ft[0] == "global" and ft[1] in ("numpy.copyto", "numpy.put", "numpy.place", "numpy.putmask", "numpy.fill_diagonal") and c.args:
            for p in aliases(X.at(f, c.args[0])):
                out.setdefault(p, c)
        if ft[0] == "global" and ft[1] == "numpy.nan_to_num" and any(kw.arg == "copy" and isinstance(kw.value, ast.Constant) and kw.value.value is False for kw in c.keywords) and c.args:
            for p in aliases(X.at(f, c.args[0])):
                out.setdefault(p, c)
        # callees that mutate their parameters
        if depth < 3:
            from ..callgraph import _is_bound_call, bind_args

            for g in ctx.cg.callees_of_call(f, c):
                if g is f:
                    continue
                gm = mutated_params(ctx, g, depth + 1)
                if not gm:
                    continue
                ct = X.at(f, c)
                b = bind_args(g, ct, bound=_is_bound_call(ct, g))
                # dataclass constructor: keyword -> field read in __post_init__
                for gp, site in gm.items():
                    arg = b.get(gp)
                    if arg is None and g.name == "__post_init__":
                        continue
                    if arg is not None:
                        for p in aliases(arg):
                            out.setdefault(p, c)
    cache[f.qualname] = out
    return out


def post_init_field_mutations(ctx: Ctx, c: Cls) -> dict[str, ast.AST]:
    """Dataclass fields whose constructor argument is mutated by __post_init__
    (directly or by a helper it passes `self.<field>` to before rebinding it)."""
    m = c.methods.get("__post_init__")
    if m is None:
        return {}
    X = ctx.X
    out: dict[str, ast.AST] = {}
    selfp = ("param", m.qualname, m.positional[0])
    from ..callgraph import _is_bound_call, bind_args

    for cl in calls_in(m):
        for g in ctx.cg.callees_of_call(m, cl):
            gm = mutated_params(ctx, g)
            if not gm:
                continue
            ct = X.at(m, cl)
            b = bind_args(g, ct, bound=_is_bound_call(ct, g))
            for gp, site in gm.items():
                arg = b.get(gp)
                if arg is None:
                    continue
                for fld in c.fields:
                    if is_view_of(arg, lambda s, fld=fld: s == ("attr", selfp, fld)):
                        out.setdefault(fld, site)
    for n in nodes_in(m, (ast.Assign, ast.AugAssign)):
        targets = n.targets if isinstance(n, ast.Assign) else [n.target]
        for t in targets:
            if isinstance(t, ast.Subscript):
                base = X.at(m, t.value)
                for fld in c.fields:
                    if is_view_of(base, lambda s, fld=fld: s == ("attr", selfp, fld)):
                        out.setdefault(fld, n)
    return out


@rule(P)
def c06_4(ctx: Ctx) -> RuleResult:
    res = RuleResult("C06.4", "EFFECT", "ropt never modifies the object or the arrays the evaluator returned")
    X = ctx.X
    for f, c in builders(ctx):
        p_ = parent(c)
        var = p_.targets[0].id if isinstance(p_, ast.Assign) and isinstance(p_.targets[0], ast.Name) else None
        if var is None:
            raise AnalysisError(f"{f.name}: the evaluator's result is not bound to a name")
        origin = X.at(f, c)

        def is_origin(s: Term) -> bool:
            return s == origin

        def from_origin(t: Term) -> bool:
            # the result object itself or (a view of) one of its arrays
            return is_view_of(t, lambda s: s == origin or (s[0] == "attr" and is_view_of(s[1], is_origin)))

        n_checked = 0
        # (1) stores on the object / in-place operations on its arrays, in the builder itself
        for n in nodes_in(f, (ast.Assign, ast.AugAssign, ast.Delete)):
            targets = n.targets if isinstance(n, (ast.Assign, ast.Delete)) else [n.target]
            for t in targets:
                if isinstance(t, (ast.Attribute, ast.Subscript)):
                    base = X.at(f, t.value)
                    n_checked += 1
                    if from_origin(base) and not _rebound_before(ctx, f, t, origin):
                        what = f"`{ast.unparse(t)}`"
                        res.add(f, n, "no attribute or element of the evaluator's result is assigned", False,
                                f"{what} is written on the object the evaluator returned: an evaluator that returns the same (memoised) object again sees it changed (e.g. re-scaled on every call)",
                                construct=f"{f.name}: store {ast.unparse(t)[:60]}")
        # (2) its arrays handed to package code that mutates its argument
        from ..callgraph import _is_bound_call, bind_args

        for cl in calls_in(f):
            ct = X.at(f, cl)
            for g in ctx.cg.callees_of_call(f, cl):
                b = bind_args(g, ct, bound=_is_bound_call(ct, g)) if g.name != "__post_init__" else {k: v for k, v in ct[3]}
                if g.name == "__post_init__" and g.cls is not None:
                    fm = post_init_field_mutations(ctx, g.cls)
                    for fld, site in fm.items():
                        arg = dict(ct[3]).get(fld)
                        n_checked += 1
                        if arg is not None and from_origin(arg):
                            res.add(g, site, "arrays of the evaluator's result are not modified in place by the result containers", False,
                                    f"`{fld}` of {g.cls.name} aliases the evaluator's array (passed from {f.name} without a copy) and is written in place here",
                                    construct=f"{f.name} -> {g.cls.name}.{fld}: in-place write")
                else:
                    gm = mutated_params(ctx, g)
                    for gp, site in gm.items():
                        arg = b.get(gp)
                        n_checked += 1
                        if arg is not None and from_origin(arg):
                            res.add(g, site, "arrays of the evaluator's result are not modified in place by helpers", False,
                                    f"parameter `{gp}` of {g.name} aliases the evaluator's array and is written in place", construct=f"{f.name} -> {g.name}({gp}): in-place write")
        res.add(f, c, "the evaluator's result object and arrays are only read (stores, in-place ops and mutating callees checked)", True,
                construct=f"{f.name}: ownership sweep")
    res.floor = 3
    return res


def _rebound_before(ctx: Ctx, f: Func, target: ast.AST, origin: Term) -> bool:
    return False


# --------------------------------------------------------------------- C06.5
@rule(P)
def c06_5(ctx: Ctx) -> RuleResult:
    res = RuleResult("C06.5", "TABLE", "every array held by a delivered result is an immutable copy (snapshot)")
    X = ctx.X
    base = "ropt.results._result_field.ResultField"
    classes = ctx.repo.subclasses(base)
    if len(classes) < 5:
        raise AnalysisError(f"expected the result field classes, found {len(classes)}")
    ic = ctx.repo.func("ropt.results._utils._immutable_copy")
    # the helper copies then clears writeable
    rt = X.return_term(ic)
    ok = any(a[0] == "mut" and a[2] == "setflags" and contains(a[1], lambda s: s[0] == "call" and s[1][0] == "attr" and s[1][2] == "copy") and
             any(k == "write" and v == C(False) for k, v in a[3][3]) for a in alts(rt))
    res.add(ic, ic.node, "_immutable_copy returns data.copy() with the writeable flag cleared", ok, "" if ok else f"returns `{show(rt, 100)}`", construct="_immutable_copy definition")
    # the argument is passed through unchanged only when it is None
    dp = ("param", ic.qualname, ic.positional[0])
    passthrough = [a for a in alts(rt) if a == dp]
    guard_ok = True
    why = ""
    if passthrough:
        guards = [n for n in nodes_in(ic, ast.If) if any(isinstance(x, ast.Call) and isinstance(x.func, ast.Attribute) and x.func.attr == "copy" for s_ in n.body for x in ast.walk(s_))]
        guard_ok = bool(guards)
        for g in guards:
            gt = norm(X.value_at(ic, g.test))
            if gt != ("cmp", "is not", dp, C(None)):
                guard_ok = False
                why = f"the copy is made only under `{ast.unparse(g.test)}`: other (non-None) arrays are returned as they are, sharing memory with the caller"
        if not guards:
            why = "the argument can be returned unchanged"
    res.add(ic, ic.node, "every non-None argument is copied (the only pass-through is None)", guard_ok, why, construct="_immutable_copy: copies every array")
    for c in classes:
        pi = c.methods.get("__post_init__")
        for name, (ann, _d) in c.fields.items():
            if ann is None or "NDArray" not in ast.unparse(ann):
                continue
            is_dict = "dict" in ast.unparse(ann)
            ok = False
            why = "no __post_init__"
            if pi is not None:
                selfn = pi.positional[0]
                stores = [n for n in nodes_in(pi, ast.Assign) if any(isinstance(t, ast.Attribute) and t.attr == name and isinstance(t.value, ast.Name) and t.value.id == selfn for t in n.targets)]
                why = f"`{name}` is stored as received: the result shares (writable) memory with the evaluator / the caller"
                for s in stores:
                    vt = X.value_at(pi, s.value)
                    if not is_dict:
                        ok = any(a[0] == "call" and ic in ctx.cg.resolve_fn(a[1], pi) and a[2] and a[2][0] == ("attr", ("param", pi.qualname, selfn), name) for a in alts(vt)) or (
                            vt[0] == "call" and ic in ctx.cg.resolve_fn(vt[1], pi))
                    else:
                        ok = vt[0] == "comp" and vt[1] == "dict" and contains(vt[2], lambda s_: s_[0] == "call" and ic in ctx.cg.resolve_fn(s_[1], pi))
            res.add(pi or None, pi.node if pi else c.node, f"{c.name}.{name} is rebound to _immutable_copy(...) in __post_init__" + (" (every dict value)" if is_dict else ""), ok,
                    "" if ok else why, construct=f"{c.name}.{name}: snapshot", where=None if pi else f"{c.module.relpath}:{c.node.lineno}", fname=None if pi else c.qualname)
    res.floor = 15
    return res
