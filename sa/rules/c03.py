"""C03 - failed realizations and perturbations are excluded exactly as if absent.

  C03.1 TERM  NaN propagation: a NaN in any column fails the whole row, in both arrays
  C03.2 ENUM  thresholds: `success_count < perturbation_min_success` fails a realization;
              `count(~failed) >= realization_min_success` gates functions and gradients;
              every gate site uses the same predicate and yields None otherwise
  C03.3 FLOW  weight zeroing + renormalisation and NaN-row dropping (C01.2, C02.4, C02.2)
  C03.4 DOM   missing functions/gradients -> TOO_FEW_REALIZATIONS in the optimizer driver
  C03.5 COH   the failure flags reported with gradients are the flags they were computed with
"""

from __future__ import annotations

import ast

from ..absint import TOP, ExcVal, Hooks, Interp, Obj, State, Sym
from ..cfg import cfg_of
from ..core import META, Ctx, RuleResult, rule
from ..dataflow import dataflow_of
from ..model import AnalysisError, Func, norm_stmt, parent
from ..paths import PathFinder, describe_path
from ..pattern import C, G, V, call, match, norm
from ..terms import Term, alts, contains, ends_with_attrs, root_of, show, subterms
from ..util import cond_value, gated_values, guard_leaves, norm_cond, strict_lt, tuple_components, calls_in, deep_subterms, nodes_in
from .c01 import c01_2
from .c02 import c02_2, c02_4
from .c14 import ensemble_calculate, optimizer_callbacks

P = "C03"

META[P] = {
    "explanation": (
        "NaN propagation as a reference term on both result arrays; order-type reading of every comparison against the two success thresholds with "
        "sibling agreement over all gate sites; the shared weight-pipeline and row-selection rules; control dependence of the TOO_FEW_REALIZATIONS raise "
        "on per-result `functions is None` / `gradients is None` tests inside the loop over the results; and reported-equals-used for the failure flags."
    ),
    "not_decided": ["value equality with the reduced ensemble beyond the structural clauses (floating point)"],
}


def propagate_fn(ctx: Ctx) -> Func:
    for f in ctx.repo.funcs_in("ropt.ensemble_evaluator._evaluator_results"):
        if f.cls is None and len(f.params) == 2:
            rt = ctx.X.return_term(f)
            if tuple_components(rt, 2) is not None and contains(rt, lambda s: s == ("global", "numpy.isnan")):
                return f
    raise AnalysisError("NaN propagation helper not found")


def _value_alts(t):
    out = []
    for a in alts(t):
        if a[0] == "ifexp":
            out += _value_alts(a[2]) + _value_alts(a[3])
        elif a != ("const", None):
            out.append(a)
    return out


def ifexp_to_alts(t):
    """conditional expressions at the top of a value as alternatives"""
    from ..terms import phi

    if t[0] == "ifexp":
        return phi([ifexp_to_alts(t[2]), ifexp_to_alts(t[3])])
    if t[0] == "phi":
        return phi([ifexp_to_alts(a) for a in t[1]])
    return t


@rule(P)
def c03_1(ctx: Ctx) -> RuleResult:
    res = RuleResult("C03.1", "TERM", "row failure = any NaN among the row's objectives OR constraints; failed rows are NaN in every column of both arrays")
    X = ctx.X
    f = propagate_fn(ctx)
    rt = X.return_term(f)
    pobj, pcon = ("param", f.qualname, f.params[0]), ("param", f.qualname, f.params[1])
    NONE_ = ("const", None)

    def row_any(p):
        return [norm(call("numpy.any", call("numpy.isnan", p), axis=C(-1)))]

    # every returning path (early returns for absent arrays included): the rows that are overwritten
    leaves = [(conds, leaf) for conds, leaf in guard_leaves(X.guarded_return(f), strip_wrappers=False)]
    state = {"objectives": [False, True, ""], "constraints": [False, True, ""]}  # [seen an update, ok, why]
    for conds, leaf in leaves:
        if leaf[0] != "tuple" or len(leaf[1]) != 2:
            for st_ in state.values():
                st_[1], st_[2] = False, f"returns `{show(leaf, 60)}` instead of (objectives, constraints)"
            continue
        obj_none = cond_value(conds, ("cmp", "is", pobj, NONE_))
        con_none = cond_value(conds, ("cmp", "is", pcon, NONE_))
        for name, elem in (("objectives", leaf[1][0]), ("constraints", leaf[1][1])):
            st_ = state[name]
            if not any(a[0] == "update" for a in alts(elem)):
                # the masked copy may be made by a private helper (`_with_failed_rows(results, failures)`)
                elem = ifexp_to_alts(X.force_inline(elem, f, effects=True))
            for u in [a for a in alts(elem) if a[0] == "update"]:
                st_[0] = True
                base, idx, val = u[1], u[3], u[4]
                if val != ("global", "numpy.nan"):
                    st_[1], st_[2] = False, f"failed rows of {name} are set to `{show(val, 30)}`, not NaN"
                    continue
                if not (idx[0] == "tuple" and len(idx[1]) == 2 and idx[1][1] == ("slice", C(None), C(None), C(None))):
                    st_[1], st_[2] = False, f"only `{show(idx, 40)}` of a failed row is overwritten in {name}: later code reads column 0 only"
                    continue
                sel = idx[1][0]
                # the selector is the OR of the row tests of every array that is present
                parts = {norm(s) for s in X.closure(sel) if s[0] == "call"}
                has_obj = any(x in parts for x in row_any(pobj)) or obj_none is True
                has_con = any(x in parts for x in row_any(pcon)) or con_none is True
                need_or = obj_none is not True and con_none is not True
                ored = any(s[0] in ("aug", "binop") and s[1] == "|" for s in X.closure(sel)) or any(
                    s[0] == "call" and s[1] == ("global", "numpy.logical_or") for s in X.closure(sel))
                if not (has_obj and has_con and (ored or not need_or)):
                    st_[1] = False
                    st_[2] = (f"row selector for {name} is `{show(sel, 100)}`: it does not combine any-NaN of the objectives with any-NaN of the constraints "
                              "(a realization failing in one array keeps values in the other)")
    for name in ("objectives", "constraints"):
        seen, ok, why = state[name]
        if not seen:
            ok, why = False, f"returned {name} are never overwritten with NaN on failed rows"
        res.add(f, f.node, f"{name}: rows where any objective or any constraint is NaN are NaN in all columns", ok, why, construct=f"{f.name}: {name} rows")
    # reductions are 'any' over the last axis (not 'all', not another axis)
    reds = []
    for s in X.closure(rt):
        if s[0] != "call":
            continue
        s2 = norm(s)  # method forms (x.any(...)), logical_or.reduce -> numpy.any
        if s2[0] == "call" and s2[1][0] == "global" and s2[1][1] in ("numpy.any", "numpy.all") and s2[2] and contains(s2[2][0], lambda y: y == ("global", "numpy.isnan")):
            reds.append(s2)
    ok = bool(reds) and all(s[1][1] == "numpy.any" and any(k == "axis" and norm(v) == C(-1) for k, v in s[3]) for s in reds)
    res.add(f, f.node, "row tests reduce with OR over the last axis", ok, "" if ok else "a row test uses AND or another axis: a single NaN does not fail the row", construct=f"{f.name}: OR over last axis")
    # consumers read column 0 only: tie to the propagation
    u = ctx.repo.funcs.get("ropt.ensemble_evaluator._utils._get_failed_realizations")
    if u is not None:
        col0 = [s for s in subterms(X.return_term(u)) if s[0] == "call" and s[1] == ("global", "numpy.isnan")]
        ok = bool(col0)
        res.add(u, u.node, "the failure flag reads NaN-ness of the objectives (column 0 suffices because rows are propagated)", ok, construct=f"{u.name}: reads propagated rows")
    # the propagation is applied to both evaluator result classes
    n = 0
    for c in ctx.repo.classes.values():
        if c.module is f.module and "__post_init__" in c.methods:
            m = c.methods["__post_init__"]
            calls_it = any(f in ctx.cg.callees_of_call(m, cl) for cl in calls_in(m))
            n += 1
            res.add(m, m.node, f"{c.name} propagates NaN rows on construction", calls_it, "" if calls_it else "evaluator results bypass NaN propagation", construct=f"{c.name}: propagates")
    res.floor = 5
    return res


# --------------------------------------------------------------------- C03.2
def _is_threshold(ctx: Ctx, f: Func, t: Term, which: str, depth: int = 0) -> bool:
    """t denotes the configured threshold: the config attribute itself, or a
    parameter that is bound to it at every resolved call site."""
    from ..callgraph import _is_bound_call, bind_args

    if t[0] == "attr":
        return t[2] == which
    if t[0] == "param" and depth < 2:
        pf = ctx.repo.funcs.get(t[1])
        callers = ctx.cg.callers(pf) if pf is not None else []
        args = []
        for caller, call_ in callers:
            ct = ctx.X.at(caller, call_)
            a = bind_args(pf, ct, bound=_is_bound_call(ct, pf)).get(t[2])
            if a is not None:
                args.append((caller, a))
        return bool(args) and all(_is_threshold(ctx, c, a, which, depth + 1) for c, a in args)
    return False


def _threshold_compares(ctx: Ctx):
    """(func, Compare node, normalised cmp term, which, side) for every ordering
    comparison against a success threshold outside the configuration package."""
    out = []
    for f in ctx.repo.all_funcs():
        if f.module.name.startswith("ropt.config"):
            continue
        for n in nodes_in(f, ast.Compare):
            t = norm(ctx.X.at(f, n))
            if t[0] != "cmp" or t[1] in ("is", "is not", "in", "not in"):
                continue
            for which in ("realization_min_success", "perturbation_min_success"):
                for side in (2, 3):
                    if _is_threshold(ctx, f, t[side], which):
                        out.append((f, n, t, which, side))
    return out


def _is_success_count(t: Term, F: Term) -> bool:
    """t == number of realizations that did not fail, F the failure flags:
    count_nonzero(~F) | sum(~F) | F.size - count_nonzero(F) | len(F) - sum(F) ..."""
    t, F = norm(t), norm(F)
    notF = ("unary", "~", F)
    cnt = lambda x: [call("numpy.count_nonzero", x), call("numpy.sum", x)]  # noqa: E731
    if t in cnt(notF):
        return True
    sizes = [("attr", F, "size"), call(("builtin", "len"), F), ("sub", ("attr", F, "shape"), C(0)), ("sub", ("attr", F, "shape"), C(-1))]
    for sz in sizes:
        for c_ in cnt(F):
            if t == norm(("binop", "-", sz, c_)):
                return True
    return False


@rule(P)
def c03_2(ctx: Ctx) -> RuleResult:
    res = RuleResult("C03.2", "ENUM", "threshold comparisons: fails iff successes < perturbation_min_success; computed iff successes >= realization_min_success")
    X = ctx.X
    # ---- the perturbation threshold: every comparison against it reads `successes < threshold`
    for f, n, t, which, side in _threshold_compares(ctx):
        if which != "perturbation_min_success":
            continue
        atom, pol = strict_lt(*norm_cond(t))
        p_ = parent(n)
        while isinstance(p_, ast.UnaryOp) and isinstance(p_.op, (ast.Not, ast.Invert)):
            pol = not pol
            p_ = parent(p_)
        ok = atom[0] == "cmp" and atom[1] == "<" and _is_threshold(ctx, f, atom[3], which) and pol
        other = atom[2] if atom[0] == "cmp" else t
        cnt_ok = contains(other, lambda s: s[0] == "call" and s[1] == G("numpy.count_nonzero")) and contains(other, lambda s: s[0] == "unary" and s[1] == "~")
        res.add(f, n, "a realization fails iff its number of successful perturbations is strictly less than perturbation_min_success", ok and cnt_ok,
                "" if ok and cnt_ok else (f"comparison is `{show(t, 80)}`: off-by-one or wrong direction at the perturbation threshold" if not ok else "the count is not the number of non-failed perturbations"),
                construct=f"{f.name}: perturbation threshold")
    # ---- the realization threshold: every functions= / gradients= value of a result is computed
    #      under `not (successes < realization_min_success)` and is None otherwise
    ee = ctx.repo.cls("ropt.ensemble_evaluator._ensemble_evaluator.EnsembleEvaluator")
    which = "realization_min_success"
    for m in ee.methods.values():
        for call_ in calls_in(m):
            fn = X.at(m, call_.func)
            if fn not in (G("ropt.results._function_results.FunctionResults"), G("ropt.results._gradient_results.GradientResults")):
                continue
            kwn = {k.arg: k.value for k in call_.keywords if k.arg}
            ct = X.at(m, call_)
            rk = dict(dict(ct[3]).get("realizations", ("call", None, (), ()))[3]) if dict(ct[3]).get("realizations", ("x",))[0] == "call" else {}
            F = rk.get("failed_realizations")
            if F is not None:
                # the flags may come out of a private helper together with the gated value (`failed, functions = self._gate(...)`);
                # helpers are looked into to the same depth as for the gated values below
                F = X.force_inline(F, m, effects=True) if F[0] == "item" else X.force_inline(F, m)
            for name in ("functions", "gradients"):
                if name not in kwn:
                    continue
                leaves = gated_values(ctx, m, kwn[name])
                computed = [(c, l_) for c, l_ in leaves if l_ != NONE_T]
                nones = [(c, l_) for c, l_ in leaves if l_ == NONE_T]
                why = ""
                if F is None:
                    why = "the failure flags reported with the result were not found"

                def gate_pol(conds):
                    """polarity of `successes < threshold` among the conditions, None when absent"""
                    for a, p in conds:
                        a, p = strict_lt(a, p)
                        if a[0] == "cmp" and a[1] == "<" and _is_threshold(ctx, m, a[3], which) and F is not None and (
                                _is_success_count(a[2], F) or _is_success_count(X.force_inline(a[2], m), F)):
                            return p
                    return None

                def describe(conds):
                    return [("" if p else "not ") + show(a, 70) for a, p in conds]

                if not why and not computed:
                    why = f"no computed `{name}` reach the result"
                for c, l_ in computed:
                    if why:
                        break
                    if gate_pol(c) is not False:
                        why = (f"`{name}` are computed under {describe(c)}: not exactly when the number of successful realizations (count of ~failed_realizations) "
                               ">= realization_min_success (off-by-one, wrong direction or another count)")
                res.add(m, call_, f"{name} are computed iff the number of successful realizations >= realization_min_success", not why, why, construct=f"{m.name}: gate {name}")
                ok2 = bool(nones) and all(gate_pol(c) is True for c, _l in nones)
                res.add(m, call_, f"below the threshold no {name} are reported (None)", ok2, "" if ok2 else "the failing branch does not yield None", construct=f"{m.name}: gate else None {name}")
    kinds = {i.construct.rsplit(" ", 1)[-1] for i in res.instances if ": gate " in i.construct}
    if not {"functions", "gradients"} <= kinds:
        raise AnalysisError(f"result constructions with computed functions and gradients not found (found {sorted(kinds)})")
    res.floor = 5
    return res


NONE_T = ("const", None)


@rule(P)
def c03_3(ctx: Ctx) -> RuleResult:
    res = RuleResult("C03.3", "FLOW", "failed realizations carry zero weight after renormalisation; NaN rows are dropped from every least-squares system (C01.2, C02.4, C02.2)")
    for sub in (c01_2, c02_4, c02_2):
        r = sub(ctx)
        for i in r.instances:
            if "weight source" in i.construct:
                continue  # weight *source* is C01.1's clause, not an exclusion clause
            i.rule = "C03.3"
            res.instances.append(i)
    res.floor = 8
    return res


# --------------------------------------------------------------------- C03.4
class _DriverHooks(Hooks):
    """The evaluation driver is interpreted with the evaluator's answer replaced by a
    chosen tuple of results; everything else outside the package is unknown."""

    def __init__(self, calc_calls, results) -> None:
        self.calc_calls = calc_calls
        self.results = results

    def external_call(self, interp, text, args, kwargs, st, func, node):
        if node in self.calc_calls:
            return [(st, self.results)]
        return [(st, TOP)]


def _driver_outcomes(ctx: Ctx, g: Func, calc_calls, result_cls: str, fields: dict):
    interp = Interp(ctx.repo, _DriverHooks(calc_calls, (Obj("R", result_cls),)))
    interp.track_raises = True
    interp.interpret_private = True
    st = State({"self": {}, "R": dict(fields)}, {})
    kwargs = {a.arg: True for a in g.node.args.kwonlyargs}
    args = [Obj("self", g.cls.qualname if g.cls else "")] + [Sym(p) for p in g.positional[1:]]
    env = {p: v for p, v in zip(g.positional, args)}
    env.update(kwargs)
    return interp.exec_block(g.body, env, st, g, 0)


@rule(P)
def c03_4(ctx: Ctx) -> RuleResult:
    res = RuleResult("C03.4", "DOM", "a result without functions / gradients stops the optimization with TOO_FEW_REALIZATIONS")
    calc = ensemble_calculate(ctx)
    FR, GR = "ropt.results._function_results.FunctionResults", "ropt.results._gradient_results.GradientResults"
    ABORT = "ropt.exceptions.OptimizationAborted"
    found = False
    for cb in optimizer_callbacks(ctx):
        for g in [cb] + [x for _c, cs, _k in ctx.cg.all_callees(cb) for x in cs]:
            direct = [c for c, cs, _k in ctx.cg.all_callees(g) if calc in cs]
            if not direct:
                continue
            found = True
            # every execution of the driver in which the evaluator returned a result without
            # functions (resp. gradients) ends by raising OptimizationAborted(TOO_FEW_REALIZATIONS)
            for label, cls_, fields in (("function result without functions", FR, {"functions": None}), ("gradient result without gradients", GR, {"gradients": None})):
                outs = _driver_outcomes(ctx, g, direct, cls_, fields)
                bad = []
                for st, flow, val, _env in outs:
                    code = val.get("exit_code") if isinstance(val, ExcVal) else None
                    if not (flow == "raise" and isinstance(val, ExcVal) and val.cls == ABORT and isinstance(code, Sym) and code.text.endswith("OptimizerExitCode.TOO_FEW_REALIZATIONS")):
                        bad.append((flow, val, st))
                ok = bool(outs) and not bad
                why = ""
                if not outs:
                    why = "the driver could not be interpreted to an end (no outcome)"
                elif bad:
                    flow, val, st = bad[0]
                    how = "returns normally" if flow != "raise" else f"raises {val.cls}({dict(val.kwargs)})" if isinstance(val, ExcVal) else flow
                    why = (f"with a {label} the driver {how} under {sorted(k for k, v in st.atoms.items() if v)} / not {sorted(k for k, v in st.atoms.items() if not v)}: "
                           "the missing values are consumed as if they were present, or the optimization stops with another code")
                res.add(g, direct[0], f"a {label} makes the evaluation driver raise OptimizationAborted(TOO_FEW_REALIZATIONS) on every path ({len(outs)} paths interpreted)", ok, why,
                        construct=f"{g.name}: {label}")
            # control: with complete results the driver can return normally (the check above is not vacuous)
            outs = _driver_outcomes(ctx, g, direct, FR, {"functions": Sym("F", True)})
            ok = any(flow == "return" for _s, flow, _v, _e in outs)
            res.add(g, direct[0], "with complete results the driver returns them (control for the interpretation)", ok, "" if ok else "no normally returning path found", construct=f"{g.name}: complete results returned")
    if not found:
        raise AnalysisError("the driver function calling EnsembleEvaluator.calculate was not found")
    # consumers assert presence (functions_from_results / gradients_from_results)
    for cb in optimizer_callbacks(ctx):
        for call_, cs, _k in ctx.cg.all_callees(cb):
            for h in cs:
                if "from_results" in h.name:
                    has_assert = any(isinstance(x, ast.Assert) for x in ast.walk(h.node))
                    res.add(h, h.node, "consumers of functions/gradients assert their presence", has_assert, construct=f"{h.name}: asserts presence")
    res.floor = 3
    return res


# --------------------------------------------------------------------- C03.5
@rule(P)
def c03_5(ctx: Ctx) -> RuleResult:
    res = RuleResult("C03.5", "COH", "the failure flags (and weights) reported with a gradient result are the ones its gradients were computed with, from the same evaluation")
    X = ctx.X
    ee = ctx.repo.cls("ropt.ensemble_evaluator._ensemble_evaluator.EnsembleEvaluator")
    n = 0
    for m in ee.methods.values():
        for call_ in calls_in(m):
            if X.at(m, call_.func) != ("global", "ropt.results._gradient_results.GradientResults"):
                continue
            ct = X.at(m, call_)
            kw = dict(ct[3])
            r, gr = kw.get("realizations"), kw.get("gradients")
            if r is None or gr is None or r[0] != "call":
                continue
            if gr[0] == "item":
                # `failed, gradients = self._gate(...)`: the value computed inside the private helper
                gr = X.force_inline(gr, m, effects=True)
            used = [a for _c, a in guard_leaves(gr, strip_wrappers=False) if a[0] == "call"]
            if not used:
                continue
            n += 1
            uargs = list(used[0][2]) + [v_ for _k, v_ in used[0][3]]
            rk = dict(r[3])
            for k_ in list(rk):
                if rk[k_][0] == "item":
                    rk[k_] = X.force_inline(rk[k_], m, effects=True)
            uargs = uargs + [X.force_inline(a_, m, effects=True) for a_ in uargs if a_[0] == "item"]
            uargs = uargs + [norm(a_) for a_ in uargs]
            rk = {k_: (v_ if v_ in uargs else norm(v_)) for k_, v_ in rk.items()}
            if r[1] == ("global", "dataclasses.replace") and r[2]:
                # `replace(<realizations of the function result>, failed_realizations=...)`: unnamed fields keep the base's value
                base_ = r[2][0]
                # `<constructed result>.realizations`: the field of a dataclass object built in this function is the keyword it was given
                while base_[0] == "attr" and base_[1][0] == "call" and base_[1][1][0] == "global" and base_[1][1][1] in ctx.repo.classes and base_[2] in dict(base_[1][3]):
                    base_ = dict(base_[1][3])[base_[2]]

                def field_of(b_, name_):
                    for a_ in (b_[1] if b_[0] == "phi" else [b_]):
                        if a_[0] == "call" and a_[1][0] == "global" and a_[1][1].endswith(".Realizations") and name_ in dict(a_[3]):
                            return dict(a_[3])[name_]
                    return ("attr", b_, name_)

                rk = {name_: field_of(base_, name_) for name_ in ("failed_realizations", "objective_weights", "constraint_weights")} | rk
            for name in ("failed_realizations", "objective_weights", "constraint_weights"):
                ok = name in rk and rk[name] in uargs
                res.add(m, call_, f"GradientResults: Realizations.{name} is the value the gradients were computed with", ok,
                        "" if ok else f"reported `{name}` differs from the value used", construct=f"{m.name}: gradient {name}")
            # the flags use the perturbed results of the same evaluation as the reported evaluations
            fr = rk.get("failed_realizations")
            ev = kw.get("evaluations")
            if fr is not None and ev is not None and ev[0] == "call":
                ekw = dict(ev[3])
                po = ekw.get("perturbed_objectives")
                ok = po is not None and contains(fr, lambda y: y == po)
                res.add(m, call_, "the failure flags are derived from the perturbed objectives reported in the same result", ok,
                        "" if ok else "flags and reported evaluations come from different evaluations", construct=f"{m.name}: flags from same evaluation")
    # function side: the flags reported with (and used for) function values come from the unperturbed evaluation alone -
    # a realization whose perturbations failed still has a valid function value
    nf = 0
    for m in ee.methods.values():
        for call_ in calls_in(m):
            if X.at(m, call_.func) != ("global", "ropt.results._function_results.FunctionResults"):
                continue
            kw = dict(X.at(m, call_)[3])
            r = kw.get("realizations")
            if r is None or r[0] != "call":
                continue
            fr = dict(r[3]).get("failed_realizations")
            if fr is None:
                continue
            nf += 1
            from ..util import deep_subterms

            pert = [y for y in subterms(fr) if y[0] == "attr" and y[2] in ("perturbed_objectives", "perturbed_constraints")]
            ok = not pert
            res.add(m, call_, "FunctionResults: the failure flags derive from the unperturbed values only", ok,
                    "" if ok else f"the function flags depend on `{show(pert[0], 60)}`: a realization that only lost perturbations is dropped from the function values (and the functions-only request at the same point disagrees)",
                    construct=f"{m.name}: function flags from the function evaluation")
    if n == 0:
        raise AnalysisError("no GradientResults construction found")
    if nf == 0:
        raise AnalysisError("no FunctionResults construction found")
    res.floor = 4  # at least one construction site with its four clauses (sites may be shared by several paths)
    return res


@rule(P)
def c03_6(ctx: Ctx) -> RuleResult:
    """Shared with C18.3: the thresholds the gates compare with are the configured ones - a default is filled in
    only for None (an explicit 0 stays 0) and values are only clamped from above."""
    from .c18 import c18_3

    r = c18_3(ctx)
    r.instances = [i for i in r.instances if "min_success" in i.construct]
    for i in r.instances:
        i.rule = "C03.6"
    r.rule, r.title, r.floor = "C03.6", "realization_min_success / perturbation_min_success keep their configured value (default only for None, clamped to the ensemble / perturbation count)", 2
    return r



@rule(P)
def c03_7(ctx: Ctx) -> RuleResult:
    """Contradiction rule over the evaluation pipeline (the ensemble evaluator's methods and the gradient / function /
    result helpers): optional arrays (constraints, perturbed values, per-function weight matrices, cached results) are
    never dereferenced, indexed or compared on a path where the test in force says they are None.  A flipped `is None`
    there either raises inside an evaluation or silently skips the constraints / the filter's weights."""
    from .common import none_contradictions

    res = RuleResult("C03.7", "DOM", "optional values of the evaluation pipeline are used only where they are present (None-test polarity)")
    ee = ctx.repo.cls("ropt.ensemble_evaluator._ensemble_evaluator.EnsembleEvaluator")
    funcs = [m for m in ee.methods.values() if not isinstance(m.node, ast.Lambda)]
    for mod in ("ropt.ensemble_evaluator._gradient", "ropt.ensemble_evaluator._function", "ropt.ensemble_evaluator._utils", "ropt.ensemble_evaluator._evaluator_results"):
        funcs += [f for f in ctx.repo.funcs_in(mod) if not isinstance(f.node, ast.Lambda)]
    n = 0
    for f in funcs:
        n += none_contradictions(ctx, res, f, f.name)
    if n < 20:
        raise AnalysisError(f"only {n} conditioned uses found in the evaluation pipeline")
    res.floor = 10
    return res


@rule(P)
def c03_8(ctx: Ctx) -> RuleResult:
    """Shared with C01.5: the reduced ensemble's estimate - the N of the N/(N-1) correction is the number of positive
    weights of *this* call (after failures were zeroed), not a value kept from an earlier evaluation."""
    from .c01 import c01_5

    r = c01_5(ctx)
    for i in r.instances:
        i.rule = "C03.8"
    r.rule, r.title = "C03.8", "estimators see the reduced ensemble of each call: mean and stddev (N = positive weights of this call) as defined"
    return r
