"""C03 - failed realizations and perturbations are excluded exactly as if absent.

  C03.1 TERM  NaN propagation: a NaN in any column fails the whole row, in both arrays
  C03.2 ENUM  thresholds: `success_count < perturbation_min_success` fails a realization;
              `count(~failed) >= realization_min_success` gates functions and gradients;
              every gate site uses the same predicate and yields None otherwise
  C03.3 FLOW  weight zeroing + renormalisation and NaN-row dropping (C01.2, C02.4, C02.2)
  C03.4 DOM   missing functions/gradients -> TOO_FEW_REALIZATIONS in the optimizer driver
  C03.5 COH   the failure flags reported with gradients are the flags they were computed with
"""

from __future__ import annotations

import ast

from ..cfg import cfg_of
from ..core import META, Ctx, RuleResult, rule
from ..dataflow import dataflow_of
from ..model import AnalysisError, Func, norm_stmt, parent
from ..paths import PathFinder, describe_path
from ..pattern import C, G, V, call, match, norm
from ..terms import Term, alts, contains, ends_with_attrs, root_of, show, subterms
from ..util import calls_in, deep_subterms, nodes_in
from .c01 import c01_2
from .c02 import c02_2, c02_4
from .c14 import ensemble_calculate, optimizer_callbacks

P = "C03"

META[P] = {
    "explanation": (
        "NaN propagation as a reference term on both result arrays; order-type reading of every comparison against the two success thresholds with "
        "sibling agreement over all gate sites; the shared weight-pipeline and row-selection rules; control dependence of the TOO_FEW_REALIZATIONS raise "
        "on per-result `functions is None` / `gradients is None` tests inside the loop over the results; and reported-equals-used for the failure flags."
    ),
    "not_decided": ["value equality with the reduced ensemble beyond the structural clauses (floating point)"],
}


def propagate_fn(ctx: Ctx) -> Func:
    for f in ctx.repo.funcs_in("ropt.ensemble_evaluator._evaluator_results"):
        if f.cls is None and len(f.params) == 2:
            rt = ctx.X.return_term(f)
            if rt[0] == "tuple" and len(rt[1]) == 2 and contains(rt, lambda s: s == ("global", "numpy.isnan")):
                return f
    raise AnalysisError("NaN propagation helper not found")


def _value_alts(t):
    out = []
    for a in alts(t):
        if a[0] == "ifexp":
            out += _value_alts(a[2]) + _value_alts(a[3])
        elif a != ("const", None):
            out.append(a)
    return out


@rule(P)
def c03_1(ctx: Ctx) -> RuleResult:
    res = RuleResult("C03.1", "TERM", "row failure = any NaN among the row's objectives OR constraints; failed rows are NaN in every column of both arrays")
    X = ctx.X
    f = propagate_fn(ctx)
    rt = X.return_term(f)
    pobj, pcon = ("param", f.qualname, f.params[0]), ("param", f.qualname, f.params[1])

    def row_any(p):
        return [norm(call("numpy.any", call("numpy.isnan", p), axis=C(-1)))]

    for name, elem, p in (("objectives", rt[1][0], pobj), ("constraints", rt[1][1], pcon)):
        ups = [a for a in alts(elem) if a[0] == "update"]
        ok = len(ups) >= 1
        why = "" if ok else f"returned {name} are `{show(elem, 100)}`: failed rows are not overwritten with NaN"
        for u in ups:
            base, idx, val = u[1], u[3], u[4]
            if val != ("global", "numpy.nan"):
                ok, why = False, f"failed rows of {name} are set to `{show(val, 30)}`, not NaN"
                continue
            if not (idx[0] == "tuple" and len(idx[1]) == 2 and idx[1][1] == ("slice", C(None), C(None), C(None))):
                ok, why = False, f"only `{show(idx, 40)}` of a failed row is overwritten in {name}: later code reads column 0 only"
                continue
            sel = idx[1][0]
            # the selector is the OR of both row tests
            parts = {norm(s) for s in X.closure(sel) if s[0] == "call"}
            has_obj = any(x in parts for x in row_any(pobj))
            has_con = any(x in parts for x in row_any(pcon))
            ored = any(s[0] in ("aug", "binop") and s[1] == "|" for s in X.closure(sel)) or any(
                s[0] == "call" and s[1] == ("global", "numpy.logical_or") for s in X.closure(sel))
            if not (has_obj and has_con and ored):
                ok = False
                why = (f"row selector for {name} is `{show(sel, 100)}`: it does not combine any-NaN of the objectives with any-NaN of the constraints "
                       "(a realization failing in one array keeps values in the other)")
        res.add(f, f.node, f"{name}: rows where any objective or any constraint is NaN are NaN in all columns", ok, why, construct=f"{f.name}: {name} rows")
    # reductions are 'any' over the last axis (not 'all', not another axis)
    reds = [s for s in X.closure(rt) if s[0] == "call" and s[1][0] == "global" and s[1][1] in ("numpy.logical_or.reduce", "numpy.logical_and.reduce", "numpy.any", "numpy.all") and s[2] and contains(s[2][0], lambda y: y == ("global", "numpy.isnan"))]
    ok = bool(reds) and all(s[1][1] in ("numpy.logical_or.reduce", "numpy.any") and any(k == "axis" and norm(v) == C(-1) for k, v in s[3]) for s in reds)
    res.add(f, f.node, "row tests reduce with OR over the last axis", ok, "" if ok else "a row test uses AND or another axis: a single NaN does not fail the row", construct=f"{f.name}: OR over last axis")
    # consumers read column 0 only: tie to the propagation
    u = ctx.repo.funcs.get("ropt.ensemble_evaluator._utils._get_failed_realizations")
    if u is not None:
        col0 = [s for s in subterms(X.return_term(u)) if s[0] == "call" and s[1] == ("global", "numpy.isnan")]
        ok = bool(col0)
        res.add(u, u.node, "the failure flag reads NaN-ness of the objectives (column 0 suffices because rows are propagated)", ok, construct=f"{u.name}: reads propagated rows")
    # the propagation is applied to both evaluator result classes
    n = 0
    for c in ctx.repo.classes.values():
        if c.module is f.module and "__post_init__" in c.methods:
            m = c.methods["__post_init__"]
            calls_it = any(f in ctx.cg.callees_of_call(m, cl) for cl in calls_in(m))
            n += 1
            res.add(m, m.node, f"{c.name} propagates NaN rows on construction", calls_it, "" if calls_it else "evaluator results bypass NaN propagation", construct=f"{c.name}: propagates")
    res.floor = 5
    return res


# --------------------------------------------------------------------- C03.2
def _is_threshold(ctx: Ctx, f: Func, t: Term, which: str, depth: int = 0) -> bool:
    """t denotes the configured threshold: the config attribute itself, or a
    parameter that is bound to it at every resolved call site."""
    from ..callgraph import _is_bound_call, bind_args

    if t[0] == "attr":
        return t[2] == which
    if t[0] == "param" and depth < 2:
        pf = ctx.repo.funcs.get(t[1])
        callers = ctx.cg.callers(pf) if pf is not None else []
        args = []
        for caller, call_ in callers:
            ct = ctx.X.at(caller, call_)
            a = bind_args(pf, ct, bound=_is_bound_call(ct, pf)).get(t[2])
            if a is not None:
                args.append((caller, a))
        return bool(args) and all(_is_threshold(ctx, c, a, which, depth + 1) for c, a in args)
    return False


def _threshold_compares(ctx: Ctx):
    """(func, Compare node, normalised cmp term, which, side) for every ordering
    comparison against a success threshold outside the configuration package."""
    out = []
    for f in ctx.repo.all_funcs():
        if f.module.name.startswith("ropt.config"):
            continue
        for n in nodes_in(f, ast.Compare):
            t = norm(ctx.X.at(f, n))
            if t[0] != "cmp" or t[1] in ("is", "is not", "in", "not in"):
                continue
            for which in ("realization_min_success", "perturbation_min_success"):
                for side in (2, 3):
                    if _is_threshold(ctx, f, t[side], which):
                        out.append((f, n, t, which, side))
    return out


@rule(P)
def c03_2(ctx: Ctx) -> RuleResult:
    res = RuleResult("C03.2", "ENUM", "threshold comparisons: fails iff successes < perturbation_min_success; computed iff successes >= realization_min_success")
    X = ctx.X
    cmps = _threshold_compares(ctx)
    gates = []
    for f, n, t, which, side in cmps:
        op = t[1]
        other = t[5 - side]
        if which == "perturbation_min_success":
            # normal form: count < threshold  (threshold on the right)
            ok = op == "<" and side == 3
            cnt_ok = contains(other, lambda s: s[0] == "call" and s[1] == G("numpy.count_nonzero")) and contains(other, lambda s: s[0] == "unary" and s[1] == "~")
            res.add(f, n, "a realization fails iff its number of successful perturbations is strictly less than perturbation_min_success", ok and cnt_ok,
                    "" if ok and cnt_ok else (f"comparison is `{show(t, 80)}`: off-by-one or wrong direction at the perturbation threshold" if not ok else "the count is not the number of non-failed perturbations"),
                    construct=f"{f.name}: {show(t, 70)}")
        else:
            if other == C(1) or other[0] == "const":
                # `realization_min_success < 1`: the allow-zero check of the driver, not a gate
                continue
            # normal form: threshold <= count
            ok = op == "<=" and side == 2
            cnt_ok = contains(other, lambda s: s[0] == "call" and s[1] == G("numpy.count_nonzero")) and contains(other, lambda s: s[0] == "unary" and s[1] == "~")
            gates.append((f, n, t))
            res.add(f, n, "functions/gradients are computed iff the number of successful realizations >= realization_min_success", ok and cnt_ok,
                    "" if ok and cnt_ok else (f"gate is `{show(t, 80)}`: off-by-one or wrong direction at the realization threshold" if not ok else "the count is not the number of non-failed realizations"),
                    construct=f"{f.name}: gate {show(t, 60)}")
            # else branch yields None
            p_ = parent(n)
            while p_ is not None and not isinstance(p_, ast.If):
                p_ = parent(p_)
            ok2 = False
            if isinstance(p_, ast.If) and p_.orelse:
                ok2 = any(isinstance(s, ast.Assign) and isinstance(s.value, ast.Constant) and s.value.value is None for s in p_.orelse)
            res.add(f, n, "below the threshold no functions/gradients are reported (None)", ok2, "" if ok2 else "the failing branch does not yield None", construct=f"{f.name}: gate else None")
    # sibling agreement and coverage: every call computing functions / gradients is gated
    ee = ctx.repo.cls("ropt.ensemble_evaluator._ensemble_evaluator.EnsembleEvaluator")
    for m in ee.methods.values():
        for cl in calls_in(m):
            if isinstance(cl.func, ast.Attribute) and cl.func.attr in ("_compute_functions", "_compute_gradients"):
                p_ = parent(cl)
                gated = False
                while p_ is not None and p_ is not m.node:
                    if isinstance(p_, ast.If) and any(n_ is x for (_f, n_, _t) in gates for x in ast.walk(p_.test)):
                        gated = True
                    p_ = parent(p_)
                res.add(m, cl, f"`{cl.func.attr}` is called only under the realization_min_success gate", gated,
                        "" if gated else "functions/gradients are computed without checking the minimum number of successful realizations", construct=f"{m.name}: gated {cl.func.attr}")
    res.floor = 9
    return res


@rule(P)
def c03_3(ctx: Ctx) -> RuleResult:
    res = RuleResult("C03.3", "FLOW", "failed realizations carry zero weight after renormalisation; NaN rows are dropped from every least-squares system (C01.2, C02.4, C02.2)")
    for sub in (c01_2, c02_4, c02_2):
        r = sub(ctx)
        for i in r.instances:
            if "weight source" in i.construct:
                continue  # weight *source* is C01.1's clause, not an exclusion clause
            i.rule = "C03.3"
            res.instances.append(i)
    res.floor = 8
    return res


# --------------------------------------------------------------------- C03.4
@rule(P)
def c03_4(ctx: Ctx) -> RuleResult:
    res = RuleResult("C03.4", "DOM", "a result without functions / gradients stops the optimization with TOO_FEW_REALIZATIONS")
    X = ctx.X
    calc = ensemble_calculate(ctx)
    found = False
    for cb in optimizer_callbacks(ctx):
        for g in [cb] + [x for _c, cs, _k in ctx.cg.all_callees(cb) for x in cs]:
            direct = [c for c, cs, _k in ctx.cg.all_callees(g) if calc in cs]
            if not direct:
                continue
            found = True
            cfg = cfg_of(ctx.repo, g)
            pf = PathFinder(cfg, dataflow_of(ctx.repo, g))
            # the loop over the results of calculate
            loops = [n for n in nodes_in(g, ast.For) if X.at(g, n.iter)[0] == "call" and calc in ctx.cg.resolve_fn(X.at(g, n.iter)[1], g)]
            if not loops:
                res.add(g, direct[0], "the results of the evaluation are inspected one by one", False, "no loop over the results", construct=f"{g.name}: loop over results")
                continue
            lp = loops[0]
            item = lp.target.id if isinstance(lp.target, ast.Name) else None
            sets = []
            for nd in ast.walk(lp):
                if isinstance(nd, ast.If):
                    t = X.at(g, nd.test)
                    fn_none = contains(t, lambda s: s[0] == "cmp" and s[1] == "is" and s[3] == C(None) and s[2][0] == "attr" and s[2][2] == "functions")
                    gr_none = contains(t, lambda s: s[0] == "cmp" and s[1] == "is" and s[3] == C(None) and s[2][0] == "attr" and s[2][2] == "gradients")
                    assigns = [s for s in nd.body if isinstance(s, ast.Assign) and contains(X.at(g, s.value), lambda y: y == ("global", "ropt.enums.OptimizerExitCode.TOO_FEW_REALIZATIONS"))]
                    raises = [s for s in nd.body if isinstance(s, ast.Raise)]
                    if assigns or raises:
                        sets.append((nd, fn_none, gr_none, assigns, raises))
            ok = any(a and b for _n, a, b, _s, _r in sets)
            res.add(g, lp, "inside the loop: `functions is None` (function results) or `gradients is None` (gradient results) selects TOO_FEW_REALIZATIONS", ok,
                    "" if ok else "a result kind is not tested: missing functions or gradients go unnoticed and are consumed as values", construct=f"{g.name}: per-result None tests")
            # flag -> raise on every path to the normal exit
            for nd, _a, _b, assigns, raises in sets:
                for a in assigns:
                    for an in cfg.node_containing(a):
                        var = a.targets[0].id if isinstance(a.targets[0], ast.Name) else "?"
                        # the assignment stores an enum member (not None); the fact is
                        # re-established on every edge leaving the assignment node
                        fact = [(("isnone", var, frozenset([var])), False)]
                        path = None
                        for nxt, lab in an.succ:
                            if lab == "exc":
                                continue
                            p_ = pf.find_path(nxt, lambda m: m is cfg.exit, start_facts=fact, goal_at_start=True)
                            path = path or p_
                        res.add(g, a, "once the flag is set the function cannot return normally (the raise is reached)", path is None,
                                "" if path is None else "the TOO_FEW flag can be set and ignored", [] if path is None else describe_path(g, path), construct=f"{g.name}: flag leads to raise")
            # consumers run only after this function returned normally
    if not found:
        raise AnalysisError("the driver function calling EnsembleEvaluator.calculate was not found")
    # consumers assert presence (functions_from_results / gradients_from_results)
    for cb in optimizer_callbacks(ctx):
        for call_, cs, _k in ctx.cg.all_callees(cb):
            for h in cs:
                if "from_results" in h.name:
                    has_assert = any(isinstance(x, ast.Assert) for x in ast.walk(h.node))
                    res.add(h, h.node, "consumers of functions/gradients assert their presence", has_assert, construct=f"{h.name}: asserts presence")
    res.floor = 3
    return res


# --------------------------------------------------------------------- C03.5
@rule(P)
def c03_5(ctx: Ctx) -> RuleResult:
    res = RuleResult("C03.5", "COH", "the failure flags (and weights) reported with a gradient result are the ones its gradients were computed with, from the same evaluation")
    X = ctx.X
    ee = ctx.repo.cls("ropt.ensemble_evaluator._ensemble_evaluator.EnsembleEvaluator")
    n = 0
    for m in ee.methods.values():
        for call_ in calls_in(m):
            if X.at(m, call_.func) != ("global", "ropt.results._gradient_results.GradientResults"):
                continue
            ct = X.at(m, call_)
            kw = dict(ct[3])
            r, gr = kw.get("realizations"), kw.get("gradients")
            if r is None or gr is None or r[0] != "call":
                continue
            used = [a for a in alts(gr) if a[0] == "call"]
            if not used:
                continue
            n += 1
            uargs = list(used[0][2])
            rk = dict(r[3])
            for name in ("failed_realizations", "objective_weights", "constraint_weights"):
                ok = name in rk and rk[name] in uargs
                res.add(m, call_, f"GradientResults: Realizations.{name} is the value the gradients were computed with", ok,
                        "" if ok else f"reported `{name}` differs from the value used", construct=f"{m.name}: gradient {name}")
            # the flags use the perturbed results of the same evaluation as the reported evaluations
            fr = rk.get("failed_realizations")
            ev = kw.get("evaluations")
            if fr is not None and ev is not None and ev[0] == "call":
                ekw = dict(ev[3])
                po = ekw.get("perturbed_objectives")
                ok = po is not None and contains(fr, lambda y: y == po)
                res.add(m, call_, "the failure flags are derived from the perturbed objectives reported in the same result", ok,
                        "" if ok else "flags and reported evaluations come from different evaluations", construct=f"{m.name}: flags from same evaluation")
    if n == 0:
        raise AnalysisError("no GradientResults construction found")
    res.floor = 6
    return res
