"""C05 - sort filter selects exactly the configured rank window of successful members.

  C05.1 TERM  kernel: rank successes, slice [first : last+1], zeros + configured weights at the same indices
  C05.2 ENUM  window validation accepts iff 0 <= first <= last < n (all order types), and is
              called for every method whose options carry first/last
  C05.3 COH   filter k's weights go to the rows mapped to k (shared with C01.3)
  C05.4 DOM   positive-weight guard (shared with C04.6)
  C05.5 COH   the multi-objective sort key uses one `sort` list for values and weights
"""

from __future__ import annotations

import ast
import itertools

from ..absint import Hooks, Interp, Obj, State, Sym, TOP
from ..callgraph import positional_args
from ..core import META, Ctx, RuleResult, rule
from ..model import AnalysisError, Func, norm_stmt, parent
from ..pattern import C, G, V, add, call, match, norm
from ..terms import Term, alts, contains, show, subterms
from ..util import calls_in, nodes_in
from .c01 import c01_3
from .c04 import c04_6, cvar_kernel, sort_kernel, stores_in
from .common import FILT

P = "C05"

META[P] = {
    "explanation": (
        "The selection kernel is compared with a reference term; the window validator is interpreted abstractly on every order type of "
        "(0, first, last, n) (exhaustive for integers up to 4, which realises all total preorders of four values); the filter-to-rows mapping and the "
        "positive-weight guard are the shared rules C01.3 / C04.6 evaluated for this property."
    ),
    "not_decided": ["tie-breaking of argsort among equal values (NumPy's documented stable/quick sort behaviour)"],
}


@rule(P)
def c05_1(ctx: Ctx) -> RuleResult:
    res = RuleResult("C05.1", "TERM", "weights == zeros(n) with configured_weights[idx] at idx = ranking_of_successes[first : last + 1]")
    X = ctx.X
    f = sort_kernel(ctx)
    rt = X.return_term(f)
    failed = next(("param", f.qualname, p) for p in f.params if "failed" in p)
    vals = ("param", f.qualname, f.positional[0])
    cw = ("param", f.qualname, f.positional[1])
    first, last = ("param", f.qualname, "first"), ("param", f.qualname, "last")
    rank = ("sub", call("numpy.argsort", call("numpy.where", failed, G("numpy.nan"), vals)),
            ("slice", C(None), call("numpy.count_nonzero", ("unary", "~", failed)), C(None)))
    window = ("sub", rank, ("slice", first, add(C(1), last), C(None)))
    sts = stores_in(rt)
    ok = len(sts) == 1
    why = "" if ok else f"{len(sts)} stores into the weight vector"
    if ok:
        idx, val = sts[0]
        ni, nv = norm(idx), norm(val)
        if ni != norm(window):
            ok, why = False, f"selected indices are `{show(idx, 120)}`, not ranking[first : last + 1]"
        elif nv != norm(("sub", cw, window)):
            ok, why = False, f"stored values are `{show(val, 120)}`, not the configured weights at the same indices"
    res.add(f, f.node, "one store: weights[ranking[first:last+1]] = configured_weights[ranking[first:last+1]]", ok, why, construct=f"{f.name}: window store")
    base_ok = any(a[0] == "call" and a[1] == ("global", "numpy.zeros") and a[2] and a[2][0] == ("attr", cw, "size") for a in subterms(rt))
    res.add(f, f.node, "the vector starts as zeros of the ensemble size (zero elsewhere)", base_ok, "" if base_ok else "base array is not zeros(configured_weights.size)", construct=f"{f.name}: zeros base")
    # callers pass the configured realization weights and their own first/last options
    for g, c in ctx.cg.callers(f):
        t = X.at(g, c)
        pa_ = [a_ for a_ in positional_args(f, t)]
        ok = len(pa_) >= 5 and all(a_ is not None for a_ in pa_[:5]) and show(pa_[1]).endswith("realizations.weights") and show(pa_[3]).endswith(".first") and show(pa_[4]).endswith(".last")
        res.add(g, c, "the kernel receives (values, config.realizations.weights, failed, options.first, options.last)", ok,
                "" if ok else f"arguments are `{[show(a, 40) for a in t[2]]}`", construct=f"{g.name}: kernel arguments")
    # the ranking of successes and the failure flags (shared with C04.4, sort kernel only)
    from .c04 import ranking_of_successes

    for i in ranking_of_successes(ctx).instances:
        if f.name in i.construct or "failure flags for " + f.name in i.construct:
            i.rule = "C05.1"
            res.instances.append(i)
    res.floor = 6
    return res


class _RangeHooks(Hooks):
    def external_call(self, interp, text, args, kwargs, st, func, node):
        return [(st, TOP)]


@rule(P)
def c05_2(ctx: Ctx) -> RuleResult:
    res = RuleResult("C05.2", "ENUM", "the window validator accepts exactly 0 <= first <= last < n, and every first/last method is validated")
    filt = [c for c in ctx.repo.subclasses(FILT)]
    n_checked = 0
    for c in filt:
        chk = None
        for m in c.methods.values():
            src = ast.unparse(m.node)
            if ".first" in src and ".last" in src and any(isinstance(x, ast.Raise) for x in ast.walk(m.node)) and m.name not in ("__init__",):
                chk = m
        chk_args, chk_repo, chk_init = None, ctx.repo, None
        if chk is None:
            # the validator as a module-level function next to the class (`_check_range(options, n)`), its arguments given
            # by the constructor: the options model and the ensemble size
            # (read from the program as written: the procedure normal form merges such a validator into its callers)
            from .. import model as _model

            prev_ = _model.INLINE_PROCEDURES
            _model.INLINE_PROCEDURES = False
            try:
                repo2 = _model.Repo(ctx.repo.root)
            finally:
                _model.INLINE_PROCEDURES = prev_
            ctx2 = Ctx(repo2)
            c2 = repo2.classes.get(c.qualname)
            init0 = c2.methods.get("__init__") if c2 is not None else None
            for g in (repo2.funcs_in(c.module.name) if c2 is not None else []):
                if g.cls is None and g.outer is None and not isinstance(g.node, ast.Lambda):
                    src = ast.unparse(g.node)
                    if ".first" in src and ".last" in src and any(isinstance(x, ast.Raise) for x in ast.walk(g.node)):
                        calls0 = [x for x in ast.walk(init0.node) if isinstance(x, ast.Call) and isinstance(x.func, ast.Name) and x.func.id == g.name] if init0 is not None else []
                        if calls0:
                            roles = []
                            for a_ in calls0[0].args:
                                t_ = ctx2.X.at(init0, a_)
                                roles.append("n" if any(s_[0] == "attr" and s_[2] in ("size", "shape") for s_ in subterms(t_)) or (t_[0] == "call" and t_[1] == ("builtin", "len")) else "opt")
                            if len(roles) == len(g.positional) and roles.count("n") == 1 and roles.count("opt") == 1 and not calls0[0].keywords:
                                chk, chk_args, chk_repo, chk_init = g, roles, repo2, init0
        if chk is None:
            res.add(None, c.node, "a window validator exists", False, "no function validating first/last found", construct=f"{c.name}: validator",
                    where=f"{c.module.relpath}:{c.node.lineno}", fname=c.qualname)
            continue
        interp = Interp(chk_repo, _RangeHooks())
        wrong = []
        total = 0
        for n_, first, last in itertools.product(range(1, 5), range(0, 6), range(0, 6)):
            total += 1
            heap = {
                "self": {"_enopt_config": Obj("cfg", "")},
                "cfg": {"realizations": Obj("real", "")},
                "real": {"weights": Obj("w", "")},
                "w": {"size": n_},
                "opt": {"first": first, "last": last},
            }
            st = State(heap, {})
            if chk_args is None:
                outs = interp.call_func(chk, [Obj("self", ""), Obj("opt", "")], {}, st, 0)
            else:
                outs = interp.call_func(chk, [n_ if r_ == "n" else Obj("opt", "") for r_ in chk_args], {}, st, 0)
            accepted = len(outs) > 0
            expected = 0 <= first <= last < n_
            if accepted != expected:
                wrong.append((n_, first, last, accepted))
        n_checked += total
        ok = not wrong
        res.add(chk, chk.node, f"accepts iff 0 <= first <= last < n ({total} combinations covering every order type of first, last, n)", ok,
                "" if ok else f"(n, first, last, accepted) = {wrong[:4]}: windows outside the ensemble are accepted or valid ones rejected", construct=f"{c.name}.{chk.name}: order table")
        # called for every options model with first/last
        init = chk_init if chk_init is not None else c.methods.get("__init__")
        models = {k.name for k in ctx.repo.classes.values() if k.module is c.module and {"first", "last"} <= set(k.fields)}
        ctx_pc = Ctx(chk_repo) if chk_init is not None else ctx
        if init is not None:
            from ..util import bool_nnf, path_condition

            covered: dict[str, ast.AST] = {}
            chk_calls = [x for x in ast.walk(init.node) if isinstance(x, ast.Call) and (isinstance(x.func, ast.Attribute) and x.func.attr == chk.name
                                                                                        or chk_args is not None and isinstance(x.func, ast.Name) and x.func.id == chk.name)]
            for call_ in chk_calls:
                names = set()
                cur = parent(call_)
                in_case = False
                child_ = call_
                while cur is not None and cur is not init.node:
                    if isinstance(cur, ast.match_case):
                        in_case = True
                        names |= {x.id for x in ast.walk(cur) if isinstance(x, ast.Name) and x.id in models}
                    if isinstance(cur, ast.If):
                        # the branch of a method dispatch (a `match` in if / elif form): the options model built in the same branch
                        branch = cur.body if any(child_ is s_ or any(child_ is y for y in ast.walk(s_)) for s_ in cur.body) else cur.orelse
                        found_ = {x.id for s_ in branch if not isinstance(s_, ast.If) for x in ast.walk(s_) if isinstance(x, ast.Name) and x.id in models}
                        if found_:
                            in_case = True
                            names |= found_
                    child_ = cur
                    cur = parent(cur)
                st_ = call_
                while parent(st_) is not None and not isinstance(st_, ast.stmt):
                    st_ = parent(st_)
                pc = path_condition(ctx_pc, init, st_)
                if pc:
                    g_ = bool_nnf(("bool", "and", tuple(c_ if p_ else ("unary", "not", c_) for c_, p_ in pc)))
                    for it in (g_[1] if g_[0] == "and" else [g_]):
                        if it[0] == "lit" and it[2] and it[1][0] == "call" and it[1][1] == ("builtin", "isinstance") and len(it[1][2]) == 2:
                            names |= {s_[1].rsplit(".", 1)[-1] for s_ in subterms(it[1][2][1]) if s_[0] == "global" and s_[1].rsplit(".", 1)[-1] in models}
                if not names and not in_case and not pc:
                    names = set(models)  # unconditional validation
                for nm in names:
                    covered.setdefault(nm, call_)
            for nm in sorted(models):
                ok_ = nm in covered
                res.add(init, covered.get(nm, init.node), f"method using ['{nm}'] validates its window at construction", ok_,
                        "" if ok_ else "a first/last method is constructed without window validation", construct=f"{c.name}.__init__: validate ['{nm}']")
    res.exhaustive = True
    res.notes.append(f"{n_checked} (n, first, last) triples interpreted")
    res.floor = 3
    return res


@rule(P)
def c05_3(ctx: Ctx) -> RuleResult:
    r = c01_3(ctx)
    # the clauses about the matrices of per-function weights: the filter's result is stored, at the rows mapped to it,
    # the filter is consulted whenever a row is mapped to it, and rows written for earlier filters are kept
    r.instances = [i for i in r.instances if "rows of" in i.construct or "filter stores" in i.construct]
    for i in r.instances:
        i.rule = "C05.3"
    r.rule, r.title, r.floor = "C05.3", "each filter's weights are applied to exactly the objectives and constraints mapped to it", 2
    return r


@rule(P)
def c05_4(ctx: Ctx) -> RuleResult:
    r = c04_6(ctx)
    for i in r.instances:
        i.rule = "C05.4"
    r.rule, r.title = "C05.4", "a window without a positive weight ends with TOO_FEW_REALIZATIONS instead of producing a value"
    return r


@rule(P)
def c05_5(ctx: Ctx) -> RuleResult:
    res = RuleResult("C05.5", "COH", "the sort key of the objective flavours selects values and objective weights with one `sort` list")
    X = ctx.X
    for kern in (sort_kernel(ctx), cvar_kernel(ctx)):
        for g, c in ctx.cg.callers(kern):
            if any("constraint" in p for p in g.params):
                continue
            key = positional_args(kern, X.at(g, c))[0]
            subs = [s for s in subterms(key) if s[0] == "sub" and contains(s[2], lambda y: y[0] == "attr" and y[2] == "sort")]
            sorts = {s[2][1][-1] if s[2][0] == "tuple" else s[2] for s in subs}
            has_dot = contains(key, lambda s: s[0] == "call" and s[1] == ("global", "numpy.dot"))
            ok = len(sorts) == 1 and len(subs) >= 2 and has_dot
            res.add(g, c, "values[..., sort] . objective_weights[sort] with the same `sort`", ok,
                    "" if ok else "the weighted sort key mixes different index lists (or is not a weighted sum)", construct=f"{g.name}: sort key")
            # the weighted sum may be skipped only when a single objective is configured (its normalised weight is 1):
            # the condition of the dot product is about the number of configured weights, nothing else
            from ..util import bool_nnf, path_condition

            for dc in calls_in(g):
                dt = X.at(g, dc)
                if not (dt[0] == "call" and dt[1] == ("global", "numpy.dot") and contains(dt, lambda s: s[0] == "attr" and s[2] == "sort")):
                    continue
                st_ = dc
                while parent(st_) is not None and not isinstance(st_, ast.stmt):
                    st_ = parent(st_)
                bad = None
                for t_, pol in path_condition(ctx, g, st_):
                    g_ = bool_nnf(t_ if pol else ("unary", "not", t_))
                    for it in (g_[1] if g_[0] == "and" else [g_]):
                        atom = it[1] if it[0] == "lit" else it
                        about_weights = contains(atom, lambda s: s[0] == "attr" and s[2] in ("size", "shape") and contains(s, lambda y: y[0] == "attr" and y[2] == "weights"))
                        if not about_weights or contains(atom, lambda s: s[0] == "attr" and s[2] == "sort"):
                            bad = atom
                ok2 = bad is None
                res.add(g, dc, "the objective weights are applied to the ranked objectives unless only one objective is configured", ok2,
                        "" if ok2 else f"the weighted sum is taken only under `{show(bad, 70)}`: a single ranked objective of a multi-objective configuration loses its weight (and its sign)",
                        construct=f"{g.name}: weights applied")
    res.floor = 2
    return res


@rule(P)
def c05_6(ctx: Ctx) -> RuleResult:
    """Shared with C03.1: failure detection reads objective column 0 only, so a NaN anywhere in a
    realization's objectives or constraints has to be propagated to the whole row first."""
    from .c03 import c03_1

    r = c03_1(ctx)
    for i in r.instances:
        i.rule = "C05.6"
    r.rule, r.title = "C05.6", "the sort filter never ranks a failed realization: a NaN in any objective or constraint is propagated to the column its failure test reads"
    return r


@rule(P)
def c05_7(ctx: Ctx) -> RuleResult:
    """Shared with C16.3."""
    from .c16 import c16_3

    r = c16_3(ctx)
    r.instances = [i for i in r.instances if "realization_filter" in (i.where or "") or "realization_filter" in (i.func or "") or "realization_filter" in (i.construct or "")] or r.instances[:1]
    r.floor = 1
    for i in r.instances:
        i.rule = "C05.7"
    r.rule, r.title = "C05.7", "every evaluator gets filters built from its own configuration: the filter factory and plug-in objects keep no state between calls"
    return r
