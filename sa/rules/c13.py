"""C13 - constraint differences and violations are reported exactly for all bound kinds.

  C13.1 TERM  six differences, each `value - <bound of the same role>`
  C13.2 TERM  each violation == max(where(lower<0, -lower, 0), where(upper>0, upper, 0)); siblings agree
  C13.3 ENUM  bound differences are produced whenever any variable bound is finite
  C13.4 TABLE back-transformation pairs each family with its transform and recomputes violations
"""

from __future__ import annotations

import ast
import itertools

from ..core import META, Ctx, RuleResult, rule
from ..model import AnalysisError, Func, norm_stmt, parent
from ..pattern import C, G, V, add, call, match, mul, neg, norm
from ..terms import Term, alts, contains, ends_with_attrs, root_of, show, subterms
from ..util import calls_in, nodes_in

P = "C13"
CI = "ropt.results._constraint_info.ConstraintInfo"

META[P] = {
    "explanation": (
        "Reference terms for the six differences and the three violation blocks (sibling agreement modulo field names), abstract evaluation of the "
        "guard that produces the bound differences over the finiteness kinds {all finite, mixed, none finite} x {lower, upper}, and a table pairing "
        "each difference family with its back-transformation."
    ),
    "not_decided": ["floating point equality of the differences"],
}

FAMILIES = {
    "bound": ("variables", "variables"),
    "linear": ("linear_constraints", "linear"),
    "nonlinear": ("nonlinear_constraints", "nonlinear"),
}


def _create(ctx: Ctx) -> Func:
    c = ctx.repo.cls(CI)
    m = c.methods.get("create")
    if m is None:
        raise AnalysisError("ConstraintInfo.create not found")
    return m


def _dict_stores(ctx: Ctx, f: Func):
    """{key: (node, value term, function)} for `d["key"] = v` stores and `{"key": v}` literals in ``f``
    and in the private functions of its module that it calls (the builder may be split)."""
    out = {}
    region = [f] + [g for g in ctx.cg.reachable([f], include_nested_values=False) if g is not f and g.module is f.module and g.cls is None and g.name.startswith("_")]
    for g in region:
        for n in nodes_in(g, ast.Assign):
            for t in n.targets:
                if isinstance(t, ast.Subscript) and isinstance(t.slice, ast.Constant) and isinstance(t.slice.value, str):
                    out.setdefault(t.slice.value, (n, ctx.X.at(g, n.value), g))
        for d_ in nodes_in(g, ast.Dict):
            for k_, v_ in zip(d_.keys, d_.values):
                if isinstance(k_, ast.Constant) and isinstance(k_.value, str):
                    out.setdefault(k_.value, (v_, ctx.X.at(g, v_), g))
        # the fields handed to the constructor as keywords: `ConstraintInfo(bound_lower=bound_lower, ...)` with
        # locals that are None unless their family applies - the store is the non-None assignment of the local
        keys = {f"{fam}_{side}" for fam in FAMILIES for side in ("lower", "upper")}
        for c_ in calls_in(g):
            kws = {k.arg: k.value for k in c_.keywords if k.arg in keys}
            if len(kws) < 2:
                continue
            for k_, v_ in kws.items():
                if isinstance(v_, ast.Name):
                    r_ = _resolve_local(ctx, g, v_.id, None, 0)
                    if r_ is not None:
                        out.setdefault(k_, (r_[0], r_[1], g))
                else:
                    out.setdefault(k_, (v_, ctx.X.at(g, v_), g))
    return out


def _resolve_local(ctx: Ctx, g: Func, name: str, idx, depth: int):
    """(defining statement, value term) of a local that is None unless one computation sets it - through plain
    assignments, tuple packing/unpacking and `pair or (None, None)` defaults."""
    from ..terms import _project

    if depth > 4:
        return None
    cands = []
    for n in nodes_in(g, (ast.Assign, ast.AnnAssign)):
        if n.value is None:
            continue
        for t_ in (n.targets if isinstance(n, ast.Assign) else [n.target]):
            if isinstance(t_, ast.Name) and t_.id == name:
                cands.append((n, n.value, None))
            elif isinstance(t_, (ast.Tuple, ast.List)):
                for i, e in enumerate(t_.elts):
                    if isinstance(e, ast.Name) and e.id == name:
                        cands.append((n, n.value, i))

    def is_none(v):
        return (isinstance(v, ast.Constant) and v.value is None) or (isinstance(v, (ast.Tuple, ast.List)) and all(is_none(e) for e in v.elts))

    cands = [(n, v, i) for n, v, i in cands if not is_none(v)]
    if len(cands) != 1:
        return None
    n, v, i = cands[0]
    if isinstance(v, ast.BoolOp) and isinstance(v.op, ast.Or) and all(is_none(x) for x in v.values[1:]):
        v = v.values[0]  # `pair or (None, None)`
    path = [] if i is None else [i]
    if idx is not None:
        path.append(idx)
    # walk into tuple displays
    while path and isinstance(v, (ast.Tuple, ast.List)) and path[0] < len(v.elts):
        v = v.elts[path.pop(0)]
    if isinstance(v, ast.Name) and len(path) <= 1:
        r_ = _resolve_local(ctx, g, v.id, path[0] if path else None, depth + 1)
        if r_ is not None:
            return r_
    t = ctx.X.at(g, v)
    if path:
        t = _project(t, tuple(path))
    return n, t


def _anonp(t):
    """A term with parameters identified by name only (the same value seen from a helper)."""
    if not isinstance(t, tuple):
        return t
    if t and t[0] == "param" and len(t) == 3:
        return ("param", "*", t[2])
    return tuple(_anonp(x) for x in t)


def _opaque(ctx):
    from .c12 import _opaque as o12

    return o12(ctx)


META[P]["opaque"] = _opaque


@rule(P)
def c13_1(ctx: Ctx) -> RuleResult:
    res = RuleResult("C13.1", "TERM", "lower/upper difference == value - lower/upper bound of the same family")
    f = _create(ctx)
    X = ctx.X
    st = _dict_stores(ctx, f)
    vp = ("param", "*", "variables")
    cp = ("param", "*", "constraints")
    for fam, (cfgattr, _t) in FAMILIES.items():
        for side in ("lower", "upper"):
            key = f"{fam}_{side}"
            if key not in st:
                res.add(f, f.node, f"`{key}` is produced", False, "difference is never computed", construct=f"create: {key}")
                continue
            n, t, fw = st[key]
            nt = _anonp(norm(t))
            m = match(nt, add(V("val"), neg(V("bnd"))))
            ok = m is not None
            why = "" if ok else f"`{key}` is `{show(t, 80)}`, not value - bound"
            if ok:
                val, bnd = m["val"], m["bnd"]
                if not ends_with_attrs(bnd, cfgattr, f"{side}_bounds"):
                    # commutative '+': try swapped reading
                    m2 = match(nt, add(neg(V("bnd")), V("val")))
                    if m2 is not None and ends_with_attrs(m2["bnd"], cfgattr, f"{side}_bounds"):
                        val, bnd = m2["val"], m2["bnd"]
                if not ends_with_attrs(bnd, cfgattr, f"{side}_bounds"):
                    ok, why = False, f"`{key}` subtracts `{show(bnd, 60)}` instead of config.{cfgattr}.{side}_bounds (wrong side or wrong family)"
                else:
                    if fam == "bound":
                        vok = val == vp
                    elif fam == "linear":
                        vok = match(val, call("numpy.dot", V("A", lambda x: ends_with_attrs(x, "linear_constraints", "coefficients")), vp)) is not None
                    else:
                        vok = val == cp
                    if not vok:
                        ok, why = False, f"the value in `{key}` is `{show(val, 60)}`"
            res.add(f, n, f"{key} == {'variables' if fam == 'bound' else ('A . variables' if fam == 'linear' else 'constraints')} - {cfgattr}.{side}_bounds", ok, why, construct=f"create: {key}")
    res.floor = 6
    return res


@rule(P)
def c13_2(ctx: Ctx) -> RuleResult:
    res = RuleResult("C13.2", "TERM", "violation == max(lower - value, value - upper, 0) written as max(where(lower_diff<0, -lower_diff, 0), where(upper_diff>0, upper_diff, 0))")
    c = ctx.repo.cls(CI)
    pi = c.methods.get("__post_init__")
    if pi is None:
        raise AnalysisError("ConstraintInfo.__post_init__ not found")
    X = ctx.X
    selfp = ("param", pi.qualname, pi.positional[0])
    ic = "ropt.results._utils._immutable_copy"
    for fam in FAMILIES:
        key = f"{fam}_violation"
        stores = [n for n in nodes_in(pi, ast.Assign) if any(isinstance(t, ast.Attribute) and t.attr == key for t in n.targets)]
        if not stores:
            res.add(pi, pi.node, f"`{key}` is computed", False, "violation never computed", construct=f"{key}")
            continue
        n = stores[0]
        t = norm(X.value_at(pi, n.value))
        # strip the immutable copy wrapper
        if t[0] == "call" and t[1][0] == "global" and t[1][1] == ic:
            t = t[2][0]
        L, U = V("L"), V("U")
        ref = call("numpy.maximum", call("numpy.where", ("cmp", "<", L, C(0.0)), neg(L), C(0.0)), call("numpy.where", ("cmp", "<", C(0.0), U), U, C(0.0)))
        m = match(t, ref)
        if m is None:
            # equivalent spelling: maximum(maximum(-L, U), 0)
            alt = call("numpy.maximum", call("numpy.maximum", neg(L), U), C(0))
            m = match(t, alt)
        ok = m is not None
        why = "" if ok else f"`{key}` is `{show(t, 140)}`"
        if ok:
            lname = _field_of(m["L"], selfp)
            uname = _field_of(m["U"], selfp)
            if lname != f"{fam}_lower" or uname != f"{fam}_upper":
                ok, why = False, f"`{key}` is computed from `{lname}` / `{uname}` (swapped sides or wrong family)"
        res.add(pi, n, f"{key} == max(-{fam}_lower where negative, {fam}_upper where positive, 0)", ok, why, construct=f"{key}")
        # guard: both diffs present
        from ..util import bool_nnf, path_condition

        lits = []
        for t_, pol in path_condition(ctx, pi, n):
            gq = bool_nnf(t_ if pol else ("unary", "not", t_))
            lits.extend(gq[1] if gq[0] == "and" else [gq])
        present, extra = set(), []
        for it in lits:
            a = it[1] if it[0] == "lit" else None
            fld = None
            if a is not None and a[0] == "cmp" and a[1] in ("is", "is not") and C(None) in (a[2], a[3]) and (it[2] == (a[1] == "is not")):
                fld = _field_of(a[3] if a[2] == C(None) else a[2], selfp)
            if fld in (f"{fam}_lower", f"{fam}_upper"):
                present.add(fld)
            else:
                extra.append(it)
        ok = len(present) == 2 and not extra
        why = ""
        if len(present) < 2:
            why = "the computation is not guarded by the presence of both differences of this family"
        elif extra:
            why = (f"computed only under the extra condition `{show(extra[0][1], 70) if extra[0][0] == 'lit' else extra[0][0]}`: a violation handed in "
                   "(e.g. by a domain transform that rebuilds the object from its fields) is kept instead of being derived from the differences")
        res.add(pi, n, f"{key} is computed whenever, and only depending on whether, both differences exist", ok, why, construct=f"{key}: guard")
    res.floor = 6
    return res


def _field_of(t: Term, selfp) -> str | None:
    # the stored (immutable copy of) self.<field>
    for s in subterms(t):
        if s[0] == "attr" and s[1] == selfp:
            return s[2]
    return None


# --------------------------------------------------------------------- C13.3
def eval_finiteness(t: Term, kinds: dict) -> bool | None:
    """Evaluate a guard over finiteness kinds: kinds maps 'lower'/'upper' ->
    'all' | 'mixed' | 'none'."""
    n = norm(t)
    k = n[0]
    if k == "bool":
        vals = [eval_finiteness(x, kinds) for x in n[2]]
        if None in vals:
            return None
        return all(vals) if n[1] == "and" else any(vals)
    if k == "unary" and n[1] == "not":
        v = eval_finiteness(n[2], kinds)
        return None if v is None else not v
    if k == "binop" and n[1] in ("|", "&"):
        a, b = eval_finiteness(n[2], kinds), eval_finiteness(n[3], kinds)
        if None in (a, b):
            return None
        return (a or b) if n[1] == "|" else (a and b)
    if k == "call":
        fn = n[1]
        if fn[0] == "builtin" and fn[1] == "bool" and n[2]:
            return eval_finiteness(n[2][0], kinds)
        if fn in (G("numpy.all"), G("numpy.any")) and n[2] and n[2][0][0] == "binop" and n[2][0][1] in ("&", "|"):
            # element-wise combination of two finiteness masks: whether some index has
            # both (or either) finite depends on how the finite entries line up
            a, b = n[2][0][2], n[2][0][3]

            def kind_of(x):
                neg_ = False
                if x[0] == "unary" and x[1] == "~":
                    x, neg_ = x[2], True
                if x[0] == "call" and x[1] in (G("numpy.isfinite"), G("numpy.isinf")) and x[2]:
                    which = "lower" if ends_with_attrs(x[2][0], "lower_bounds") else ("upper" if ends_with_attrs(x[2][0], "upper_bounds") else None)
                    if which is None:
                        return None
                    k_ = kinds[which]
                    fin = (x[1] == G("numpy.isfinite")) != neg_
                    if not fin:
                        k_ = {"all": "none", "none": "all", "mixed": "mixed"}[k_]
                    return k_
                return None

            ka, kb = kind_of(a), kind_of(b)
            if ka is None or kb is None:
                return None
            if fn == G("numpy.any") and n[2][0][1] == "|":
                return ka != "none" or kb != "none"
            if fn == G("numpy.any") and n[2][0][1] == "&":
                # guaranteed only when one side is all-true and the other has a true entry
                return (ka == "all" and kb != "none") or (kb == "all" and ka != "none")
            if fn == G("numpy.all") and n[2][0][1] == "&":
                return ka == "all" and kb == "all"
            if fn == G("numpy.all") and n[2][0][1] == "|":
                return ka == "all" or kb == "all"
        if fn in (G("numpy.all"), G("numpy.any")) and n[2]:
            inner = n[2][0]
            neg_ = False
            if inner[0] == "unary" and inner[1] == "~":
                inner, neg_ = inner[2], True
            if inner[0] == "call" and inner[1] in (G("numpy.isfinite"), G("numpy.isinf")) and inner[2]:
                which = "lower" if ends_with_attrs(inner[2][0], "lower_bounds") else ("upper" if ends_with_attrs(inner[2][0], "upper_bounds") else None)
                if which is None:
                    return None
                kind = kinds[which]
                finite_pred = (inner[1] == G("numpy.isfinite")) != neg_
                # 'all finite' / 'any finite' / 'all infinite' / 'any infinite'
                if fn == G("numpy.all"):
                    return kind == "all" if finite_pred else kind == "none"
                return kind != "none" if finite_pred else kind != "all"
        return None
    if k == "const":
        return bool(n[1])
    return None


@rule(P)
def c13_3(ctx: Ctx) -> RuleResult:
    res = RuleResult("C13.3", "ENUM", "variable-bound differences are produced whenever any lower or upper bound is finite")
    f = _create(ctx)
    X = ctx.X
    st = _dict_stores(ctx, f)
    if "bound_lower" not in st:
        raise AnalysisError("bound differences are not produced at all")
    n, _t, fw = st["bound_lower"]
    from ..util import path_condition

    st_ = n
    while parent(st_) is not None and not isinstance(st_, ast.stmt):
        st_ = parent(st_)
    parts = [(c_, p_) for c_, p_ in path_condition(ctx, fw, st_)
             if contains(c_, lambda s_: s_[0] == "call" and s_[1][0] == "global" and s_[1][1] in ("numpy.isfinite", "numpy.isinf", "numpy.isneginf", "numpy.isposinf"))]
    if not parts:
        res.add(fw, n, "bound differences are produced unconditionally", True, construct="create: bound diff guard")
        res.exhaustive = True
        return res
    t = ("bool", "and", tuple(c_ if p_ else ("unary", "not", c_) for c_, p_ in parts))
    bad = []
    undecided = False
    for lo, up in itertools.product(("all", "mixed", "none"), repeat=2):
        v = eval_finiteness(t, {"lower": lo, "upper": up})
        if v is None:
            undecided = True
            break
        want = not (lo == "none" and up == "none")
        # producing differences for all-infinite bounds is harmless (no violation possible)
        if want and not v:
            bad.append((lo, up))
    if undecided:
        raise AnalysisError(f"cannot evaluate the bound-difference guard `{show(t, 80)}` over finiteness kinds")
    ok = not bad
    res.add(fw, n, "guard is true for every (lower, upper) finiteness kind with at least one finite bound (9 kinds)", ok,
            "" if ok else f"no bound information is produced when (lower, upper) bounds are {bad}: a value outside a finite bound reports no violation",
            construct="create: bound diff guard")
    # sibling agreement: the optimizer plug-in uses "any finite" for the same decision
    res.exhaustive = True
    return res


# --------------------------------------------------------------------- C13.4
@rule(P)
def c13_4(ctx: Ctx) -> RuleResult:
    res = RuleResult("C13.4", "TABLE", "transform_from_optimizer maps each difference family with its own transform method and recomputes the violations")
    c = ctx.repo.cls(CI)
    m = c.methods.get("transform_from_optimizer")
    if m is None:
        raise AnalysisError("ConstraintInfo.transform_from_optimizer not found")
    X = ctx.X
    table = {
        "bound": ("variables", "bound_constraint_diffs_from_optimizer"),
        "linear": ("variables", "linear_constraints_diffs_from_optimizer"),
        "nonlinear": ("nonlinear_constraints", "nonlinear_constraint_diffs_from_optimizer"),
    }
    from ..terms import _project

    # every store `d["<family>_<side>"] = value` (directly or through a tuple target), as (key, node, value term)
    kstores: dict[str, list] = {}
    for n in nodes_in(m, ast.Assign):
        for tg in n.targets:
            if isinstance(tg, ast.Subscript) and isinstance(tg.slice, ast.Constant) and isinstance(tg.slice.value, str):
                kstores.setdefault(tg.slice.value, []).append((n, X.value_at(m, n.value)))
            elif isinstance(tg, ast.Tuple):
                vt = X.at(m, n.value)
                for i, e in enumerate(tg.elts):
                    if isinstance(e, ast.Subscript) and isinstance(e.slice, ast.Constant) and isinstance(e.slice.value, str):
                        kstores.setdefault(e.slice.value, []).append((n, _project(vt, (i,))))
    # ... or out-of-place: `diffs = diffs | {"<family>_lower": lower, "<family>_upper": upper}`
    from ..util import stmt_of

    for d_ in nodes_in(m, ast.Dict):
        for k_, v_ in zip(d_.keys, d_.values):
            if isinstance(k_, ast.Constant) and isinstance(k_.value, str):
                kstores.setdefault(k_.value, []).append((stmt_of(d_), X.value_at(m, v_)))
    for fam, (tr, meth) in table.items():
        sides = []
        for i, side in enumerate(("lower", "upper")):
            sts = kstores.get(f"{fam}_{side}", [])
            if not sts:
                sides.append(None)
                continue
            node_, t = sts[0]
            # component i of transforms.<tr>.<meth>(self.<fam>_lower, self.<fam>_upper)
            okc = t[0] == "item" and t[2] == i and t[1][0] == "call" and t[1][1][0] == "attr" and t[1][1][2] == meth and ends_with_attrs(t[1][1][1], tr)
            args_ok = okc and [a[2] if a[0] == "attr" else None for a in t[1][2]] == [f"{fam}_lower", f"{fam}_upper"]
            sides.append((node_, t, okc and args_ok and len(sts) == 1))
        if None in sides:
            res.add(m, m.node, f"{fam} differences are back-transformed into (lower, upper) in that order", False, "no store of the pair", construct=f"transform: {fam}")
            continue
        ok = all(sd[2] for sd in sides)
        bad = next((sd for sd in sides if not sd[2]), None)
        res.add(m, sides[0][0], f"{fam} differences use transforms.{tr}.{meth}(lower, upper), component 0 stored as lower and 1 as upper", ok,
                "" if ok else f"`{show(bad[1], 100)}`: wrong transform, or lower/upper swapped", construct=f"transform: {fam}")
        # the differences of a family are absent (None) when it was not computed - a failing evaluation has no
        # non-linear differences - so each back-transform runs only where its own differences exist (sibling agreement)
        from ..util import bool_nnf, path_condition

        present = False
        for t_, pol in path_condition(ctx, m, sides[0][0]):
            g_ = bool_nnf(t_ if pol else ("unary", "not", t_))
            for it in (g_[1] if g_[0] == "and" else [g_]):
                if it[0] != "lit":
                    continue
                a_ = it[1]
                if a_[0] == "cmp" and a_[1] in ("is", "is not") and C(None) in (a_[2], a_[3]) and (it[2] == (a_[1] == "is not")):
                    o_ = a_[3] if a_[2] == C(None) else a_[2]
                    if o_[0] == "attr" and o_[2] in (f"{fam}_lower", f"{fam}_upper") and o_[1][0] == "param":
                        present = True
        res.add(m, sides[0][0], f"the {fam} differences are back-transformed only where they exist (`self.{fam}_lower is not None`)", present,
                "" if present else f"the {fam} back-transform runs whenever the transform is configured: for a result without {fam} differences (a failing evaluation) an assertion fails / None is transformed - an internal exception instead of the failing result being delivered",
                construct=f"transform: {fam} differences present")
    rets = [r for r in nodes_in(m, ast.Return) if r.value is not None]
    ok = any(isinstance(r.value, ast.Call) and ast.unparse(r.value.func) in (c.name, "cls") for r in rets)
    res.add(m, m.node, "a new ConstraintInfo is constructed from the differences, so __post_init__ recomputes the violations in the user domain", ok,
            "" if ok else "violations are not recomputed after the back-transformation", construct="transform: recompute violations")
    # violations are not copied over as differences: asdict includes them -> the constructor must recompute (fields default None, post_init overwrites)
    # ... which it does only if __post_init__ derives every violation field from the difference fields of its family (or the
    # transform stores a recomputed value under the violation key itself)
    from .c18 import field_stores

    pstores = {}
    for pm, _n, fld, v, _h in field_stores(ctx, c):
        if pm.name == "__post_init__":
            pstores.setdefault(fld, []).append(v)
    for fam in table:
        vf = f"{fam}_violation"
        if vf not in c.fields:
            continue
        from_diffs = any(contains(v, lambda s_, fam=fam: s_[0] == "attr" and s_[2] in (f"{fam}_lower", f"{fam}_upper")) for v in pstores.get(vf, []))
        in_transform = any(contains(t_, lambda s_: s_[0] == "call") for _n, t_ in kstores.get(vf, []))
        ok = from_diffs or in_transform
        res.add(m, m.node, f"`{vf}` of the back-transformed object is recomputed from the back-transformed {fam} differences", ok,
                "" if ok else f"neither __post_init__ nor transform_from_optimizer computes `{vf}` from the {fam} differences: the object built from the back-transformed "
                "differences keeps the violation of the optimizer domain", construct=f"transform: {vf} recomputed")
    res.floor = 4
    return res


# --------------------------------------------------------------------- C13.5
@rule(P)
def c13_5(ctx: Ctx) -> RuleResult:
    """A result is feasible iff every violation is within the tolerance (shared with C12.3)."""
    from .c12 import c12_3

    r = c12_3(ctx)
    for i in r.instances:
        i.rule = "C13.5"
    r.rule, r.title = "C13.5", "a result is treated as feasible iff every reported violation is within the tolerance"
    return r


@rule(P)
def c13_6(ctx: Ctx) -> RuleResult:
    """Shared with C11.2: the differences reported in the user domain are the optimizer-domain differences
    mapped back by the scaler's companion maps (scales on bound differences, row scaling on linear ones)."""
    from .c11 import c11_2

    from .c11 import c11_4

    r = c11_2(ctx)
    r.instances = [i for i in r.instances if "diffs" in i.construct]
    # ... and the result object hands its constraint information to that mapping on every return
    r.instances += [i for i in c11_4(ctx).instances if "delegates constraint_info" in i.construct]
    for i in r.instances:
        i.rule = "C13.6"
    r.rule, r.title, r.floor = "C13.6", "user-domain differences: bound differences * scales, linear differences * row scaling, each under the test of the field it applies; results delegate their constraint information", 3
    return r


@rule(P)
def c13_7(ctx: Ctx) -> RuleResult:
    """Shared with C11.2."""
    from .c11 import c11_2

    r = c11_2(ctx)
    for i in r.instances:
        i.rule = "C13.7"
    r.rule, r.title = "C13.7", "linear differences reported in the user domain: the scaler's back-map of the differences undoes exactly the row normalisation and scaling its forward map applied"
    return r


@rule(P)
def c13_8(ctx: Ctx) -> RuleResult:
    """Sibling agreement: every FunctionResults the ensemble evaluator builds carries ConstraintInfo.create(config,
    variables, constraints-or-None) - bound and linear differences depend on the variables only, so they are reported
    for failed evaluations (functions is None) as well."""
    from ..util import guard_leaves

    res = RuleResult("C13.8", "COH", "every FunctionResults built by the ensemble evaluator carries constraint differences (also when the evaluation failed)")
    X = ctx.X
    sites = []
    for f in ctx.repo.all_funcs():
        if not f.module.name.startswith("ropt.ensemble_evaluator"):
            continue
        for c in calls_in(f):
            if isinstance(c.func, ast.Name) and c.func.id == "FunctionResults" or isinstance(c.func, ast.Attribute) and c.func.attr == "FunctionResults":
                sites.append((f, c))
    if not sites:
        raise AnalysisError("no FunctionResults construction found in the ensemble evaluator")
    for f, c in sites:
        kw = next((k.value for k in c.keywords if k.arg == "constraint_info"), None)
        if kw is None:
            res.add(f, c, "FunctionResults is given a constraint_info", False, "no constraint_info argument: no differences or violations are reported", construct=f"{f.name}: FunctionResults constraint_info")
            continue
        t = X.force_inline(X.value_at(f, kw), f)
        leaves = list(guard_leaves(t, strip_wrappers=False))
        bad = [(cs, l) for cs, l in leaves if not (l[0] == "call" and l[1][0] == "attr" and l[1][2] == "create")
               and not (l[0] == "call" and l[1][0] == "global" and l[1][1].endswith("ConstraintInfo.create"))]
        ok = not bad
        res.add(f, c, "constraint_info is ConstraintInfo.create(...) on every path", ok,
                "" if ok else f"under `{show(bad[0][0][0][0], 50) if bad[0][0] else 'some path'}` the result carries `{show(bad[0][1], 40)}` instead: a failed evaluation reports no bound / linear "
                "differences although they depend only on the variables (its sibling site does report them)",
                construct=f"{f.name}: FunctionResults constraint_info")
    res.floor = 2
    return res
