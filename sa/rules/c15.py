"""C15 - event streams are well formed and aborts latch the plan.

  C15.1 DOM  bracketing: START first, FINISHED last, evaluation signals around calculate
  C15.2 DOM  Plan.emit_event: own handlers once each, then exactly one of observers / parent
  C15.3 WHO  abort latch: only __init__/abort write it, run_step tests it, steps latch on USER_ABORT
  C15.4 EXC  every emit in a step's run is inside a region converting OptimizationAborted
"""

from __future__ import annotations

import ast

from ..cfg import cfg_of
from ..core import META, Ctx, RuleResult, rule
from ..dataflow import dataflow_of
from ..model import AnalysisError, Func, norm_stmt, parent
from ..paths import PathFinder, describe_path
from ..terms import contains, show, subterms
from ..util import calls_in, nodes_in
from .c14 import ABORT, ExcFlow, abort_edges_only, calls_reaching, ensemble_calculate, optimizer_callbacks, step_run_methods

P = "C15"
PLAN = "ropt.plan._plan.Plan"

META[P] = {
    "explanation": (
        "Dominance / must-pass-through rules on the CFGs of the step run methods, Plan.emit_event, Plan.run_step and the evaluation driver; "
        "a who-may-write rule for the abort latch; and interprocedural exception flow of an abort raised by an observer or handler at each emit site."
    ),
    "not_decided": ["interleavings of several raising handlers", "the order of events across different steps of user-written plans"],
}


def emit_event_fn(ctx: Ctx) -> Func:
    return ctx.repo.func(f"{PLAN}.emit_event")


def event_types_in(ctx: Ctx, f: Func, node: ast.AST) -> set[str]:
    t = ctx.X.at(f, node)
    out = set()
    for s in ctx.X.closure(t):
        if s[0] == "global" and s[1].startswith("ropt.enums.EventType."):
            out.add(s[1].rsplit(".", 1)[1])
    return out


def emit_sites(ctx: Ctx, f: Func) -> list[tuple[ast.Call, set[str]]]:
    """Calls in f that reach Plan.emit_event within two wrapper levels."""
    target = emit_event_fn(ctx)
    out = []
    for call, cs, _k in ctx.cg.all_callees(f):
        hit = False
        for g in cs:
            if g is target:
                hit = True
            elif g.name == "emit_event" and any(target in cs2 for _c, cs2, _k2 in ctx.cg.all_callees(g)):
                hit = True
        if hit:
            out.append((call, event_types_in(ctx, f, call)))
    return sorted(out, key=lambda p: p[0].lineno)


def work_calls(ctx: Ctx, f: Func) -> list[ast.Call]:
    """Calls in f that (transitively) run evaluations."""
    calc = ensemble_calculate(ctx)
    return calls_reaching(ctx, f, calc, depth=12)


# --------------------------------------------------------------------- C15.1
@rule(P)
def c15_1(ctx: Ctx) -> RuleResult:
    res = RuleResult("C15.1", "DOM", "START event first, FINISHED event last, evaluations bracketed by their two signals")
    for run in step_run_methods(ctx):
        cfg = cfg_of(ctx.repo, run)
        pf = PathFinder(cfg, dataflow_of(ctx.repo, run))
        sites = emit_sites(ctx, run)
        starts = [(c, t) for c, t in sites if any(x.startswith("START_") and x.endswith("_STEP") for x in t)]
        fins = [(c, t) for c, t in sites if any(x.startswith("FINISHED_") and x.endswith("_STEP") for x in t)]
        cname = run.cls.name if run.cls else run.name
        if not starts or not fins:
            res.add(run, run.node, "the step emits its START_*_STEP and FINISHED_*_STEP events", False,
                    f"{cname}.run emits {'no START' if not starts else 'no FINISHED'} step event", construct=f"{cname}: step events present")
            continue
        start_nodes = {n for c, _ in starts for n in cfg.node_containing(c)}
        fin_nodes = {n for c, _ in fins for n in cfg.node_containing(c)}
        others = [c for c, t in sites if (c, t) not in starts]
        work = work_calls(ctx, run)
        aeo0 = abort_edges_only(ctx, run)
        for c in others + [w for w in work if w not in others]:
            ok, wit = True, []
            for n in cfg.node_containing(c):
                # exceptional edges only where an abort can actually be raised (building an Event object cannot)
                path = pf.find_path(cfg.entry, lambda m, n=n: m is n, blocked=lambda m: m in start_nodes, edge_ok=aeo0)
                if path is not None:
                    ok, wit = False, describe_path(run, path)
            res.add(run, c, "the step's START event is emitted before this emit / evaluation on every path", ok,
                    "" if ok else "an event or evaluation can precede the step's START event", wit,
                    construct=f"{cname}: START before {norm_stmt(c)[:70]}")
        # FINISHED on every normal path from START
        ok, wit = True, []
        aeo = abort_edges_only(ctx, run)
        for sn in start_nodes:
            path = pf.find_path(sn, lambda m: m is cfg.exit, blocked=lambda m: m in fin_nodes, edge_ok=aeo)
            if path is not None:
                ok, wit = False, describe_path(run, path)
        res.add(run, fins[0][0], "every normal return after START passes the FINISHED step event", ok,
                "" if ok else "the step can return without emitting its FINISHED event", wit, construct=f"{cname}: FINISHED on every normal path")
        # FINISHED is last: no emit / work reachable after it
        after = cfg.reachable_from(list(fin_nodes)) - fin_nodes
        late = [c for c, _t in sites if any(n in after for n in cfg.node_containing(c)) and not any(n in fin_nodes for n in cfg.node_containing(c))]
        late += [w for w in work if any(n in after for n in cfg.node_containing(w))]
        res.add(run, fins[0][0], "no event or evaluation follows the FINISHED step event", not late,
                "" if not late else f"`{norm_stmt(late[0])[:80]}` can happen after the FINISHED event", construct=f"{cname}: FINISHED is last")
        # evaluator-style steps that evaluate directly: START_EVALUATION before, FINISHED_EVALUATION after
        calc = ensemble_calculate(ctx)
        direct = [c for c, cs, _k in ctx.cg.all_callees(run) if calc in cs]
        if direct:
            se = {n for c, t in sites if "START_EVALUATION" in t for n in cfg.node_containing(c)}
            fe = {n for c, t in sites if "FINISHED_EVALUATION" in t for n in cfg.node_containing(c)}
            for c in direct:
                for n in cfg.node_containing(c):
                    p1 = pf.find_path(cfg.entry, lambda m, n=n: m is n, blocked=lambda m: m in se)
                    res.add(run, c, "START_EVALUATION is emitted before the evaluation on every path", p1 is None,
                            "" if p1 is None else "evaluation without a preceding START_EVALUATION", [] if p1 is None else describe_path(run, p1),
                            construct=f"{cname}: START_EVALUATION before calculate")
                    p2 = pf.find_path(n, lambda m: m is cfg.exit, blocked=lambda m: m in fe,
                                      edge_ok=lambda a, b, lab, n=n: not (a is n and lab == "exc") and aeo(a, b, lab))
                    res.add(run, c, "FINISHED_EVALUATION is emitted after the evaluation on every normal path", p2 is None,
                            "" if p2 is None else "a started evaluation may never be reported as finished", [] if p2 is None else describe_path(run, p2),
                            construct=f"{cname}: FINISHED_EVALUATION after calculate")
    # the optimization driver: signal() before calculate, signal(results) after
    calc = ensemble_calculate(ctx)
    for cb in optimizer_callbacks(ctx):
        for g in [cb] + [x for _c, cs, _k in ctx.cg.all_callees(cb) for x in cs]:
            direct = [c for c, cs, _k in ctx.cg.all_callees(g) if calc in cs]
            if not direct:
                continue
            cfg = cfg_of(ctx.repo, g)
            pf = PathFinder(cfg, dataflow_of(ctx.repo, g))
            sig_start, sig_done, tests = set(), set(), set()
            for call in calls_in(g):
                t = ctx.X.at(g, call)
                if t[0] != "call" or t[1][0] not in ("attr", "param", "phi"):
                    continue
                fnames = show(t[1])
                if "signal" not in fnames:
                    continue
                (sig_done if (t[2] or t[3]) else sig_start).update(cfg.node_containing(call))
                cur = parent(call)
                while cur is not None and cur is not g.node:
                    if isinstance(cur, ast.If) and ast.unparse(cur.test) == ast.unparse(call.func):
                        tests.update(cfg.node_containing(cur.test))
                    cur = parent(cur)
            skip_false = lambda a, b, lab: not (a in tests and lab == "false")  # noqa: E731
            for c in direct:
                for n in cfg.node_containing(c):
                    p1 = pf.find_path(cfg.entry, lambda m, n=n: m is n, blocked=lambda m: m in sig_start, edge_ok=skip_false)
                    res.add(g, c, "the start-of-evaluation signal precedes the evaluation on every path", p1 is None,
                            "" if p1 is None else "evaluation without START_EVALUATION", [] if p1 is None else describe_path(g, p1),
                            construct=f"{g.name}: signal() before calculate")
                    # leaving through a `raise` statement of the driver itself (e.g. TOO_FEW_REALIZATIONS) is a designed exit as well
                    p2 = pf.find_path(n, lambda m: m is cfg.exit or (m.kind == "stmt" and isinstance(m.ast, ast.Raise)), blocked=lambda m: m in sig_done,
                                      edge_ok=lambda a, b, lab, n=n: skip_false(a, b, lab) and not (a is n and lab == "exc"))
                    res.add(g, c, "the results signal follows the evaluation on every normal path and before every raise of the driver", p2 is None,
                            "" if p2 is None else "evaluation results may never be signalled", [] if p2 is None else describe_path(g, p2),
                            construct=f"{g.name}: signal(results) after calculate")
    # the signal function (the callable a step hands to the optimizer as `signal_evaluation=`) maps
    # None -> START_EVALUATION, results -> FINISHED_EVALUATION
    from ..util import bool_nnf, path_condition

    signal_funcs = []
    for run in step_run_methods(ctx):
        for call_ in calls_in(run):
            for kw in call_.keywords:
                if kw.arg and "signal" in kw.arg:
                    for g in ctx.cg.resolve_fn(ctx.X.at(run, kw.value), run):
                        if g not in signal_funcs:
                            signal_funcs.append(g)
    for m in signal_funcs:
        c = m.cls
        rp = ("param", m.qualname, m.positional[1]) if len(m.positional) > 1 else None
        for call, types in emit_sites(ctx, m):
            if not types & {"START_EVALUATION", "FINISHED_EVALUATION"}:
                continue
            st_ = call
            while parent(st_) is not None and not isinstance(st_, ast.stmt):
                st_ = parent(st_)
            pol = None
            pc = path_condition(ctx, m, st_)
            if pc:
                g_ = bool_nnf(("bool", "and", tuple(c_ if p_ else ("unary", "not", c_) for c_, p_ in pc)))
                for it in (g_[1] if g_[0] == "and" else [g_]):
                    if it[0] == "lit" and it[1][0] == "cmp" and it[1][1] == "is" and it[1][3] == ("const", None) and (rp is None or it[1][2] == rp):
                        pol = it[2]
            want = "START_EVALUATION" in types
            ok = pol is not None and pol == want and len(types & {"START_EVALUATION", "FINISHED_EVALUATION"}) == 1
            both = {"START_EVALUATION", "FINISHED_EVALUATION"} <= types
            if both and call.args:
                # one emit statement for an event object built in the two branches: decide per alternative of the value
                from ..util import gated_values

                alts_ = gated_values(ctx, m, call.args[0])
                ok = len(alts_) >= 2
                for conds, leaf in alts_:
                    lt = {s_[1].rsplit(".", 1)[1] for s_ in ctx.X.closure(leaf) if s_[0] == "global" and s_[1].startswith("ropt.enums.EventType.")} & {"START_EVALUATION", "FINISHED_EVALUATION"}
                    lp = None
                    for a_, p_ in conds:
                        if a_[0] == "cmp" and a_[1] == "is" and a_[3] == ("const", None) and (rp is None or a_[2] == rp):
                            lp = p_
                    ok = ok and len(lt) == 1 and lp is not None and lp == ("START_EVALUATION" in lt)
            res.add(m, call, "START_EVALUATION is emitted iff no results are passed, FINISHED_EVALUATION iff results are passed", ok,
                    "" if ok else "the evaluation signal emits the wrong event type for this branch", construct=f"{c.name if c else ''}.{m.name}: {sorted(types)}")
    res.floor = 10
    return res


def _stored_attr(ctx: Ctx, m: Func | None) -> str | None:
    """The attribute of self a registration method stores into (`self.X[key] = v`, `self.X[key].append(v)`, ...)."""
    if m is None or not m.positional:
        return None
    selfn = m.positional[0]
    for n in ast.walk(m.node):
        base = None
        if isinstance(n, ast.Assign):
            for t in n.targets:
                if isinstance(t, ast.Subscript):
                    base = t.value
        elif isinstance(n, ast.Call) and isinstance(n.func, ast.Attribute) and n.func.attr in ("append", "add", "setdefault", "update", "insert"):
            base = n.func.value
        while isinstance(base, ast.Subscript):
            base = base.value
        if isinstance(base, ast.Attribute) and isinstance(base.value, ast.Name) and base.value.id == selfn:
            return base.attr
    return None


# --------------------------------------------------------------------- C15.2
@rule(P)
def c15_2(ctx: Ctx) -> RuleResult:
    res = RuleResult("C15.2", "DOM", "Plan.emit_event delivers to each own handler once, then to exactly one of observers / parent")
    f = emit_event_fn(ctx)
    cfg = cfg_of(ctx.repo, f)
    pf = PathFinder(cfg, dataflow_of(ctx.repo, f))
    X = ctx.X
    handler_calls, observer_calls, parent_calls = [], [], []
    for call in calls_in(f):
        t = X.at(f, call)
        if t[0] != "call" or t[1][0] != "attr":
            continue
        name = t[1][2]
        if name == "handle_event":
            handler_calls.append(call)
        elif name == "call_observers":
            observer_calls.append(call)
        elif name == "emit_event":
            parent_calls.append(call)
    if len(handler_calls) != 1 or len(observer_calls) != 1 or len(parent_calls) != 1:
        res.add(f, f.node, "emit_event has one handler loop, one observer call and one parent call", False,
                f"found {len(handler_calls)} handle_event, {len(observer_calls)} call_observers, {len(parent_calls)} parent emit calls",
                construct="emit_event shape")
        return res
    hc, oc, pc = handler_calls[0], observer_calls[0], parent_calls[0]
    ev = f.positional[1] if len(f.positional) > 1 else "event"
    # (a) handler loop iterates the handler registry, each handler gets the event
    loop = parent(parent(hc))
    ht = X.at(f, hc)
    # the registry of handlers: the attribute add_handler stores into
    hattr = _stored_attr(ctx, ctx.repo.cls(PLAN).methods.get("add_handler"))
    ok = (isinstance(loop, ast.For) and ht[1][1][0] == "iter" and hattr is not None
          and contains(ht[1][1], lambda s_: s_[0] == "attr" and s_[2] == hattr and s_[1][0] == "param") and ht[2] == (("param", f.qualname, ev),))
    res.add(f, hc, "every registered handler of this plan receives the event exactly once (one call inside one loop over the registry)", ok,
            "" if ok else f"handler delivery is `{show(ht, 100)}`", construct="emit_event: handlers loop")
    # ... the registry as it is now: a copy made in this call is fine, a snapshot kept on the plan between events is not
    # (handlers added after the first event would never be served)
    if ok:
        selfp = ("param", f.qualname, f.positional[0])
        stale = sorted({s_[2] for s_ in subterms(ht[1][1]) if s_[0] == "attr" and s_[1] == selfp and s_[2] != hattr})
        ok2 = not stale
        res.add(f, hc, "the loop reads the handler registry itself (or a copy taken in this call), never a snapshot stored on the plan by an earlier event", ok2,
                "" if ok2 else f"the handlers are taken from `self.{stale[0]}`, which outlives the call: a handler registered after the first event is stored by add_handler (in `self.{hattr}`) but never receives an event",
                construct="emit_event: live registry")
    # no nested loop / repeated call
    hn = cfg.node_containing(hc)
    loops = 0
    cur = parent(hc)
    while cur is not None and cur is not f.node:
        if isinstance(cur, (ast.For, ast.While)):
            loops += 1
        cur = parent(cur)
    res.add(f, hc, "the handler call sits in exactly one loop", loops == 1, "" if loops == 1 else f"{loops} enclosing loops", construct="emit_event: single loop")
    on, pn = cfg.node_containing(oc), cfg.node_containing(pc)
    loop_nodes = cfg.nodes_for(loop) if isinstance(loop, ast.For) else []
    # (b) handlers first
    for what, nodes, call in (("observers", on, oc), ("parent plan", pn, pc)):
        ok = all(any(cfg.dominates(l, n) for l in loop_nodes) for n in nodes) and bool(loop_nodes)
        # and the loop is finished: the call is not inside the loop
        inside = any(call in ast.walk(s) for s in getattr(loop, "body", []))
        res.add(f, call, f"the {what} are called after the loop over the plan's own handlers", ok and not inside,
                "" if ok and not inside else f"the {what} can be called before/while the own handlers run", construct=f"emit_event: handlers before {what}")
    # (c) exactly one of observers / parent on every path
    targets = set(on) | set(pn)
    path = pf.find_path(cfg.entry, lambda m: m is cfg.exit, blocked=lambda m: m in targets)
    res.add(f, f.node, "every normal path through emit_event forwards the event (observers or parent)", path is None,
            "" if path is None else "the event can be dropped: neither observers nor parent are called", [] if path is None else describe_path(f, path),
            construct="emit_event: at least one of observers/parent")
    both = any(m in set(pn) for n in on for m in cfg.reachable_from([n])) or any(m in set(on) for n in pn for m in cfg.reachable_from([n]))
    again = any(n in cfg.reachable_from([m for m, _l in n.succ]) for n in list(on) + list(pn))
    res.add(f, f.node, "observers and parent are never both called, and neither is called twice", not both and not again,
            "" if not (both or again) else "an event can be delivered twice (observers and parent, or repeatedly)", construct="emit_event: at most one of observers/parent")
    # (d) which one: observers iff there is no parent
    from ..util import bool_nnf, path_condition

    for call, want_none, what in ((oc, True, "observers"), (pc, False, "parent")):
        st_ = call
        while parent(st_) is not None and not isinstance(st_, ast.stmt):
            st_ = parent(st_)
        pcond = path_condition(ctx, f, st_)
        pol = None
        if pcond:
            g_ = bool_nnf(("bool", "and", tuple(c_ if p else ("unary", "not", c_) for c_, p in pcond)))
            for it in (g_[1] if g_[0] == "and" else [g_]):
                if it[0] == "lit" and it[1][0] == "cmp" and it[1][1] == "is" and it[1][3] == ("const", None) and it[1][2][0] == "attr" and "parent" in it[1][2][2]:
                    pol = it[2]
        ok = pol is not None and pol == want_none
        res.add(f, call, f"the {what} are called iff the plan has {'no ' if want_none else 'a '}parent", ok,
                "" if ok else f"the {what} call is not controlled by the parent test with the right polarity", construct=f"emit_event: {what} polarity")
    # (e) the parent link is the plan that runs this one *now*: stores of the link outside the constructor
    #     take the argument unconditionally (a link kept from an earlier run delivers to the wrong ancestors)
    pt = X.at(f, pc)
    link = pt[1][1] if pt[0] == "call" and pt[1][0] == "attr" else None
    if link is not None and link[0] == "attr" and link[1][0] == "param":
        fld = link[2]
        n_st = 0
        for m_ in ctx.repo.cls(PLAN).methods.values():
            if m_.name == "__init__" or not m_.positional:
                continue
            for n_ in nodes_in(m_, (ast.Assign, ast.AnnAssign)):
                tg = n_.targets if isinstance(n_, ast.Assign) else [n_.target]
                if not any(isinstance(t_, ast.Attribute) and t_.attr == fld and isinstance(t_.value, ast.Name) and t_.value.id == m_.positional[0] for t_ in tg) or n_.value is None:
                    continue
                n_st += 1
                v_ = X.at(m_, n_.value)
                cond = path_condition(ctx, m_, n_)
                ok = v_[0] == "param" and not cond
                res.add(m_, n_, f"the parent link `{fld}` is set to the given plan unconditionally", ok,
                        "" if ok else (f"`{fld}` is only set under a condition: a plan reused by another parent keeps the old link and its events reach the wrong ancestors" if cond
                                       else f"`{fld}` is set to `{show(v_, 60)}`"),
                        construct=f"{m_.name}: parent link")
        res.add(f, pc, "the parent link can be set after construction (nested plans are attached by their runner)", n_st >= 1,
                "" if n_st else "no method sets the parent link", construct="emit_event: parent link setter")
    # the forwarded event is the received event
    for call, what in ((oc, "observers"), (pc, "parent")):
        t = X.at(f, call)
        ok = t[2] == (("param", f.qualname, ev),)
        res.add(f, call, f"the {what} receive the same event object", ok, "" if ok else f"forwards `{show(t, 80)}`", construct=f"emit_event: {what} same event")
    # call_observers: each subscriber of the event type once
    co = ctx.repo.func("ropt.plan._context.OptimizerContext.call_observers")
    cbs = [c for c in calls_in(co) if X.at(co, c.func)[0] == "iter"]
    ok = len(cbs) == 1
    if ok:
        t = X.at(co, cbs[0])
        it = t[1][1]
        sattr = _stored_attr(ctx, co.cls.methods.get("add_observer") if co.cls else None)
        ok = ("event_type" in show(it) and sattr is not None and contains(it, lambda s_: s_[0] == "attr" and s_[2] == sattr and s_[1][0] == "param")
              and len(t[2]) == 1 and t[2][0][0] == "param")
    res.add(co, co.node, "call_observers calls every subscriber of event.event_type once with the event", ok,
            "" if ok else "observer delivery is not one call per subscriber of the event's type", construct="call_observers shape")
    res.floor = 10
    return res


# --------------------------------------------------------------------- C15.3
@rule(P)
def c15_3(ctx: Ctx) -> RuleResult:
    res = RuleResult("C15.3", "WHO", "abort latch: written only by __init__/abort, tested before every step, set by steps on USER_ABORT, propagated from nested plans")
    plan = ctx.repo.cls(PLAN)
    # latch field = the attribute returned by the `aborted` property
    prop = plan.methods.get("aborted")
    if prop is None:
        raise AnalysisError("Plan.aborted not found")
    rt = ctx.X.return_term(prop)
    if rt[0] != "attr":
        raise AnalysisError("Plan.aborted does not return an attribute")
    latch = rt[2]
    # who may write
    n_writes = 0
    for f in ctx.repo.all_funcs():
        for n in nodes_in(f, (ast.Assign, ast.AugAssign, ast.AnnAssign)):
            targets = n.targets if isinstance(n, ast.Assign) else [n.target]
            for t in targets:
                if isinstance(t, ast.Attribute) and t.attr == latch:
                    n_writes += 1
                    val = getattr(n, "value", None)
                    v = val.value if isinstance(val, ast.Constant) else "?"
                    ok = f.cls is plan and ((f.name == "__init__" and v is False) or (f.name == "abort" and v is True))
                    res.add(f, n, f"`{latch}` is written only by Plan.__init__ (False) and Plan.abort (True)", ok,
                            "" if ok else f"`{latch}` is written here ({ast.unparse(n)}): the latch can be cleared or set elsewhere",
                            construct=f"write of {latch} in {f.qualname.rsplit('.', 2)[-2]}.{f.name}")
    if n_writes < 2:
        res.add(None, plan.node, "the latch is initialised and set", False, "missing write of the latch", construct="latch writes", where=plan.module.relpath, fname=plan.qualname)
    # run_step tests the latch before running a step
    rs = plan.methods.get("run_step")
    if rs is None:
        raise AnalysisError("Plan.run_step not found")
    from ..util import bool_nnf, path_condition

    runs = [c for c in calls_in(rs) if isinstance(c.func, ast.Attribute) and c.func.attr == "run"]
    raises_aborted = any(isinstance(x, ast.Raise) and x.exc is not None and "PlanAborted" in ast.unparse(x.exc) for x in ast.walk(rs.node))
    for c in runs:
        st_ = c
        while parent(st_) is not None and not isinstance(st_, ast.stmt):
            st_ = parent(st_)
        pc = path_condition(ctx, rs, st_)
        guarded = False
        if pc:
            g_ = bool_nnf(("bool", "and", tuple(c_ if p_ else ("unary", "not", c_) for c_, p_ in pc)))
            for it in (g_[1] if g_[0] == "and" else [g_]):
                # the step runs only where the latch is False
                if it[0] == "lit" and it[2] is False and it[1][0] == "attr" and it[1][2] in (latch, "aborted") and it[1][1][0] == "param":
                    guarded = True
        ok = guarded and raises_aborted
        res.add(rs, c, "the aborted test (raising PlanAborted) is passed before the step runs", ok,
                "" if ok else "a step can run on an aborted plan", construct="run_step: aborted test before step.run")
    if not runs:
        raise AnalysisError("no step.run call in Plan.run_step")
    # every step latches the plan when its exit code is USER_ABORT
    for run in step_run_methods(ctx):
        cfg = cfg_of(ctx.repo, run)
        pf = PathFinder(cfg, dataflow_of(ctx.repo, run))
        cname = run.cls.name if run.cls else run.name
        aborts = []
        from ..util import always_exits

        UA = ("global", "ropt.enums.OptimizerExitCode.USER_ABORT")

        def has_abort(stmts):
            return any(isinstance(c, ast.Call) and isinstance(c.func, ast.Attribute) and c.func.attr == "abort" for s in stmts for c in ast.walk(s))

        for n in nodes_in(run, ast.If):
            t = ctx.X.value_at(run, n.test)
            cm = [s for s in subterms(t) if s[0] == "cmp" and s[1] in ("==", "!=") and UA in (s[2], s[3])]
            if not cm or t[0] != "cmp":
                continue
            if cm[0][1] == "==":
                calls_abort = has_abort(n.body)
            else:
                # `if code != USER_ABORT: <leave>` followed by the latch, or the latch in the else branch
                calls_abort = has_abort(n.orelse) and not has_abort(n.body)
                if not calls_abort and always_exits(n.body) and not has_abort(n.body):
                    blk = parent(n)
                    for fld in ("body", "orelse", "finalbody"):
                        lst = getattr(blk, fld, None)
                        if isinstance(lst, list) and any(n is x for x in lst):
                            calls_abort = has_abort(lst[[i for i, x in enumerate(lst) if x is n][0] + 1:])
                    if isinstance(blk, ast.ExceptHandler):
                        calls_abort = calls_abort or has_abort(blk.body[[i for i, x in enumerate(blk.body) if x is n][0] + 1:])
            if calls_abort:
                aborts.append(n)
        if not aborts:
            res.add(run, run.node, "the step calls plan.abort() when its exit code is USER_ABORT", False,
                    f"{cname}.run never latches the plan on USER_ABORT", construct=f"{cname}: latch on USER_ABORT")
            continue
        # every normal return passes that test, and the tested value is the returned value
        tn = {n for a in aborts for n in cfg.node_containing(a.test)}
        work = work_calls(ctx, run)
        ok, wit = True, []
        for w in work:
            for n in cfg.node_containing(w):
                path = pf.find_path(n, lambda m: m is cfg.exit, blocked=lambda m: m in tn, edge_ok=abort_edges_only(ctx, run))
                if path is not None:
                    ok, wit = False, describe_path(run, path)
        res.add(run, aborts[0], "every normal return after the work passes the USER_ABORT test that latches the plan", ok,
                "" if ok else "the step can return without testing for USER_ABORT", wit, construct=f"{cname}: latch on USER_ABORT")
        rets = [r for r in nodes_in(run, ast.Return) if r.value is not None]
        tested = {show(x) for a in aborts for s in subterms(ctx.X.value_at(run, a.test)) if s[0] == "cmp" for x in (s[2], s[3]) if x[0] != "global"}
        returned = {show(ctx.X.at(run, r.value)) for r in rets}
        res.add(run, aborts[0], "the exit code tested for USER_ABORT is the exit code the step returns", returned <= tested or not returned,
                "" if returned <= tested else f"tests {sorted(tested)} but returns {sorted(returned)}", construct=f"{cname}: tested code is returned code")
    # nested plans: abort propagates to the parent plan and stops the outer optimizer
    for run in step_run_methods(ctx):
        c = run.cls
        if c is None:
            continue
        for m in c.methods.values():
            if not any(isinstance(x, ast.Call) and isinstance(x.func, ast.Attribute) and x.func.attr == "run_function" for x in ast.walk(m.node)):
                continue
            props = [n for n in nodes_in(m, ast.If) if "aborted" in ast.unparse(n.test)
                     and any(isinstance(x, ast.Call) and isinstance(x.func, ast.Attribute) and x.func.attr == "abort" for s in n.body for x in ast.walk(s))]
            res.add(m, props[0] if props else m.node, "when the nested plan is aborted the outer plan is aborted too", bool(props),
                    "" if props else "a nested abort does not latch the outer plan", construct=f"{c.name}.{m.name}: nested abort propagates")
            rt = ctx.X.return_term(m)
            ok = any(s[0] == "attr" and s[2] == "aborted" for s in subterms(rt))
            res.add(m, m.node, "the nested runner reports the aborted flag to the optimizer driver", ok, "" if ok else "aborted flag not returned",
                    construct=f"{c.name}.{m.name}: returns aborted flag")
    for cb in optimizer_callbacks(ctx):
        found = False
        for n in nodes_in(cb, ast.If):
            if any(isinstance(x, ast.Raise) for s in n.body for x in ast.walk(s)):
                t = ctx.X.value_at(cb, n.test)
                # the flag returned by the nested optimizer
                if any(s[0] == "item" and s[2] == 1 for s in subterms(t)) or (t[0] == "item" and t[2] == 1):
                    rs_ = [x for s in n.body for x in ast.walk(s) if isinstance(x, ast.Raise)]
                    if any(contains(ctx.X.at(cb, r.exc), lambda s: s == ("global", "ropt.enums.OptimizerExitCode.USER_ABORT")) for r in rs_ if r.exc is not None):
                        found = True
                        res.add(cb, n, "an aborted nested optimization stops the outer optimization with USER_ABORT", True, construct=f"{cb.name}: nested abort -> USER_ABORT")
        if not found and any("nested" in a for a in ast.unparse(cb.node)):
            if "_nested_optimizer" in ast.unparse(cb.node):
                res.add(cb, cb.node, "an aborted nested optimization stops the outer optimization with USER_ABORT", False,
                        "the aborted flag of the nested optimizer is not converted to USER_ABORT", construct=f"{cb.name}: nested abort -> USER_ABORT")
    res.floor = 9
    return res


# --------------------------------------------------------------------- C15.4
@rule(P)
def c15_4(ctx: Ctx) -> RuleResult:
    res = RuleResult("C15.4", "EXC", "an abort raised by an observer or handler at any emit of a step is converted to USER_ABORT inside the step")
    from ..util import catching_handler

    co = ctx.repo.func("ropt.plan._context.OptimizerContext.call_observers")
    for run in step_run_methods(ctx):
        cname = run.cls.name if run.cls else run.name
        flow = ExcFlow(ctx, ABORT, user_callbacks_raise=True)
        sites = emit_sites(ctx, run)
        emit_ids = {id(c) for c, _t in sites}
        for call, callees, _kind in ctx.cg.all_callees(run):
            # observer/handler callback sites whose abort propagates up to this call
            chains = []
            for g in callees:
                for sf, sn, chain in flow.escaping(g):
                    if sf is co:
                        chains.append(((g, sn),) + chain)
            if not chains and id(call) not in emit_ids:
                continue
            types = event_types_in(ctx, run, call) if id(call) in emit_ids else set()
            ok = not chains or catching_handler(ctx.repo, run, call, ABORT) is not None
            wit = []
            if not ok:
                wit = [f"{cf.qualname} line {getattr(c, 'lineno', '?')}" for cf, c in chains[0][1:]]
            what = f"emit {sorted(types)}" if types else norm_stmt(call)[:70]
            res.add(run, call, "an abort raised by an observer/handler during this call is converted into the step's exit code", ok,
                    "" if ok else f"an abort raised by an observer/handler at {what} escapes {cname}.run as an exception: no USER_ABORT exit code, plan not latched", wit,
                    construct=f"{cname}: {what}")
    # the converting handlers make the abort's exit code the step's result, whatever the step had decided before
    for run in step_run_methods(ctx):
        cname = run.cls.name if run.cls else run.name
        # names whose value flows into the value the step returns (through copies and inlined helpers)
        ret_names = {x.id for r_ in nodes_in(run, ast.Return) if r_.value is not None for x in ast.walk(r_.value) if isinstance(x, ast.Name)}
        changed = True
        while changed:
            changed = False
            for n_ in nodes_in(run, (ast.Assign, ast.AnnAssign)):
                if n_.value is None:
                    continue
                tg = n_.targets if isinstance(n_, ast.Assign) else [n_.target]
                if any(isinstance(t_, ast.Name) and t_.id in ret_names for t_ in tg):
                    for x in ast.walk(n_.value):
                        if isinstance(x, ast.Name) and x.id not in ret_names:
                            ret_names.add(x.id)
                            changed = True
        seen_h = set()
        for call, _t in emit_sites(ctx, run):
            h = catching_handler(ctx.repo, run, call, ABORT)
            if not isinstance(h, ast.ExceptHandler) or id(h) in seen_h:
                continue
            seen_h.add(id(h))
            if h.name is None:
                ok = any(isinstance(s_, ast.Return) for s_ in h.body)
                res.add(run, h, "the handler of an abort makes the abort's exit code the result of the step", ok,
                        "" if ok else "the handler does not bind the exception: its exit code cannot become the step's result", construct=f"{cname}: abort handler L{h.lineno} result")
                continue

            def takes_code(v):
                return v is not None and any(isinstance(x, ast.Attribute) and isinstance(x.value, ast.Name) and x.value.id == h.name for x in ast.walk(v))

            ok = False
            for s_ in h.body:
                if isinstance(s_, ast.Return) and takes_code(s_.value):
                    ok = True
                if isinstance(s_, (ast.Assign, ast.AnnAssign)) and takes_code(s_.value):
                    tg = s_.targets if isinstance(s_, ast.Assign) else [s_.target]
                    if any(isinstance(t_, ast.Name) and t_.id in ret_names for t_ in tg):
                        ok = True
            res.add(run, h, "the handler of an abort makes the abort's exit code the result of the step unconditionally", ok,
                    "" if ok else "the abort's exit code replaces the step's result only under a condition (or not at all): a user abort can be reported as another exit code and the plan is not latched",
                    construct=f"{cname}: abort handler L{h.lineno - run.node.lineno} result")
    # an abort in flight must not be replaced by a raise/return in a finally clause
    from .c14 import c14_6

    for i in c14_6(ctx).instances:
        if "finally clause" in i.construct:
            i.rule = "C15.4"
            i.obligation = "an abort propagating through this finally clause is not replaced by another exception or a return"
            res.instances.append(i)
    res.floor = 4
    return res


def nested_runners(ctx: Ctx) -> list[Func]:
    """The callables handed to EnsembleOptimizer as `nested_optimizer=` (the step's nested-plan runner)."""
    out = []
    for f in ctx.repo.all_funcs():
        if not f.module.name.startswith("ropt.plugins.plan"):
            continue
        for c in calls_in(f):
            for kw in c.keywords:
                if kw.arg == "nested_optimizer":
                    for x in ast.walk(kw.value):
                        if isinstance(x, ast.Attribute) and f.cls is not None and x.attr in f.cls.methods:
                            g = f.cls.methods[x.attr]
                            if g not in out:
                                out.append(g)
    if not out:
        raise AnalysisError("no nested_optimizer= argument found (nested plan runner anchor vanished)")
    return out


@rule(P)
def c15_5(ctx: Ctx) -> RuleResult:
    """A nested plan that ends without a result (aborted or failed in its first evaluation: the inner tracker is still
    empty) is an outcome with a documented exit code - the optimizer callback turns `(None, aborted)` into USER_ABORT /
    NESTED_OPTIMIZER_FAILED.  The runner may therefore raise its own (non-abort) exception only where the nested result
    is known not to be None."""
    from .common import conds_at

    res = RuleResult("C15.5", "EXC", "the nested-plan runner reports a missing result as (None, aborted); it raises only for a result of the wrong type")
    X = ctx.X
    for g in nested_runners(ctx):
        cfg = cfg_of(ctx.repo, g)
        n = 0
        for r in nodes_in(g, ast.Raise):
            if r.exc is None or cfg._exc_qual(r.exc) == ABORT:
                continue
            n += 1
            cs = conds_at(ctx, g, r)
            # the nested result: first component of what the runner returns
            results_t = set()
            for rr in nodes_in(g, ast.Return):
                first = None
                if isinstance(rr.value, ast.Tuple) and rr.value.elts:
                    first = rr.value.elts[0]
                elif isinstance(rr.value, ast.Call) and (rr.value.args or rr.value.keywords):
                    # a small record type (`_NestedResult(results=..., aborted=...)`): its first field
                    first = rr.value.args[0] if rr.value.args else rr.value.keywords[0].value
                if first is not None:
                    t0 = X.at(g, first)
                    if t0 != ("const", None):
                        results_t.add(t0)
            # `result is None` known False, or isinstance(result, ...) known True, where the raise stands
            nonnull = any((a[0] == "cmp" and a[1] == "is" and a[3] == ("const", None) and a[2] in results_t and p is False) for a, p in cs.items()) or \
                any(a[0] == "call" and a[1] == ("builtin", "isinstance") and a[2] and a[2][0] in results_t and p is True for a, p in cs.items())
            res.add(g, r, "a non-abort exception of the runner is raised only where the nested result is present", nonnull,
                    "" if nonnull else f"`{norm_stmt(r)[:60]}` is also reached when the nested plan produced no result at all (aborted or failed in its first evaluation): "
                    "the exception escapes the outer step - no USER_ABORT / NESTED_OPTIMIZER_FAILED exit code, no FINISHED_OPTIMIZER_STEP event",
                    construct=f"{g.name}: raise {cfg._exc_qual(r.exc) or ''}")
        if n == 0:
            res.add(g, g.node, "the runner raises no exception of its own", True, construct=f"{g.name}: no own raise")
    res.floor = 1
    return res
