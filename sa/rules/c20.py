"""C20 - external-process runs; process death is never success.

  C20.1 DOM   every normal return after the spawn is preceded by an inspection of
              the child's exit status whose failure branch raises
  C20.2 EXC   a pending (stored) exception is re-raised on every path (= C14.6 instance)
  C20.3 TS    child lifetime: terminate + bounded wait before every explicit exit after
              the spawn; atexit kill registered first; temp dir / pipes in context managers
  C20.4 TABLE request/response literals and keys agree between parent and child; floats
              travel via tolist + json without rounding/formatting
  C20.5 DOM   every waiting loop tests peer liveness in each iteration
"""

from __future__ import annotations

import ast

from ..cfg import cfg_of
from ..core import META, Ctx, RuleResult, rule
from ..dataflow import dataflow_of
from ..model import AnalysisError, Func, dotted, norm_stmt, parent
from ..paths import PathFinder, describe_path
from ..terms import contains, show, subterms
from ..util import catching_handler, value_alts, calls_in, nodes_in
from .c14 import broad_handlers, BROAD_HANDLER_EXCEPTIONS

P = "C20"
MOD = "ropt.plugins.optimizer.external"

META[P] = {
    "explanation": (
        "Dominance / typestate rules on the CFG of the function that spawns the optimizer process (exit status inspected, pending error re-raised, "
        "child terminated and reaped before every explicit exit), a writer/reader table of the JSON message protocol extracted from both sides, "
        "and a liveness-shape rule for every waiting loop."
    ),
    "not_decided": [
        "trace equality of external and in-process runs (first sentence of the property): a runtime relation between two executions",
        "timing, scheduling of the two processes, and kill-at-message-k behaviour of the operating system",
    ],
}


def spawners(ctx: Ctx) -> list[tuple[Func, ast.Call]]:
    out = []
    for f in ctx.repo.all_funcs():
        for call in calls_in(f):
            t = ctx.X.at(f, call.func)
            if t == ("global", "subprocess.Popen"):
                out.append((f, call))
    if not out:
        raise AnalysisError("no subprocess.Popen call found (external optimizer anchor vanished)")
    return out


def _process_var(call: ast.Call) -> str | None:
    p = parent(call)
    if isinstance(p, ast.Assign) and len(p.targets) == 1 and isinstance(p.targets[0], ast.Name):
        return p.targets[0].id
    return None


def _mentions_status(ctx: Ctx, f: Func, test: ast.AST, pvar: str) -> bool:
    """Test inspects the child's exit status (returncode / poll() / wait())
    other than as a bare liveness test `poll() is None`."""
    t = ctx.X.at(f, test)

    def status_term(s) -> bool:
        if s[0] == "attr" and s[2] == "returncode":
            return True
        if s[0] == "call" and s[1][0] == "attr" and s[1][2] in ("poll", "wait"):
            return True
        return False

    for s in subterms(t):
        if s[0] == "cmp":
            if s[1] in ("is", "is not") and s[3] == ("const", None):
                continue  # liveness test
            if contains(s[2], status_term) or contains(s[3], status_term):
                return True
    # truthiness of returncode: `if process.returncode:`
    if status_term(t):
        return t[0] == "attr"
    return False


def _has_raise(node: ast.If) -> bool:
    return any(isinstance(n, ast.Raise) for s in node.body + node.orelse for n in ast.walk(s))


def _status_test_covers_all_failures(ctx: Ctx, f: Func, node: ast.If) -> bool:
    """The raising branch is taken for every status other than 0 (negative:
    killed by a signal; positive: error exit; None: still running)."""
    from ..pattern import norm as _norm

    t = _norm(ctx.X.value_at(f, node.test))
    raise_in_body = any(isinstance(n, ast.Raise) for s in node.body for n in ast.walk(s))
    raise_in_else = any(isinstance(n, ast.Raise) for s in node.orelse for n in ast.walk(s))

    def is_status(x):
        return (x[0] == "attr" and x[2] == "returncode") or (x[0] == "call" and x[1][0] == "attr" and x[1][2] in ("poll", "wait"))

    if t[0] == "cmp" and t[1] in ("!=", "==") and ((is_status(t[2]) and t[3] == ("const", 0)) or (is_status(t[3]) and t[2] == ("const", 0))):
        return raise_in_body if t[1] == "!=" else raise_in_else
    if is_status(t):  # `if process.returncode:`
        return raise_in_body
    if t[0] == "unary" and t[1] == "not" and is_status(t[2]):
        return raise_in_else
    return False


@rule(P)
def c20_1(ctx: Ctx) -> RuleResult:
    res = RuleResult("C20.1", "DOM", "the child's exit status is inspected (failure raises) before every normal return after the spawn")
    for f, call in spawners(ctx):
        pvar = _process_var(call) or "process"
        cfg = cfg_of(ctx.repo, f)
        df = dataflow_of(ctx.repo, f)
        pf = PathFinder(cfg, df)
        # tests of the exit status and the branch on which the status is known to be zero:
        # `rc != 0` -> false branch, `rc == 0` -> true branch, `rc` -> false, `not rc` -> true.  A normal return is
        # allowed only after such a branch was taken (`if rc != 0: raise` and `if rc == 0: return; raise` alike)
        from ..pattern import norm as _norm

        def is_status(x):
            return (x[0] == "attr" and x[2] == "returncode") or (x[0] == "call" and x[1][0] == "attr" and x[1][2] in ("poll", "wait"))

        zero_edge = {}
        partial = []
        for n in nodes_in(f, (ast.If, ast.While)):
            if not _mentions_status(ctx, f, n.test, pvar):
                continue
            t = _norm(ctx.X.value_at(f, n.test))
            lab = None
            if t[0] == "cmp" and t[1] in ("!=", "==") and ((is_status(t[2]) and t[3] == ("const", 0)) or (is_status(t[3]) and t[2] == ("const", 0))):
                lab = "false" if t[1] == "!=" else "true"
            elif is_status(t):
                lab = "false"
            elif t[0] == "unary" and t[1] == "not" and is_status(t[2]):
                lab = "true"
            if lab is None:
                partial.append(n)
                continue
            for tn_ in cfg.node_containing(n.test):
                zero_edge[tn_] = lab
        for pn in cfg.node_containing(call):
            starts = [m for m, lab in pn.succ if lab != "exc"]
            ok, wit = True, []
            for s0 in starts:
                path = pf.find_path(s0, lambda m: m is cfg.exit, edge_ok=lambda a, b, lab: not (a in zero_edge and lab == zero_edge[a]), goal_at_start=True)
                if path is not None:
                    ok, wit = False, describe_path(f, path)
            why = ""
            if not ok:
                why = ("the function can return normally (normal-completion code) without ever looking at the child's exit status: a crashed or killed optimizer process is reported as success"
                       if not partial else
                       f"the status test `{ast.unparse(partial[0].test)}` does not treat every non-zero status as a failure (a process killed by a signal has a negative status): abnormal death is reported as success")
            res.add(f, call, "every path from the spawn to a normal return passes a test `exit status != 0 -> raise` of the child", ok, why, wit)
    return res


@rule(P)
def c20_2(ctx: Ctx) -> RuleResult:
    res = RuleResult("C20.2", "EXC", "an exception stored for later (abort hand-shake) is re-raised on every feasible path")
    sites = []
    for f, h in broad_handlers(ctx):
        if f.module.name == MOD and (f, h) not in sites:
            sites.append((f, h))
    # handlers that keep the exception for later, whatever they catch
    for f in ctx.repo.funcs_in(MOD):
        for h in nodes_in(f, ast.ExceptHandler):
            if h.name and any(isinstance(n_, ast.Assign) and isinstance(n_.value, ast.Name) and n_.value.id == h.name for s_ in h.body for n_ in ast.walk(s_)):
                if not any(h is h2 for _f, h2 in sites):
                    sites.append((f, h))
    for f, h in sites:
        short = f.qualname[len(f.module.name) + 1:]
        if (f.module.name, short) in BROAD_HANDLER_EXCEPTIONS:
            continue
        stores = h.name and any(isinstance(n_, ast.Assign) and isinstance(n_.value, ast.Name) and n_.value.id == h.name for s_ in h.body for n_ in ast.walk(s_))
        if stores:
            # the guarded call runs the user's evaluator: whatever it raises has to go through the abort hand-shake
            # (tell the child, terminate it, wait) before it is raised again
            classes = cfg_of(ctx.repo, f)._handler_classes(h)
            broad = classes is None or any(c_ in ("Exception", "BaseException") for c_ in classes)
            res.add(f, h, "the handler that defers an exception until the child was told to abort catches every Exception", broad,
                    "" if broad else f"only {sorted(classes)} are deferred: any other exception of the evaluator leaves at once, the child is neither told to abort nor terminated and keeps running",
                    construct=f"deferring handler in {short}: breadth")
        cfg = cfg_of(ctx.repo, f)
        pf = PathFinder(cfg, dataflow_of(ctx.repo, f))
        ok, wit = True, []
        for hn in cfg.nodes_for(h):
            path = pf.find_path(hn, lambda m: m is cfg.exit)
            if path is not None:
                ok, wit = False, describe_path(f, path)
        res.add(f, h, "after this handler a normal return is unreachable: the stored exception is raised", ok,
                "" if ok else "if the child exits before the abort message was written the stored exception is dropped and the run reports success", wit,
                construct=f"except {ast.unparse(h.type) if h.type else ''} in {short}")
    res.floor = 1
    return res


def _is_kill(ctx: Ctx, f: Func, call: ast.Call) -> bool:
    t = ctx.X.at(f, call)
    if t[0] != "call":
        return False
    if t[1] == ("global", "os.kill"):
        return True
    return t[1][0] == "attr" and t[1][2] in ("terminate", "kill", "send_signal")


def _is_bounded_wait(ctx: Ctx, f: Func, call: ast.Call) -> bool:
    t = ctx.X.at(f, call)
    return t[0] == "call" and t[1][0] == "attr" and t[1][2] in ("wait", "communicate") and (bool(t[2]) or any(k == "timeout" for k, _ in t[3]))


@rule(P)
def c20_3(ctx: Ctx) -> RuleResult:
    res = RuleResult("C20.3", "TS", "child lifetime: terminate + bounded wait before every explicit exit; atexit kill; resources in context managers")
    for f, call in spawners(ctx):
        cfg = cfg_of(ctx.repo, f)
        pf = PathFinder(cfg, dataflow_of(ctx.repo, f))
        kills, waits = set(), set()
        for c in calls_in(f):
            if _is_kill(ctx, f, c):
                kills.update(cfg.node_containing(c))
            if _is_bounded_wait(ctx, f, c):
                waits.update(cfg.node_containing(c))
        # raises that leave the function (one caught by a handler of this function is not an exit)
        raise_nodes = [n for n in cfg.nodes if n.kind == "stmt" and isinstance(n.ast, ast.Raise)
                       and catching_handler(ctx.repo, f, n.ast, cfg._exc_qual(n.ast.exc) if n.ast.exc is not None else "BaseException") is None]
        live = cfg.live_nodes()
        for pn in cfg.node_containing(call):
            starts = [m for m, lab in pn.succ if lab != "exc"]
            reach = cfg.reachable_from(starts)
            goals = [cfg.exit] + [r for r in raise_nodes if r in reach and r in live]
            for g in goals:
                for what, nodes in (("terminates the child (SIGTERM/terminate)", kills), ("waits for it with a timeout", waits)):
                    ok, wit = True, []
                    for s0 in starts:
                        path = pf.find_path(s0, lambda m, g=g: m is g, blocked=lambda m, nodes=nodes: m in nodes, goal_at_start=True)
                        if path is not None:
                            ok, wit = False, describe_path(f, path)
                    gname = "normal return" if g is cfg.exit else f"`{norm_stmt(g.ast)}`"
                    res.add(f, g.ast if g.ast is not None else call, f"every path from the spawn to this exit {what}", ok,
                            "" if ok else f"{gname} is reachable with the optimizer process possibly still running (not {what.split(' (')[0]})", wit,
                            construct=f"{f.name}: exit {gname} {what.split(' ')[0]}")
        # atexit kill registered before the spawn
        reg = [c for c in calls_in(f) if ctx.X.at(f, c.func) == ("global", "atexit.register")]
        ok = False
        for c in reg:
            targets = ctx.cg.callbacks_of_call(f, c)
            if any(any(_is_kill(ctx, g, k) for k in calls_in(g)) for g in targets):
                for rn in cfg.node_containing(c):
                    for pn in cfg.node_containing(call):
                        if cfg.dominates(rn, pn):
                            ok = True
        res.add(f, call, "an atexit handler that kills the child is registered before the spawn", ok,
                "" if ok else "no atexit kill dominates the spawn: an interpreter exit leaves the optimizer process running",
                construct=f"{f.name}: atexit kill registered")
        # resources in context managers
        withs = []
        cur = parent(call)
        while cur is not None and cur is not f.node:
            if isinstance(cur, ast.With):
                withs += [ast.unparse(i.context_expr).split("(")[0] for i in cur.items]
            cur = parent(cur)
        for needed in ("TemporaryDirectory", "_JSONPipeCommunicator"):
            ok = any(w.endswith(needed) for w in withs)
            res.add(f, call, f"the spawn happens inside `with {needed}(...)` (released on every exit)", ok,
                    "" if ok else f"{needed} is not managed by a with-statement around the child's lifetime", construct=f"{f.name}: with {needed}")
    res.floor = 6
    return res


# --------------------------------------------------------------------- C20.4
def _str_consts(node: ast.AST) -> set[str]:
    return {n.value for n in ast.walk(node) if isinstance(n, ast.Constant) and isinstance(n.value, str)}


def _dict_keys(node: ast.AST, ctx: Ctx | None = None, f: Func | None = None) -> set[str]:
    """String keys of the dict literals a value is made of (locals are followed when ctx/f are given)."""
    out = set()
    for n in ast.walk(node):
        if isinstance(n, ast.Dict):
            for k in n.keys:
                if isinstance(k, ast.Constant) and isinstance(k.value, str):
                    out.add(k.value)
    if ctx is not None and f is not None:
        t = ctx.X.at(f, node)
        for s_ in ctx.X.closure(t):
            if s_[0] == "dict":
                for k_, _v in s_[1]:
                    if k_[0] == "const" and isinstance(k_[1], str):
                        out.add(k_[1])
            if s_[0] == "update" and s_[3][0] == "const" and isinstance(s_[3][1], str):
                out.add(s_[3][1])
    return out


def _request_method(c):
    """The method of the child-side class that sends a message and waits for the answer: it calls
    both `write` and `read` on the communicator (found by what it does, not by its name)."""
    for m in c.methods.values():
        names = {x.func.attr for x in ast.walk(m.node) if isinstance(x, ast.Call) and isinstance(x.func, ast.Attribute)}
        if {"read", "write"} <= names and m.name not in ("run", "start"):
            return m
    return None


def _liveness_methods(ctx: Ctx) -> set[str]:
    """Names of methods in the module that test whether a process is alive: os.kill(pid, 0) / poll() / is_alive()."""
    out = {"poll", "is_alive"}
    for f in ctx.repo.funcs_in(MOD):
        for c in ast.walk(f.node):
            if isinstance(c, ast.Call) and dotted(c.func) == "os.kill" and len(c.args) == 2 and isinstance(c.args[1], ast.Constant) and c.args[1].value == 0:
                out.add(f.name)
    return out


def _request_arg(call: ast.Call, rq) -> ast.AST | None:
    """The message handed to the child's request method, passed by position or by keyword."""
    if call.args:
        return call.args[0]
    pname = rq.positional[1] if len(rq.positional) > 1 else None
    for k in call.keywords:
        if k.arg is not None and k.arg == pname:
            return k.value
    return None


def protocol_tables(ctx: Ctx):
    """Literals written / read on each side of the pipe protocol."""
    m = ctx.repo.module(MOD)
    parent_cls = child_cls = None
    for c in m.classes.values():
        names = set(c.methods)
        if any(b.endswith("Optimizer") for b in c.base_names) and "start" in names:
            parent_cls = c
        if "run" in names and not any(b.endswith("Optimizer") or b.endswith("Plugin") for b in c.base_names) and _request_method(c) is not None:
            child_cls = c
    if parent_cls is None or child_cls is None:
        raise AnalysisError("parent/child classes of the external optimizer not found")
    # child -> parent: what the child sends through _request(...)
    c2p_written: set[str] = set()
    for mth in child_cls.methods.values():
        for call in calls_in(mth):
            if isinstance(call.func, ast.Attribute) and call.func.attr == _request_method(child_cls).name and _request_arg(call, _request_method(child_cls)) is not None:
                a = _request_arg(call, _request_method(child_cls))
                if isinstance(a, ast.Constant) and isinstance(a.value, str):
                    c2p_written.add(a.value)
                c2p_written |= _dict_keys(a, ctx, mth)
    # parent reads: comparisons with / .get() / subscripts on the request
    handler = None
    for mth in parent_cls.methods.values():
        if any(isinstance(c.func, ast.Attribute) and c.func.attr == "read" for c in calls_in(mth)) and mth.name != "start":
            handler = mth
    if handler is None:
        # the handler may be written out in (or inlined into) start itself
        st_m = parent_cls.methods.get("start")
        if st_m is not None and any(isinstance(c.func, ast.Attribute) and c.func.attr == "read" for c in calls_in(st_m)):
            handler = st_m
    if handler is None:
        raise AnalysisError("request handler of the external optimizer not found")
    c2p_read: set[str] = set()
    # the handler and the private methods of the same class it hands the request to
    hfuncs = [handler]
    for g in ctx.cg.reachable([handler], include_nested_values=False):
        if g.cls is parent_cls and g is not handler and g.name.startswith("_") and g not in hfuncs:
            hfuncs.append(g)
    for hf in hfuncs:
        for n in nodes_in(hf, (ast.Compare, ast.Call, ast.Subscript, ast.Match)):
            if isinstance(n, ast.Compare):
                for c in [n.left] + n.comparators:
                    if isinstance(c, ast.Constant) and isinstance(c.value, str):
                        c2p_read.add(c.value)
            elif isinstance(n, ast.Call) and isinstance(n.func, ast.Attribute) and n.func.attr == "get" and n.args:
                if isinstance(n.args[0], ast.Constant) and isinstance(n.args[0].value, str):
                    c2p_read.add(n.args[0].value)
            elif isinstance(n, ast.Subscript) and isinstance(n.slice, ast.Constant) and isinstance(n.slice.value, str) and isinstance(n.ctx, ast.Load):
                c2p_read.add(n.slice.value)
            elif isinstance(n, ast.Match):
                for case in n.cases:
                    for p_ in ast.walk(case.pattern):
                        if isinstance(p_, ast.MatchValue) and isinstance(p_.value, ast.Constant) and isinstance(p_.value.value, str):
                            c2p_read.add(p_.value.value)
                        elif isinstance(p_, ast.MatchMapping):
                            for k_ in p_.keys:
                                if isinstance(k_, ast.Constant) and isinstance(k_.value, str):
                                    c2p_read.add(k_.value)
    # parent -> child: values returned by the handler + literal answers in start
    p2c_written: set[str] = set()
    for hf in hfuncs:
        for r_ in nodes_in(hf, ast.Return):
            if r_.value is not None:
                p2c_written |= _dict_keys(r_.value, ctx, hf)
                if isinstance(r_.value, ast.Constant) and isinstance(r_.value.value, str):
                    p2c_written.add(r_.value.value)
    start = parent_cls.methods["start"]
    write_args = set()
    for call in calls_in(start):
        if isinstance(call.func, ast.Attribute) and call.func.attr == "write" and call.args and isinstance(call.args[0], ast.Name):
            write_args.add(call.args[0].id)
    for n in nodes_in(start, ast.Assign):
        if any(isinstance(t, ast.Name) and t.id in write_args for t in n.targets):
            if isinstance(n.value, ast.Constant) and isinstance(n.value.value, str):
                p2c_written.add(n.value.value)
    # the value handed to write(...) itself (the handler may be written out in start)
    for call in calls_in(start):
        if isinstance(call.func, ast.Attribute) and call.func.attr == "write" and call.args:
            for s_ in value_alts(ctx.X.value_at(start, call.args[0])):
                if s_[0] == "const" and isinstance(s_[1], str):
                    p2c_written.add(s_[1])
                # a dict filled key by key: `answer = {"functions": f}; answer["gradients"] = g`
                while s_[0] == "update":
                    if s_[3][0] == "const" and isinstance(s_[3][1], str):
                        p2c_written.add(s_[3][1])
                    s_ = s_[1]
                if s_[0] == "dict":
                    for k_, _v in s_[1]:
                        if k_[0] == "const" and isinstance(k_[1], str):
                            p2c_written.add(k_[1])
    # child reads
    p2c_read: set[str] = set()
    for mth in child_cls.methods.values():
        for n in nodes_in(mth, (ast.Compare, ast.Subscript)):
            if isinstance(n, ast.Compare):
                for c in [n.left] + n.comparators:
                    if isinstance(c, ast.Constant) and isinstance(c.value, str):
                        p2c_read.add(c.value)
            elif isinstance(n.slice, ast.Constant) and isinstance(n.slice.value, str) and isinstance(n.ctx, ast.Load):
                p2c_read.add(n.slice.value)
    return parent_cls, child_cls, handler, c2p_written, c2p_read, p2c_written, p2c_read


@rule(P)
def c20_4(ctx: Ctx) -> RuleResult:
    res = RuleResult("C20.4", "TABLE", "message literals and keys written on one side of the pipe are exactly those read on the other; floats travel unformatted")
    parent_cls, child_cls, handler, c2p_w, c2p_r, p2c_w, p2c_r = protocol_tables(ctx)
    for lit in sorted(c2p_w | c2p_r):
        ok = lit in c2p_w and lit in c2p_r
        res.add(handler, handler.node, f"child->parent literal/key `{lit}` is written by the child and handled by the parent", ok,
                "" if ok else (f"`{lit}` is {'written by the child but never handled by the parent' if lit in c2p_w else 'expected by the parent but never sent by the child'}"),
                construct=f"c2p:{lit}")
    for lit in sorted(p2c_w | p2c_r):
        ok = lit in p2c_w and lit in p2c_r
        res.add(handler, handler.node, f"parent->child literal/key `{lit}` is written by the parent and read by the child", ok,
                "" if ok else (f"`{lit}` is {'written by the parent but never read by the child' if lit in p2c_w else 'read by the child but never written by the parent'}"),
                construct=f"p2c:{lit}")
    # a message kind is recognised by the presence of its key: a truthiness test misses a present but falsy
    # value (an empty error text), unless everything the child writes under the key is a non-empty literal
    written_vals: dict[str, list[ast.AST]] = {}
    rq = _request_method(child_cls)
    for mth in child_cls.methods.values():
        for call in calls_in(mth):
            if isinstance(call.func, ast.Attribute) and rq is not None and call.func.attr == rq.name and isinstance(_request_arg(call, rq), ast.Dict):
                for k_, v_ in zip(_request_arg(call, rq).keys, _request_arg(call, rq).values):
                    if isinstance(k_, ast.Constant) and isinstance(k_.value, str):
                        written_vals.setdefault(k_.value, []).append(v_)

    def never_falsy(v: ast.AST) -> bool:
        if isinstance(v, ast.Dict):
            return len(v.keys) > 0
        if isinstance(v, (ast.List, ast.Tuple, ast.Set)):
            return len(v.elts) > 0 and not any(isinstance(e, ast.Starred) for e in v.elts)
        if isinstance(v, ast.Constant):
            return bool(v.value)
        return False

    # the same test written as the guard of a mapping pattern: `case {"error": error} if error:`
    for mth in parent_cls.methods.values():
        for mt_ in nodes_in(mth, ast.Match):
            for case in mt_.cases:
                caps = {}
                for p_ in ast.walk(case.pattern):
                    if isinstance(p_, ast.MatchMapping):
                        for k_, v_ in zip(p_.keys, p_.patterns):
                            if isinstance(k_, ast.Constant) and k_.value in written_vals and isinstance(v_, ast.MatchAs) and v_.name and v_.pattern is None:
                                caps[v_.name] = k_.value
                if case.guard is None or not caps:
                    continue
                stack = [case.guard]
                while stack:
                    t_ = stack.pop()
                    if isinstance(t_, ast.UnaryOp) and isinstance(t_.op, ast.Not):
                        stack.append(t_.operand)
                        continue
                    if isinstance(t_, ast.BoolOp):
                        stack.extend(t_.values)
                        continue
                    if isinstance(t_, ast.Name) and t_.id in caps:
                        key = caps[t_.id]
                        ok = all(never_falsy(v) for v in written_vals[key])
                        res.add(mth, case.guard, f"the `{key}` message is recognised by the presence of its key (`is not None` / `in`), or its value can never be falsy", ok,
                                "" if ok else f"the guard `{ast.unparse(case.guard)[:60]}` tests the value's truth: the child can send `{ast.unparse(written_vals[key][0])[:40]}` which may be empty - the message is then ignored and both sides wait",
                                construct=f"{mth.name}: presence test of `{key}`")
    for mth in parent_cls.methods.values():
        gets = {}
        for call in calls_in(mth):
            if isinstance(call.func, ast.Attribute) and call.func.attr == "get" and call.args and isinstance(call.args[0], ast.Constant) and call.args[0].value in written_vals:
                gets[id(call)] = (call, call.args[0].value)
        if not gets:
            continue
        bound: dict[str, str] = {}
        for n_ in ast.walk(mth.node):
            if isinstance(n_, ast.NamedExpr) and id(n_.value) in gets and isinstance(n_.target, ast.Name):
                bound[n_.target.id] = gets[id(n_.value)][1]
            if isinstance(n_, ast.Assign) and id(n_.value) in gets and len(n_.targets) == 1 and isinstance(n_.targets[0], ast.Name):
                bound[n_.targets[0].id] = gets[id(n_.value)][1]
        for n_ in ast.walk(mth.node):
            if not isinstance(n_, (ast.If, ast.IfExp, ast.While)):
                continue
            stack = [n_.test]
            while stack:
                t_ = stack.pop()
                if isinstance(t_, ast.UnaryOp) and isinstance(t_.op, ast.Not):
                    stack.append(t_.operand)
                    continue
                if isinstance(t_, ast.BoolOp):
                    stack.extend(t_.values)
                    continue
                key = None
                if id(t_) in gets:
                    key = gets[id(t_)][1]
                elif isinstance(t_, ast.NamedExpr) and id(t_.value) in gets:
                    key = gets[id(t_.value)][1]
                elif isinstance(t_, ast.Name) and t_.id in bound:
                    key = bound[t_.id]
                if key is None:
                    continue
                ok = all(never_falsy(v) for v in written_vals[key])
                res.add(mth, n_, f"the `{key}` message is recognised by the presence of its key (`is not None` / `in`), or its value can never be falsy", ok,
                        "" if ok else f"`{ast.unparse(t_)[:60]}` tests the value's truth: the child can send `{ast.unparse(written_vals[key][0])[:40]}` which may be empty - the message is then ignored and both sides wait",
                        construct=f"{mth.name}: presence test of `{key}`")
    # no rounding / formatting of numbers on the path
    forbidden = {"round", "format"}
    forbidden_np = {"numpy.round", "numpy.around", "numpy.float32", "numpy.float16", "numpy.format_float_positional", "numpy.format_float_scientific", "numpy.array2string"}
    for c in (parent_cls, child_cls):
        for mth in c.methods.values():
            for call in calls_in(mth):
                t = ctx.X.at(mth, call.func)
                bad = (t[0] == "builtin" and t[1] in forbidden) or (t[0] == "global" and t[1] in forbidden_np) or (
                    t[0] == "attr" and t[2] in ("round", "astype", "format"))
                if bad:
                    res.add(mth, call, "numbers cross the pipe without rounding or re-formatting", False,
                            f"`{norm_stmt(call)}` alters floating point values on the message path")
    # arrays are serialised with tolist() (repr-exact through json)
    n_tolist = 0
    for c in (parent_cls, child_cls):
        for mth in c.methods.values():
            for call in calls_in(mth):
                if isinstance(call.func, ast.Attribute) and call.func.attr == "tolist":
                    n_tolist += 1
    res.add(handler, handler.node, "arrays are serialised with ndarray.tolist() (exact through json's repr)", n_tolist >= 4,
            "" if n_tolist >= 4 else f"only {n_tolist} tolist() serialisations found", construct="tolist serialisation")
    res.floor = 9
    return res


# --------------------------------------------------------------------- C20.5
@rule(P)
def c20_5(ctx: Ctx) -> RuleResult:
    res = RuleResult("C20.5", "DOM", "every waiting loop tests peer liveness in each iteration")
    live_names = _liveness_methods(ctx)
    # calls that wait for the peer: pipe I/O, sleeping, and the package methods that do pipe I/O
    waiting = {"read", "write", "sleep", "select"}
    for f_ in ctx.repo.funcs_in(MOD):
        if f_.cls is not None and any(isinstance(x, ast.Call) and isinstance(x.func, ast.Attribute) and x.func.attr in ("read", "write") for x in ast.walk(f_.node)):
            if f_.name not in ("read", "write", "run", "start"):
                waiting.add(f_.name)
    for f in ctx.repo.funcs_in(MOD):
        for w in nodes_in(f, ast.While):
            if getattr(w, "_synthetic", False):
                continue
            body_calls = [c for s in list(w.body) + [w.test] for c in ast.walk(s) if isinstance(c, ast.Call)]
            waits = any(
                isinstance(c.func, ast.Attribute) and c.func.attr in waiting
                for c in body_calls
            )
            if not waits:
                continue

            def liveness(n: ast.AST) -> bool:
                for c in ast.walk(n):
                    if isinstance(c, ast.Call) and isinstance(c.func, ast.Attribute) and c.func.attr in live_names:
                        return True
                    if isinstance(c, ast.Call) and dotted(c.func) == "os.kill" and len(c.args) == 2 and isinstance(c.args[1], ast.Constant) and c.args[1].value == 0:
                        return True
                return False

            # `check(); while not done(): check()` tests the peer before every attempt as well
            prev = None
            par = parent(w)
            for fld in ("body", "orelse", "finalbody"):
                lst = getattr(par, fld, None)
                if isinstance(lst, list) and any(x is w for x in lst):
                    i_ = next(i for i, x in enumerate(lst) if x is w)
                    prev = lst[i_ - 1] if i_ > 0 else None
            ok = liveness(w.test) or (bool(w.body) and liveness(w.body[0])) or (prev is not None and liveness(prev) and any(liveness(s_) for s_ in w.body))
            res.add(f, w, "the loop condition or the first statement of the body tests that the peer process is alive", ok,
                    "" if ok else "a waiting loop without a liveness test can hang forever when the peer dies",
                    construct=f"{f.name}: while {ast.unparse(w.test)[:50]}")
    res.floor = 3
    return res


# --------------------------------------------------------------------- C20.6
@rule(P)
def c20_6(ctx: Ctx) -> RuleResult:
    res = RuleResult("C20.6", "TABLE", "the external optimizer reports the wrapped method's own capabilities (allow_nan, is_parallel): the parent takes the same decisions as an in-process run")
    X = ctx.X
    base = ctx.repo.cls("ropt.plugins.optimizer.base.Optimizer")
    props = [n for n, m in base.methods.items() if m.is_property]
    m_ = ctx.repo.module(MOD)
    ext = None
    for c in m_.classes.values():
        if ctx.repo.is_subclass(c, base.qualname) and "start" in c.methods:
            ext = c
    if ext is None:
        raise AnalysisError("external optimizer class not found")
    for pn in props:
        pm = ext.methods.get(pn)
        if pm is None:
            res.add(None, ext.node, f"`{pn}` is implemented", False, construct=f"external: {pn}", where=m_.relpath, fname=ext.qualname)
            continue
        rt = X.return_term(pm)
        ok = False
        why = f"`{pn}` returns `{show(rt, 60)}`"
        if rt[0] == "attr" and rt[1][0] == "param":
            fld = rt[2]
            vals = ctx.cg.field_values(ext, fld)
            ok = bool(vals) and all(v[0] == "attr" and v[2] == pn and v[1][0] == "call" for v in vals)
            if not ok:
                why = f"`{pn}` is served from `self.{fld}`, which is assigned `{[show(v, 50) for v in vals]}` instead of the wrapped optimizer's `.{pn}`"
        res.add(pm, pm.node, f"`{pn}` is the `{pn}` of the optimizer created for the wrapped method", ok, "" if ok else why, construct=f"external: {pn} delegation")
    # the wrapped method is created from the part of the method string after the plug-in name, on both sides
    makers = []
    for f in ctx.repo.funcs_in(MOD):
        for c in calls_in(f):
            if isinstance(c.func, ast.Attribute) and c.func.attr == "get_plugin":
                makers.append((f, c))
    for f, c in makers:
        t = X.at(f, c)
        # (plugin type, method) whether passed by position or by keyword
        kw_ = dict(t[3])
        a0 = t[2][0] if len(t[2]) > 0 else kw_.get("plugin_type")
        arg = t[2][1] if len(t[2]) > 1 else kw_.get("method")
        ok = arg is not None and arg[0] == "sub" and arg[2] == ("const", 1) and "split" in show(arg) and a0 == ("const", "optimizer")
        res.add(f, c, "parent and child look up the wrapped method as the part after 'external/'", ok, "" if ok else f"lookup argument `{show(arg, 60) if arg else '?'}`", construct=f"{f.name}: wrapped method lookup")
    res.floor = 3
    return res


# --------------------------------------------------------------------- C20.7
_EXIT_CALLS = {"sys.exit", "os._exit", "exit", "quit"}


def _handler_masks_signal(handler: ast.AST, module_tree: ast.AST) -> str | None:
    """A signal handler that turns death-by-signal into a zero exit status (or ignores the signal): returns the
    reason, or None.  `handler` is the second argument of signal.signal."""
    if isinstance(handler, ast.Attribute) and handler.attr == "SIG_IGN":
        return "the signal is ignored"
    body = None
    if isinstance(handler, ast.Lambda):
        body = [handler.body]
    elif isinstance(handler, ast.Name):
        for n in ast.walk(module_tree):
            if isinstance(n, (ast.FunctionDef, ast.AsyncFunctionDef)) and n.name == handler.id:
                body = n.body
    if body is None:
        return None
    for s in body:
        for x in ast.walk(s):
            if isinstance(x, ast.Call) and (dotted(x.func) or "") in _EXIT_CALLS:
                a = x.args[0] if x.args else None
                if a is None or (isinstance(a, ast.Constant) and a.value in (0, None)):
                    return f"its handler leaves with `{ast.unparse(x)}` (exit status 0)"
            if isinstance(x, ast.Raise) and isinstance(x.exc, ast.Call) and (dotted(x.exc.func) or "") == "SystemExit":
                a = x.exc.args[0] if x.exc.args else None
                if a is None or (isinstance(a, ast.Constant) and a.value in (0, None)):
                    return f"its handler raises `{ast.unparse(x.exc)}` (exit status 0)"
    return None


def _signal_installs(tree: ast.AST):
    for n in ast.walk(tree):
        if isinstance(n, ast.Call) and (dotted(n.func) or "").endswith("signal.signal") and len(n.args) == 2:
            yield n


@rule(P)
def c20_7(ctx: Ctx) -> RuleResult:
    res = RuleResult("C20.7", "DOM", "abnormal death stays visible: the abort exception is catchable by the deferring handler, and no signal handler turns a fatal signal into exit status 0")
    # (a) the exception ropt uses to end a run is an Exception, so that `except Exception` around the evaluator call
    #     (the abort hand-shake of the parent) sees it; a BaseException would leave start() with the child running
    exc = ctx.repo.classes.get("ropt.exceptions.OptimizationAborted")
    if exc is None:
        raise AnalysisError("ropt.exceptions.OptimizationAborted not found")
    narrow = []
    for f in ctx.repo.funcs_in(MOD):
        for h in nodes_in(f, ast.ExceptHandler):
            if h.name and any(isinstance(n_, ast.Assign) and isinstance(n_.value, ast.Name) and n_.value.id == h.name for s_ in h.body for n_ in ast.walk(s_)):
                classes = cfg_of(ctx.repo, f)._handler_classes(h)
                if classes is not None and "BaseException" not in classes:
                    narrow.append((f, h, classes))
    chain, cur, seen = [], exc, set()
    while cur is not None and cur.qualname not in seen:
        seen.add(cur.qualname)
        nxt = None
        for b in cur.node.bases:
            d = dotted(b) or ""
            chain.append(d)
            q = ctx.repo.classes.get(d) or next((c_ for c_ in ctx.repo.classes.values() if c_.name == d), None)
            if q is not None:
                nxt = q
        cur = nxt
    is_exc = "Exception" in chain or any(c_.endswith("Error") or c_ in ("RuntimeError", "ValueError") for c_ in chain)
    for f, h, classes in narrow:
        res.add(f, h, "OptimizationAborted (raised by the callback on max_functions / user abort / too few realizations) is caught by the deferring handler", is_exc,
                "" if is_exc else f"OptimizationAborted derives from {chain} and the deferring handler catches only {sorted(classes)}: an abort raised in the parent's callback "
                "leaves start() at once; the child is neither told to abort nor terminated and keeps running after the step has returned",
                construct="deferring handler: catches the abort exception")
    if not narrow:
        res.add(exc.methods.get("__init__") or next(iter(ctx.repo.funcs_in(MOD))), exc.node, "the deferring handler catches BaseException (nothing to decide)", True, construct="deferring handler: catches the abort exception",
                where=exc.module.relpath, fname=exc.qualname)
    # (b) expected count zero: signal handlers in the child's module that exit with status 0 or ignore the signal
    mod = ctx.repo.modules.get(MOD)
    if mod is None:
        raise AnalysisError(f"{MOD} not found")
    # positive example that has to match on every run (the rule's own sensitivity)
    probe = ast.parse("import signal, sys\nsignal.signal(signal.SIGTERM, lambda *_: sys.exit(0))\n")
    if not any(_handler_masks_signal(c_.args[1], probe) for c_ in _signal_installs(probe)):
        raise AnalysisError("C20.7 self-test: the masking-handler pattern no longer matches its positive example")
    bad = [(c_, _handler_masks_signal(c_.args[1], mod.tree)) for c_ in _signal_installs(mod.tree)]
    bad = [(c_, why) for c_, why in bad if why]
    anyf = next(iter(ctx.repo.funcs_in(MOD)))
    ok = not bad
    res.add(anyf, bad[0][0] if bad else mod.tree, "no signal handler of the optimizer process converts a fatal signal into a zero exit status", ok,
            "" if ok else f"`{ast.unparse(bad[0][0])[:80]}`: {bad[0][1]}; the parent recognises abnormal death only by a non-zero exit status, so a killed optimizer process is reported as normal completion",
            construct="child signal handlers", where=mod.relpath, fname=MOD)
    res.floor = 2
    return res
