"""C04 - CVaR filter weights realize the tail expectation over the worst fraction.
C05 shares the filter plumbing (see c05.py).

  C04.1 SIGN  every value stored into the returned weights is >= 0
  C04.2 TERM  mass bookkeeping: p_max = 1/n, n_var = floor(p n), remainder at n_var iff n_var < n
  C04.3 DOM   1/n is guarded against n == 0 (no ZeroDivisionError when all failed)
  C04.4 TERM  failed realizations are excluded from the ranking
  C04.5 ENUM  ranking direction per flavour and per bound kind
  C04.6 DOM   no positive weight -> TOO_FEW_REALIZATIONS before any weights are returned
"""

from __future__ import annotations

import ast

from ..callgraph import positional_args
from ..cfg import cfg_of
from ..core import META, Ctx, RuleResult, rule
from ..dataflow import dataflow_of
from ..model import AnalysisError, Func, norm_stmt, parent
from ..paths import PathFinder, describe_path
from ..pattern import C, G, V, add, call, div, match, mul, neg, norm
from ..terms import Term, alts, contains, ends_with_attrs, root_of, show, subterms
from ..util import calls_in, nodes_in
from .c14 import check_division
from .common import FILT

P = "C04"
MOD = "ropt.plugins.realization_filter.default"

META[P] = {
    "explanation": (
        "Sign-domain interpretation of every value stored into the CVaR weight vector, reference terms for the mass bookkeeping and the exclusion of "
        "failed realizations, a zero-divisor guard rule, a monotonicity domain evaluated per bound kind for the ranking direction, and dominance of the "
        "positive-weight guard over every return of get_realization_weights."
    ),
    "not_decided": ["the tail-mean value itself (follows from these clauses plus C01)", "behaviour within one ulp beyond the sign"],
}


def cvar_kernel(ctx: Ctx) -> Func:
    for f in ctx.repo.funcs_in(MOD):
        if f.cls is None and "percentile" in f.params:
            return f
    raise AnalysisError("CVaR weight kernel (function with a `percentile` parameter) not found")


def sort_kernel(ctx: Ctx) -> Func:
    for f in ctx.repo.funcs_in(MOD):
        if f.cls is None and {"first", "last"} <= set(f.params):
            return f
    raise AnalysisError("sort-filter kernel (function with `first`/`last` parameters) not found")


# ------------------------------------------------------------------ sign domain
def sign(ctx: Ctx, t: Term, depth: int = 0) -> str:
    """'pos' | 'nonneg' | 'any' (IEEE: a - b is 'any' even if a >= b mathematically)."""
    if depth > 20:
        return "any"
    S = lambda x: sign(ctx, x, depth + 1)  # noqa: E731
    k = t[0]
    if k == "const":
        if isinstance(t[1], (int, float)) and not isinstance(t[1], bool):
            return "pos" if t[1] > 0 else ("nonneg" if t[1] == 0 else "any")
        return "any"
    if k == "attr" and t[2] in ("size", "ndim"):
        return "nonneg"
    if k == "phi":
        ss = [S(a) for a in t[1]]
        return "pos" if all(s == "pos" for s in ss) else ("nonneg" if all(s in ("pos", "nonneg") for s in ss) else "any")
    if k in ("binop", "aug"):
        op, l, r = t[1], S(t[2]), S(t[3])
        if op in ("*", "/", "+", "**", "//"):
            if op == "+":
                if l == "pos" and r in ("pos", "nonneg") or r == "pos" and l in ("pos", "nonneg"):
                    return "pos"
            if op in ("*", "/", "//", "**") and l == "pos" and r == "pos":
                return "pos" if op != "//" else "nonneg"
            if l in ("pos", "nonneg") and r in ("pos", "nonneg"):
                return "nonneg"
        return "any"
    if k == "call":
        fn = t[1]
        if fn[0] == "builtin" and fn[1] in ("int", "float", "len", "round") and t[2]:
            if fn[1] == "len":
                return "nonneg"
            s = S(t[2][0])
            return "nonneg" if s in ("pos", "nonneg") else "any"
        if fn[0] == "builtin" and fn[1] == "abs":
            return "nonneg"
        if (fn[0] == "builtin" and fn[1] == "max") or fn == ("global", "numpy.maximum"):
            ss = [S(a) for a in t[2]]
            return "pos" if "pos" in ss else ("nonneg" if "nonneg" in ss else "any")
        if (fn[0] == "builtin" and fn[1] == "min") or fn == ("global", "numpy.minimum"):
            ss = [S(a) for a in t[2]]
            return "pos" if all(s == "pos" for s in ss) else ("nonneg" if all(s in ("pos", "nonneg") for s in ss) else "any")
        if fn == ("global", "numpy.clip") and len(t[2]) >= 2:
            lo = S(t[2][1])
            return lo if lo in ("pos", "nonneg") else "any"
        if fn[0] == "global" and fn[1] in ("numpy.abs", "numpy.count_nonzero", "numpy.zeros", "numpy.ones", "math.floor"):
            if fn[1] == "math.floor":
                return "nonneg" if S(t[2][0]) in ("pos", "nonneg") else "any"
            return "nonneg"
        if fn[0] == "attr" and fn[2] in ("clip",) and t[2]:
            lo = S(t[2][0])
            return lo if lo in ("pos", "nonneg") else "any"
        return "any"
    if k == "param":
        # annotated/validated ranges of the kernel's own parameters
        if t[2] == "percentile":
            return "pos"  # Field(gt=0.0, le=1.0)
        return "any"
    if k == "ifexp":
        a, b = S(t[2]), S(t[3])
        if a in ("pos", "nonneg") and b in ("pos", "nonneg"):
            return "nonneg"
        # a clamp written as a conditional expression: `0.0 if x < 0 else x`, `x if x >= 0 else 0.0`
        c = norm(t[1])
        if c[0] == "cmp" and c[1] in ("<", "<="):
            lo, hi = c[2], c[3]
            zero = lambda y: y[0] == "const" and y[1] == 0 and not isinstance(y[1], bool)  # noqa: E731
            if zero(hi) and norm(t[3]) == lo and a in ("pos", "nonneg"):
                return "nonneg"  # x < 0 -> a (>= 0), else x (>= 0 on this branch)
            if zero(lo) and norm(t[2]) == hi and b in ("pos", "nonneg"):
                return "nonneg"  # 0 < x -> x, else b (>= 0)
        return "any"
    return "any"


def stores_in(t: Term):
    """(index, value) of every subscript store in the history of an array term."""
    out = []
    seen = set()

    def rec(x):
        if x in seen:
            return
        seen.add(x)
        if x[0] == "update":
            out.append((x[3], x[4]))
            rec(x[1])
        elif x[0] == "phi":
            for a in x[1]:
                rec(a)
        elif x[0] in ("mut", "aug"):
            rec(x[1] if x[0] == "mut" else x[2])
        elif x[0] == "call" and x[1] == ("global", "numpy.where") and len(x[2]) == 3 and _is_zeros(x[2][2]):
            # out-of-place: `where(selected, A, zeros(n))` with `selected = zeros(n, bool); selected[I] = True`
            # is `w = zeros(n); w[I] = A[I]`
            m_ = x[2][0]
            if m_[0] == "update" and m_[4] == ("const", True) and _is_zeros(m_[1]):
                out.append((m_[3], ("sub", x[2][1], m_[3])))

    rec(t)
    return out


def _is_zeros(t: Term) -> bool:
    while t[0] == "mut":
        t = t[1]
    return (t[0] == "call" and t[1] in (("global", "numpy.zeros"), ("global", "numpy.zeros_like"))) or t in (("const", 0), ("const", 0.0), ("const", False))


@rule(P)
def c04_1(ctx: Ctx) -> RuleResult:
    res = RuleResult("C04.1", "SIGN", "every value written into the CVaR weight vector is non-negative under IEEE arithmetic")
    f = cvar_kernel(ctx)
    rt = ctx.X.return_term(f)
    sts = stores_in(rt)
    if len(sts) < 2:
        raise AnalysisError("expected the 1/n store and the remainder store in the CVaR kernel")
    for idx, val in sts:
        s = sign(ctx, val)
        ok = s in ("pos", "nonneg")
        node = None
        for n in nodes_in(f, ast.Assign):
            if isinstance(n.targets[0], ast.Subscript) and ctx.X.at(f, n.value) == val:
                node = n
        res.add(f, node or f.node, "stored weight is >= 0 (sign domain: differences are of unknown sign unless clamped)", ok,
                "" if ok else f"`{show(val, 90)}` can be negative by rounding (e.g. p=0.3, n=10 gives -5.6e-17): a negative weight, and an extra 'active' realization",
                construct=f"{f.name}: store {show(val, 70)}")
    # base array is zeros
    bases = [a for a in subterms(rt) if a[0] == "call" and a[1] == ("global", "numpy.zeros")]
    res.add(f, f.node, "the weight vector starts as zeros (exactly zero elsewhere)", bool(bases), construct=f"{f.name}: zeros base")
    res.floor = 3
    return res


@rule(P)
def c04_2(ctx: Ctx) -> RuleResult:
    res = RuleResult("C04.2", "TERM", "mass bookkeeping: 1/n on the first floor(p*n) ranked successes, the remainder p - floor(p*n)/n on the next one iff it exists; one n throughout")
    X = ctx.X
    f = cvar_kernel(ctx)
    rt = X.return_term(f)
    sts = stores_in(rt)
    pct = ("param", f.qualname, "percentile")
    # n = <indices>.size with indices truncated to the success count
    sizes = {s for s in subterms(rt) if s[0] == "attr" and s[2] == "size" and contains(s, lambda x: x[0] == "call" and x[1] == ("global", "numpy.argsort"))}
    ok = len(sizes) == 1
    res.add(f, f.node, "a single n (= number of ranked successes) is used for 1/n, floor(p*n) and the bound test", ok,
            "" if ok else f"{len(sizes)} different sizes are used: {[show(s, 60) for s in sizes]}", construct=f"{f.name}: one n")
    if not ok:
        return res
    n = next(iter(sizes))
    ind = n[1]
    nvar = call(("builtin", "int"), mul(pct, n))
    nvar2 = call("math.floor", mul(pct, n))
    pmax = div(C(1.0), n)
    found_head = found_rem = False
    for idx, val in sts:
        ni, nv = norm(idx), norm(val)
        # head: indices[:n_var] <- 1/n
        if ni[0] == "sub" and ni[1] == norm(ind) and ni[2][0] == "slice" and ni[2][1] == C(None) and ni[2][2] in (norm(nvar), norm(nvar2)):
            found_head = match(nv, norm(pmax)) is not None or match(nv, div(C(1), norm(n))) is not None
        # remainder: indices[n_var] <- p - n_var * p_max
        if ni[0] == "sub" and ni[1] == norm(ind) and ni[2] in (norm(nvar), norm(nvar2)):
            core = nv
            # see through a clamp max(x, 0)
            for s in subterms(nv):
                m = match(s, add(pct, neg(mul(V("k"), V("pm")))))
                if m is not None:
                    for k_, pm_ in ((m["k"], m["pm"]), (m["pm"], m["k"])):
                        if k_ in (norm(nvar), norm(nvar2)) and pm_ in (norm(pmax), div(C(1), norm(n))):
                            found_rem = True
    res.add(f, f.node, "the first floor(p*n) ranked realizations get 1/n", found_head, "" if found_head else "head store is not `weights[indices[:int(p*n)]] = 1/n`", construct=f"{f.name}: head mass")
    res.add(f, f.node, "the next ranked realization gets p - floor(p*n)/n", found_rem, "" if found_rem else "remainder store is not `weights[indices[int(p*n)]] = p - int(p*n)/n`", construct=f"{f.name}: remainder mass")
    # remainder only when n_var < n
    guard = False
    for nd in nodes_in(f, ast.If):
        t = norm(X.value_at(f, nd.test))
        if t[0] == "cmp" and t[1] == "<" and t[2] in (norm(nvar), norm(nvar2)) and t[3] == norm(n):
            guard = any(isinstance(s, ast.Assign) and isinstance(s.targets[0], ast.Subscript) for s in nd.body)
    res.add(f, f.node, "the remainder is stored iff floor(p*n) < n", guard, "" if guard else "remainder store is not guarded by `n_var < n` (IndexError / mass beyond p)", construct=f"{f.name}: remainder guard")
    res.floor = 4
    return res


@rule(P)
def c04_3(ctx: Ctx) -> RuleResult:
    res = RuleResult("C04.3", "DOM", "the division by the number of successes is guarded: all-failed ensembles end with TOO_FEW_REALIZATIONS, not ZeroDivisionError")
    k_ = cvar_kernel(ctx)
    n = 0
    # the kernel and the private functions of its module it is split into
    region = [k_] + [g for g in ctx.cg.reachable([k_], include_nested_values=False) if g is not k_ and g.module is k_.module and g.cls is None and g.name.startswith("_")]
    for f in region:
        for nd in nodes_in(f, (ast.BinOp, ast.AugAssign)):
            if isinstance(nd.op, (ast.Div, ast.FloorDiv, ast.Mod)):
                before = len(res.instances)
                check_division(ctx, res, f, nd, nd.right if isinstance(nd, ast.BinOp) else nd.value)
                n += len(res.instances) - before
    for i in res.instances:
        i.rule = "C04.3"
    if n == 0:
        raise AnalysisError("no Python-scalar division found in the CVaR kernel")
    return res


@rule(P)
def c04_4(ctx: Ctx) -> RuleResult:
    """The CVaR kernel's instances (the sort kernel's are C05.1's; C14.7 uses both)."""
    res = ranking_of_successes(ctx)
    ck = cvar_kernel(ctx)
    res.instances = [i for i in res.instances if i.func == ck.qualname or ck.name in i.construct]
    res.floor = 2
    return res


def ranking_of_successes(ctx: Ctx) -> RuleResult:
    res = RuleResult("C04.4", "TERM", "failed realizations are never ranked: values are NaN under `failed`, argsorted, truncated to the number of successes")
    X = ctx.X
    for f in (cvar_kernel(ctx), sort_kernel(ctx)):
        rt = X.return_term(f)
        failed = None
        for p in f.params:
            if "failed" in p:
                failed = ("param", f.qualname, p)
        if failed is None:
            raise AnalysisError(f"{f.name}: the ranking kernel has no failure-flags parameter")
        vals = ("param", f.qualname, f.positional[0])
        ref = ("sub", call("numpy.argsort", call("numpy.where", failed, G("numpy.nan"), vals)),
               ("slice", C(None), call("numpy.count_nonzero", ("unary", "~", failed)), C(None)))
        ok = any(norm(s) == norm(ref) for s in subterms(rt))
        res.add(f, f.node, "ranking == argsort(where(failed, nan, values))[: count_nonzero(~failed)]", ok,
                "" if ok else "failed realizations can be ranked (NaN not forced / not truncated to the success count)", construct=f"{f.name}: ranking of successes")
        # the callers compute the failure flags from the raw evaluator values
        for g, c_ in ctx.cg.callers(f):
            ct = X.at(g, c_)
            farg = None
            fi = [i for i, p in enumerate(f.positional) if "failed" in p]
            pa_ = positional_args(f, ct)
            if fi and fi[0] < len(pa_):
                farg = pa_[fi[0]]
            raw = [("param", g.qualname, p) for p in g.params if p not in ("self",)]
            ok3 = (
                farg is not None and farg[0] == "call" and farg[1] == G("numpy.isnan") and farg[2]
                and farg[2][0][0] == "sub" and farg[2][0][1] in raw
            )
            res.add(g, c_, "the failure flags passed to the kernel are isnan(<raw values>[..., 0]) of the unmodified evaluator values", ok3,
                    "" if ok3 else f"failure flags are `{show(farg, 80) if farg else '?'}`: computed after the NaN values were replaced (or from other data), failed realizations are ranked as if they had succeeded",
                    construct=f"{g.name}: failure flags for {f.name}")
        # all index uses derive from that truncated ranking
        idxs = [i for i, _v in stores_in(rt)]
        ok2 = bool(idxs) and all(contains(i, lambda s: norm(s) == norm(ref)) for i in idxs)
        res.add(f, f.node, "every weight store is indexed through the truncated ranking", ok2, "" if ok2 else "a store bypasses the ranking of successes", construct=f"{f.name}: stores use ranking")
    return res


# ------------------------------------------------------------- C04.5 direction
def mono(t: Term, env) -> str:
    """Monotonicity class of t as a function of the ranked value c:
    inc | dec | const | ninf | pinf | vee (distance-like) | cap | unknown."""
    k = t[0]
    e = env(t)
    if e is not None:
        return e
    if k == "const":
        return "const"
    if k == "unary" and t[1] == "-":
        return {"inc": "dec", "dec": "inc", "const": "const", "ninf": "pinf", "pinf": "ninf", "vee": "cap", "cap": "vee"}.get(mono(t[2], env), "unknown")
    if k in ("binop", "aug") and t[1] in ("+", "-"):
        l, r = mono(t[2], env), mono(t[3], env)
        if t[1] == "-":
            r = {"inc": "dec", "dec": "inc", "const": "const", "ninf": "pinf", "pinf": "ninf", "vee": "cap", "cap": "vee"}.get(r, "unknown")
        if "unknown" in (l, r):
            return "unknown"
        if l in ("ninf", "pinf"):
            return l if r not in ("ninf", "pinf") or r == l else "unknown"
        if r in ("ninf", "pinf"):
            return r
        if l == "const":
            return r
        if r == "const":
            return l
        return l if l == r else "unknown"
    if k in ("binop",) and t[1] == "*":
        l, r = mono(t[2], env), mono(t[3], env)
        if l == "const" and r == "const":
            return "const"
        return "unknown"
    if k == "call":
        fn = t[1]
        if fn[0] == "phi" and all(a[0] == "attr" for a in fn[1]) and len({a[2] for a in fn[1]}) == 1:
            from ..terms import phi as _phi

            fn = ("attr", _phi(a[1] for a in fn[1]), fn[1][0][2])
        name = fn[1] if fn[0] in ("global", "builtin") else (fn[2] if fn[0] == "attr" else "")
        args = list(t[2])
        if fn[0] == "attr":
            args = [fn[1]] + args
        if name in ("numpy.maximum", "max"):
            ms = [mono(a, env) for a in args]
            ms = [m for m in ms if m != "ninf"]
            if not ms:
                return "ninf"
            if "pinf" in ms:
                return "pinf"
            if "unknown" in ms:
                return "unknown"
            s = set(ms) - {"const"}
            if not s:
                return "const"
            if s == {"inc"} or s == {"dec"}:
                return next(iter(s))
            if s <= {"inc", "dec", "vee"}:
                return "vee"
            return "unknown"
        if name in ("numpy.minimum", "min"):
            ms = [mono(a, env) for a in args]
            ms = [m for m in ms if m != "pinf"]
            if not ms:
                return "pinf"
            if "ninf" in ms:
                return "ninf"
            s = set(ms) - {"const"}
            if not s:
                return "const"
            if s == {"inc"} or s == {"dec"}:
                return next(iter(s))
            if s <= {"inc", "dec", "cap"}:
                return "cap"
            return "unknown"
        if name in ("numpy.abs", "abs", "numpy.fabs", "numpy.absolute"):
            m = mono(args[0], env)
            return {"inc": "vee", "dec": "vee", "const": "const", "vee": "vee", "ninf": "pinf", "pinf": "pinf"}.get(m, "unknown")
        if name in ("numpy.nan_to_num", "numpy.array", "numpy.asarray", "flatten", "ravel", "copy", "numpy.ravel", "float"):
            return mono(args[0], env)
        if name == "numpy.where" and len(args) == 3:
            c = env(("cond", args[0]))
            if c == "true":
                return mono(args[1], env)
            if c == "false":
                return mono(args[2], env)
            a, b = mono(args[1], env), mono(args[2], env)
            return a if a == b else "unknown"
        return "unknown"
    if k == "ifexp":
        c = env(("cond", t[1]))
        if c == "true":
            return mono(t[2], env)
        if c == "false":
            return mono(t[3], env)
        a, b = mono(t[2], env), mono(t[3], env)
        return a if a == b else "unknown"
    if k == "phi":
        ms = {mono(a, env) for a in t[1]}
        return next(iter(ms)) if len(ms) == 1 else "unknown"
    if k == "sub":
        return mono(t[1], env)
    return "unknown"


BOUND_KINDS = {
    # kind: (lower, upper) classes
    "upper-only": ("ninf", "const"),
    "lower-only": ("const", "pinf"),
    "equality": ("const", "const"),
    "two-sided": ("const", "const"),
}
EXPECTED_KEY = {"upper-only": {"dec"}, "lower-only": {"inc"}, "equality": {"cap"}, "two-sided": {"cap"}}


def _callers_of_kernel(ctx: Ctx, kernel: Func):
    return [(f, c) for f, c in ctx.cg.callers(kernel)]


@rule(P)
def c04_5(ctx: Ctx) -> RuleResult:
    res = RuleResult("C04.5", "ENUM", "ranking direction: objectives by largest weighted sum; constraints by the side their bounds make 'worst' (per bound kind)")
    X = ctx.X
    k = cvar_kernel(ctx)
    sites = _callers_of_kernel(ctx, k)
    if len(sites) < 2:
        raise AnalysisError("expected an objective and a constraint flavour calling the CVaR kernel")
    for f, c in sites:
        t = X.at(f, c)
        key = positional_args(k, t)[0]
        is_con = any("constraint" in p for p in f.params)
        vp = ("param", f.qualname, [p for p in f.params if p != "self"][0])

        def base_env(x, lower=None, upper=None, finl=None, finu=None):
            if x[0] == "cond":
                cnd = x[1]
                txt = show(cnd, 200)
                for nm, val in (("lower", finl), ("upper", finu)):
                    if val is not None and f"isfinite" in txt and nm in txt and txt.count("isfinite") == 1:
                        return "true" if val else "false"
                    if val is not None and "isinf" in txt and nm in txt and txt.count("isinf") == 1:
                        return "false" if val else "true"
                return None
            if x == vp:
                return "inc"
            if x[0] == "attr" and x[2] == "lower_bounds" and lower is not None:
                return lower
            if x[0] == "attr" and x[2] == "upper_bounds" and upper is not None:
                return upper
            if x[0] == "attr" and x[2] in ("weights",):
                return "const"
            if x[0] == "call" and x[1] == ("global", "numpy.dot") and any(a == vp or contains(a, lambda s: s == vp) for a in x[2]):
                # weighted sum with (non-negative, normalised) objective weights
                return "inc"
            return None

        if not is_con:
            m = mono(key, lambda x: base_env(x))
            ok = m == "dec"
            res.add(f, c, "objective flavour: the ranking key decreases with the (weighted) objective, so the largest objectives rank first", ok,
                    "" if ok else f"key `{show(key, 90)}` is `{m}` in the objective: the best instead of the worst realizations are selected", construct=f"{f.name}: objective direction")
            # same `sort` list on values and objective weights
            subs = [s for s in subterms(key) if s[0] == "sub" and contains(s[2], lambda y: y[0] == "attr" and y[2] == "sort")]
            sorts = {s[2][1][-1] if s[2][0] == "tuple" else s[2] for s in subs}
            ok = len(sorts) == 1 and len(subs) >= 2
            res.add(f, c, "the same `sort` index list selects the objective columns and the objective weights", ok,
                    "" if ok else "values and weights are selected with different index lists", construct=f"{f.name}: sort list coherence")
            continue
        reads_bounds = contains(key, lambda s: s[0] == "attr" and s[2] in ("lower_bounds", "upper_bounds"))
        for kind, (lo, up) in BOUND_KINDS.items():
            finl, finu = lo == "const", up == "const"
            m = mono(key, lambda x, lo=lo, up=up, finl=finl, finu=finu: base_env(x, lo, up, finl, finu))
            ok = m in EXPECTED_KEY[kind]
            want = {"upper-only": "largest values", "lower-only": "smallest values", "equality": "values farthest from the target", "two-sided": "values farthest outside / closest to leaving the interval"}[kind]
            res.add(f, c, f"constraint flavour, {kind} bound: the {want} rank first", ok,
                    "" if ok else (f"the ranking key `{show(key, 70)}` never looks at the constraint's bounds and is `{m}` in the value: " if not reads_bounds else f"the key is `{m}` in the value: ")
                    + f"for a {kind} constraint the wrong tail is selected", construct=f"{f.name}: direction for {kind}")
    res.exhaustive = True
    res.floor = 6
    return res


@rule(P)
def c04_6(ctx: Ctx) -> RuleResult:
    res = RuleResult("C04.6", "DOM", "weights are returned only after the test `no positive weight -> raise TOO_FEW_REALIZATIONS`")
    X = ctx.X
    for f in ctx.repo.implementations(FILT, "get_realization_weights"):
        cfg = cfg_of(ctx.repo, f)
        pf = PathFinder(cfg, dataflow_of(ctx.repo, f))
        from ..util import bool_nnf, path_condition

        too_few = [r for r in nodes_in(f, ast.Raise) if r.exc is not None and contains(X.at(f, r.exc), lambda s: s == ("global", "ropt.enums.OptimizerExitCode.TOO_FEW_REALIZATIONS"))]
        rets = [n for n in cfg.nodes if n.kind == "stmt" and isinstance(n.ast, ast.Return) and n in cfg.live_nodes()]
        for r_ in rets:
            rv = norm(X.at(f, r_.ast.value)) if r_.ast.value is not None else ("const", None)
            pc = path_condition(ctx, f, r_.ast)
            lits = []
            if pc:
                g_ = bool_nnf(("bool", "and", tuple(c_ if p_ else ("unary", "not", c_) for c_, p_ in pc)))
                lits = [(it[1], it[2]) for it in (g_[1] if g_[0] == "and" else [g_]) if it[0] == "lit"]
            # the return is reached only where `any(0 < w)` holds (equivalently `all(w <= 0)` fails) for the returned w
            strict = [(a, p) for a, p in lits if (p and match(a, call("numpy.any", ("cmp", "<", C(0), V("w")))) is not None)
                      or ((not p) and match(a, call("numpy.all", ("cmp", "<=", V("w"), C(0)))) is not None)]
            loose = [(a, p) for a, p in lits if contains(a, lambda s_: s_[0] == "call" and s_[1] in (G("numpy.any"), G("numpy.all"), G("numpy.count_nonzero"), G("numpy.sum")))]
            same = [(a, p) for a, p in strict if contains(a, lambda s_: s_ == rv)]
            ok = bool(too_few) and bool(same)
            why = ""
            if not too_few:
                why = "no TOO_FEW_REALIZATIONS guard at all"
            elif not strict and loose:
                why = "the guard is not `not any(weights > 0)` (strict): zero or negative weights pass as a valid selection"
            elif not strict:
                why = "a return is reachable without passing the guard"
            elif not same:
                why = "the guarded vector is not the vector that is returned"
            res.add(f, r_.ast, "the returned weights passed `not any(weights > 0) -> raise TOO_FEW_REALIZATIONS`", ok, why, construct=f"{f.cls.name}.{f.name}: return guarded")
    res.floor = 1
    return res


@rule(P)
def c04_7(ctx: Ctx) -> RuleResult:
    """Shared with C05.5: the value a realization is ranked by is the weighted sum of the chosen objectives."""
    from .c05 import c05_5

    r = c05_5(ctx)  # the objective flavours of both kernels (they may share their key computation)
    for i in r.instances:
        i.rule = "C04.7"
    r.rule, r.title, r.floor = "C04.7", "the objective flavours rank by values[..., sort] . objective_weights[sort] (weights always applied when several objectives are configured)", 2
    return r


@rule(P)
def c04_8(ctx: Ctx) -> RuleResult:
    """Shared with C01.3 / C05.3: "the reported value of the ranked function is the CVaR tail mean" needs the filter's weights
    to arrive at the rows of the functions mapped to the filter - stored, at the mapped rows, kept when later filters run."""
    from .c01 import c01_3

    r = c01_3(ctx)
    r.instances = [i for i in r.instances if "rows of" in i.construct or "filter stores" in i.construct]
    for i in r.instances:
        i.rule = "C04.8"
    r.rule, r.title, r.floor = "C04.8", "the filter's weights reach exactly the objectives and constraints mapped to it and survive later filters", 2
    return r


@rule(P)
def c04_9(ctx: Ctx) -> RuleResult:
    """Shared with C03.1: failure detection reads objective column 0 only, so a NaN anywhere in a
    realization's objectives or constraints has to be propagated to the whole row first."""
    from .c03 import c03_1

    r = c03_1(ctx)
    for i in r.instances:
        i.rule = "C04.9"
    r.rule, r.title = "C04.9", "the CVaR filter sees every failed realization as failed: a NaN in any objective or constraint is propagated to the column its failure test reads"
    return r


@rule(P)
def c04_10(ctx: Ctx) -> RuleResult:
    """Shared with C16.3."""
    from .c16 import c16_3

    r = c16_3(ctx)
    r.instances = [i for i in r.instances if "realization_filter" in (i.where or "") or "realization_filter" in (i.func or "") or "realization_filter" in (i.construct or "")] or r.instances[:1]
    r.floor = 1
    for i in r.instances:
        i.rule = "C04.10"
    r.rule, r.title = "C04.10", "every evaluator gets filters built from its own configuration: the filter factory and plug-in objects keep no state between calls"
    return r
