"""C11 - scaling transforms change optimizer coordinates only, not user-domain behaviour.

  C11.1 TERM  VariableScaler.to_optimizer / from_optimizer are mutual inverses (dual op sequences)
  C11.2 TERM  companions: magnitudes / s; bound diffs * s; linear constraints A*s, b - A o,
              row scaling and its inverse on the differences
  C11.3 DOM   pairing at the evaluator boundary (shared with C06.2)
  C11.4 TABLE transform_from_optimizer maps every field by the transform of its role
  C11.5 TABLE validation with a transform context transforms every quantity of the variable domain
  C11.6 COH   both steps publish back-transformed results as `results`, raw ones as `transformed_results`
"""

from __future__ import annotations

import ast

from ..core import META, Ctx, RuleResult, rule
from ..model import AnalysisError, Cls, Func, norm_stmt, parent
from ..pattern import C, G, V, add, call, div, match, mul, neg, norm
from ..terms import Term, alts, contains, ends_with_attrs, root_of, show, subterms
from ..util import tuple_components, value_alts, calls_in, nodes_in
from .c06 import c06_2
from .c14 import step_run_methods

P = "C11"
SCALER = "ropt.transforms.variable_scaler.VariableScaler"

META[P] = {
    "explanation": (
        "The scaler's forward and backward maps are read as guarded sequences of elementary operations and checked to be dual (inverse operations in "
        "reverse order under the same guards); companion maps are compared with reference terms; a role table is checked exhaustively over the array "
        "fields of every result class for transform_from_optimizer and over the configuration validators for the validation context."
    ),
    "not_decided": ["'up to rounding'", "arbitrary user-supplied transforms (only their call sites and roles are checked)"],
}

INVERSE = {"-": "+", "+": "-", "/": "*", "*": "/"}


def op_sequence(ctx: Ctx, f: Func) -> list[tuple[str, str]] | None:
    """[(op, field)] applied in order to the first data parameter, each under
    `if self.<field> is not None`."""
    p = f.positional[1]
    seq = []
    for s in f.node.body:
        if isinstance(s, ast.Expr):
            continue
        if isinstance(s, ast.If):
            t = s.test
            if not (isinstance(t, ast.Compare) and isinstance(t.ops[0], ast.IsNot) and isinstance(t.left, ast.Attribute)):
                return None
            fld = t.left.attr
            if len(s.body) != 1 or s.orelse:
                return None
            b = s.body[0]
            val = b.value if isinstance(b, (ast.Assign, ast.Return)) else None
            if isinstance(b, ast.AugAssign):
                op = {ast.Add: "+", ast.Sub: "-", ast.Mult: "*", ast.Div: "/"}.get(type(b.op))
                other = b.value
                if not (isinstance(b.target, ast.Name) and b.target.id == p):
                    return None
            elif isinstance(val, ast.BinOp) and isinstance(val.left, ast.Name) and val.left.id == p:
                op = {ast.Add: "+", ast.Sub: "-", ast.Mult: "*", ast.Div: "/"}.get(type(val.op))
                other = val.right
            else:
                return None
            if not (isinstance(other, ast.Attribute) and other.attr == fld) or op is None:
                return None
            seq.append((op, fld))
        elif isinstance(s, ast.Return):
            if not (isinstance(s.value, ast.Name) and s.value.id == p):
                return None
        else:
            return None
    return seq


def scaler_fields(ctx: Ctx) -> dict:
    """Attribute names holding the scales / offsets (assigned from the constructor parameters of
    those names) and the row scaling (the attribute linear_constraints_to_optimizer assigns)."""
    c = ctx.repo.cls(SCALER)
    out = {}
    init = c.methods.get("__init__")
    if init is not None:
        for n in nodes_in(init, (ast.Assign, ast.AnnAssign)):
            tg = n.targets[0] if isinstance(n, ast.Assign) else n.target
            if isinstance(tg, ast.Attribute) and n.value is not None:
                vt = ctx.X.at(init, n.value)
                for role in ("scales", "offsets"):
                    if any(a == ("param", init.qualname, role) for a in alts(vt)):
                        out.setdefault(role, tg.attr)
    lc = c.methods.get("linear_constraints_to_optimizer")
    if lc is not None:
        for n in nodes_in(lc, (ast.Assign, ast.AnnAssign)):
            tg = n.targets[0] if isinstance(n, ast.Assign) else n.target
            if isinstance(tg, ast.Attribute) and isinstance(tg.value, ast.Name) and tg.value.id == lc.positional[0]:
                out["rows"] = tg.attr
    for role in ("scales", "offsets", "rows"):
        if role not in out:
            raise AnalysisError(f"VariableScaler: attribute holding the {role} not found")
    return out


@rule(P)
def c11_1(ctx: Ctx) -> RuleResult:
    res = RuleResult("C11.1", "TERM", "from_optimizer(to_optimizer(x)) == x: inverse elementary operations in reverse order under the same guards")
    c = ctx.repo.cls(SCALER)
    X = ctx.X
    to, fr = c.methods.get("to_optimizer"), c.methods.get("from_optimizer")
    if to is None or fr is None:
        raise AnalysisError("VariableScaler.to_optimizer / from_optimizer not found")
    F = scaler_fields(ctx)

    def alts_of(m):
        x = ("param", m.qualname, m.positional[1])
        sc = ("attr", ("param", m.qualname, m.positional[0]), F["scales"])
        of = ("attr", ("param", m.qualname, m.positional[0]), F["offsets"])
        return x, sc, of, value_alts(X.return_term(m), deep=True)

    x, sc, of, got = alts_of(to)
    want_to = {x, norm(add(x, neg(of))), norm(div(x, sc)), norm(div(add(x, neg(of)), sc))}
    ok_to = got == want_to
    res.add(to, to.node, "to_optimizer == (x - offsets) / scales (each step only when the quantity is set)", ok_to,
            "" if ok_to else f"to_optimizer yields {sorted(show(a, 60) for a in got)}", construct="scaler: to_optimizer")
    x, sc, of, got = alts_of(fr)
    want_fr = {x, norm(mul(x, sc)), norm(add(x, of)), norm(add(mul(x, sc), of))}
    ok = got == want_fr
    res.add(fr, fr.node, "from_optimizer == x * scales + offsets: the inverse operations of to_optimizer in reverse order", ok,
            "" if ok else f"from_optimizer yields {sorted(show(a, 60) for a in got)}: mapping to the optimizer domain and back is not the identity", construct="scaler: inverse pair")
    # each step is taken exactly when its quantity is set: the guards of both maps are `<field> is not None`
    for m in (to, fr):
        tests = [norm(X.value_at(m, n.test)) for n in nodes_in(m, (ast.If, ast.IfExp))]
        sp = ("param", m.qualname, m.positional[0])
        okg = all(t[0] == "cmp" and t[1] in ("is", "is not") and t[3] == ("const", None) and t[2] in (("attr", sp, F["scales"]), ("attr", sp, F["offsets"])) for t in tests) and len(tests) >= 2
        res.add(m, m.node, "a step is applied iff its quantity (scales / offsets) is not None", okg, "" if okg else f"guards are {[show(t, 50) for t in tests]}", construct=f"scaler: guards of {m.name}")
    return res


@rule(P)
def c11_2(ctx: Ctx) -> RuleResult:
    res = RuleResult("C11.2", "TERM", "companion maps of the scaler: magnitudes / s; bound differences * s; linear constraints (A*s, b - A.o) with row normalisation undone on the differences")
    X = ctx.X
    c = ctx.repo.cls(SCALER)

    def P_(m, i):
        return ("param", m.qualname, m.positional[i])

    F = scaler_fields(ctx)
    FN = {"_scales": F["scales"], "_offsets": F["offsets"], "_equation_scaling": F["rows"]}

    def self_attr(m, name):
        return ("attr", ("param", m.qualname, m.positional[0]), FN.get(name, name))

    m = c.methods.get("magnitudes_to_optimizer")
    if m is not None:
        rt = X.return_term(m)
        want = {norm(div(P_(m, 1), self_attr(m, "_scales"))), P_(m, 1)}
        ok = value_alts(rt) == want
        res.add(m, m.node, "magnitudes_to_optimizer == m / scales (unchanged without scales)", ok, "" if ok else f"returns `{show(rt, 80)}`", construct="scaler: magnitudes")
    else:
        res.add(None, c.node, "magnitudes_to_optimizer exists", False, construct="scaler: magnitudes", where=c.module.relpath, fname=c.qualname)
    m = c.methods.get("bound_constraint_diffs_from_optimizer")
    if m is not None:
        rt = X.return_term(m)
        comps = tuple_components(rt, 2)
        ok = comps is not None
        if ok:
            for i in (0, 1):
                want = {norm(mul(P_(m, 1 + i), self_attr(m, "_scales"))), P_(m, 1 + i)}
                ok = ok and comps[i] == want
        res.add(m, m.node, "bound differences are multiplied by the scales, (lower, upper) order kept", ok, "" if ok else f"returns `{show(rt, 100)}`", construct="scaler: bound diffs")
    m = c.methods.get("linear_constraints_to_optimizer")
    if m is not None:
        rt = X.return_term(m)
        A, lo, up = P_(m, 1), P_(m, 2), P_(m, 3)
        sc, of = self_attr(m, "_scales"), self_attr(m, "_offsets")
        ok = rt[0] == "tuple" and len(rt[1]) == 3
        why = "" if ok else "does not return (coefficients, lower, upper)"
        if ok:
            coef, l2, u2 = rt[1]
            # coefficients: (A*s or A) / eq[:, newaxis]
            eq_store = [n for n in nodes_in(m, ast.Assign) if any(isinstance(t, ast.Attribute) and t.attr == F["rows"] for t in n.targets)]
            eq_ok = False
            if eq_store:
                et = norm(X.at(m, eq_store[0].value))
                mm = match(et, call("numpy.max", call("numpy.abs", V("c")), axis=V("ax")))
                eq_ok = mm is not None and mm["ax"] in (C(-1), C(1)) and value_alts(mm["c"]) == {norm(mul(A, sc)), A}
            if not eq_ok:
                ok, why = False, "row scaling is not max(abs(A*s), axis=-1)"
            nc = norm(coef)
            mc = match(nc, div(V("num"), V("den")))
            def is_rowscale(d):
                return contains(d, lambda s: (s[0] == "attr" and s[2] == F["rows"]) or (eq_store and s == et))

            if ok and not (mc is not None and value_alts(mc["num"]) == {norm(mul(A, sc)), A} and is_rowscale(mc["den"])):
                ok, why = False, f"coefficients are `{show(coef, 100)}`, not (A*s) / row_scale"
            for name, b, orig in (("lower", l2, lo), ("upper", u2, up)):
                nb = norm(b)
                mb = match(nb, div(V("num"), V("den")))
                num_ok = mb is not None and value_alts(mb["num"]) == {norm(add(orig, neg(call("numpy.dot", A, of)))), orig}
                if ok and not (num_ok and (mb["den"] == self_attr(m, "_equation_scaling") or mb["den"] == et)):
                    ok, why = False, f"{name} bounds are `{show(b, 100)}`, not (b - A.offsets) / row_scale"
        res.add(m, m.node, "linear constraints: A' = A*s / r, b' = (b - A.o) / r with r = max|A*s| per row", ok, why, construct="scaler: linear constraints")
    m = c.methods.get("linear_constraints_diffs_from_optimizer")
    if m is not None:
        rt = X.return_term(m)
        comps = tuple_components(rt, 2)
        ok = comps is not None
        if ok:
            for i in (0, 1):
                want = {norm(mul(P_(m, 1 + i), self_attr(m, "_equation_scaling"))), P_(m, 1 + i)}
                ok = ok and comps[i] == want
        res.add(m, m.node, "linear differences are multiplied by the row scaling (undoing the normalisation)", ok, "" if ok else f"returns `{show(rt, 100)}`", construct="scaler: linear diffs")
    _optional_field_guards(ctx, res, c)
    res.floor = 4
    return res


def _optional_field_guards(ctx: Ctx, res: RuleResult, c) -> None:
    """Guard consistency of the optional scaler fields: a field the class itself tests against None
    (so it may be None) is used in arithmetic only where that very field is known to be set - under
    `if self.F is not None`, in the matching branch of a conditional expression, after `assert self.F is not None`
    or after a store of a value in the same method.  `if self._scales is not None: x * self._rows` applies the
    row scaling under the wrong condition (skipped for an offset-only scaler, TypeError for an unscaled one)."""
    from ..util import _enclosing_conds, norm_cond, path_condition

    X = ctx.X
    tested: set[str] = set()
    for m in c.methods.values():
        if not m.positional:
            continue
        for n in nodes_in(m, ast.Compare):
            if len(n.ops) == 1 and isinstance(n.ops[0], (ast.Is, ast.IsNot)) and isinstance(n.comparators[0], ast.Constant) and n.comparators[0].value is None \
                    and isinstance(n.left, ast.Attribute) and isinstance(n.left.value, ast.Name) and n.left.value.id == m.positional[0]:
                tested.add(n.left.attr)
    for m in c.methods.values():
        if not m.positional or m.name == "__init__":
            continue
        selfp = ("param", m.qualname, m.positional[0])
        for bn in nodes_in(m, (ast.BinOp, ast.AugAssign)):
            operands = [bn.left, bn.right] if isinstance(bn, ast.BinOp) else [bn.value]
            for op_ in operands:
                for a in ast.walk(op_):
                    if not (isinstance(a, ast.Attribute) and isinstance(a.value, ast.Name) and a.value.id == m.positional[0] and a.attr in tested and isinstance(a.ctx, ast.Load)):
                        continue
                    at = X.at(m, a)
                    if at != ("attr", selfp, a.attr):
                        continue  # assigned earlier in this method: the stored value is used
                    st_ = bn
                    while parent(st_) is not None and not isinstance(st_, ast.stmt):
                        st_ = parent(st_)
                    conds = [norm_cond(t_) if pol else (lambda ap: (ap[0], not ap[1]))(norm_cond(t_)) for t_, pol in path_condition(ctx, m, st_)]
                    conds += list(_enclosing_conds(ctx, m, a))
                    known = False
                    also = None
                    for atom, pol in conds:
                        lits = [(atom, pol)]
                        if atom[0] == "bool" and atom[1] == "and" and pol:
                            lits = [norm_cond(x) for x in atom[2]]
                        for at_, p_ in lits:
                            if at_[0] == "cmp" and at_[1] in ("is", "is not") and C(None) in (at_[2], at_[3]):
                                other = at_[3] if at_[2] == C(None) else at_[2]
                                if other == ("attr", selfp, a.attr) and p_ == (at_[1] == "is not"):
                                    known = True
                                elif other[0] == "attr" and other[1] == selfp and other[2] in tested and other[2] != a.attr and p_ == (at_[1] == "is not"):
                                    # ... and only of that field: `if self._a is not None and self._b is not None: x * self._b`
                                    # skips the map for objects that have _b but not _a
                                    also = other[2]
                    if known and also is not None:
                        res.add(m, bn, f"`self.{a.attr}` is applied whenever it is set (not only when `self.{also}` is set as well)", False,
                                f"`{ast.unparse(bn)[:70]}` runs only if `self.{also}` is set too: the map is skipped for scalers that have `{a.attr}` but no `{also}`",
                                construct=f"{c.name}.{m.name}: optional field {a.attr} also needs {also}")
                    # assert self.F is not None earlier in the same block chain
                    if not known:
                        blk = parent(st_)
                        for fld in ("body", "orelse"):
                            lst = getattr(blk, fld, None)
                            if isinstance(lst, list) and st_ in lst:
                                for prev in lst[:lst.index(st_)]:
                                    if isinstance(prev, ast.Assert) and isinstance(prev.test, ast.Compare) and isinstance(prev.test.ops[0], ast.IsNot) \
                                            and ast.unparse(prev.test.left) == ast.unparse(a):
                                        known = True
                    res.add(m, bn, f"`self.{a.attr}` (tested against None elsewhere in the class) is applied only where it is known to be set", known,
                            "" if known else f"`{ast.unparse(bn)[:70]}` uses `self.{a.attr}` under a condition that does not test it: the map is applied for the wrong scalers",
                            construct=f"{c.name}.{m.name}: optional field {a.attr} in `{ast.unparse(bn)[:40]}`")


@rule(P)
def c11_3(ctx: Ctx) -> RuleResult:
    r = c06_2(ctx)
    for i in r.instances:
        i.rule = "C11.3"
    r.rule, r.title = "C11.3", "the evaluator always works in the user domain: from_optimizer before every call, to_optimizer on its outputs"
    return r


ROLE = {
    "variables": ("variables", "from_optimizer"),
    "perturbed_variables": ("variables", "from_optimizer"),
    "objectives": ("objectives", "from_optimizer"),
    "perturbed_objectives": ("objectives", "from_optimizer"),
    "constraints": ("nonlinear_constraints", "from_optimizer"),
    "perturbed_constraints": ("nonlinear_constraints", "from_optimizer"),
    "weighted_objective": ("objectives", "weighted_objective_from_optimizer"),
}


@rule(P)
def c11_4(ctx: Ctx) -> RuleResult:
    res = RuleResult("C11.4", "TABLE", "transform_from_optimizer: every array field is mapped by the transform of its role (exhaustive over the dataclass fields)")
    X = ctx.X
    base = "ropt.results._result_field.ResultField"
    n_cls = 0
    for c in ctx.repo.subclasses(base):
        m = c.methods.get("transform_from_optimizer")
        if m is None or c.name == "ConstraintInfo":
            continue
        n_cls += 1
        rets = [r for r in nodes_in(m, ast.Return) if isinstance(r.value, ast.Call)]
        ctor = [r for r in rets if X.at(m, r.value.func) == ("global", c.qualname)]
        if not ctor:
            res.add(m, m.node, "a new object of the same class is built from transformed fields", False, "no constructor call", construct=f"{c.name}: constructor")
            continue
        kw = dict(X.at(m, ctor[-1].value)[3])
        for fld, (ann, _d) in c.fields.items():
            if ann is None or "NDArray" not in ast.unparse(ann) or "dict" in ast.unparse(ann):
                continue
            if fld not in ROLE:
                res.add(m, ctor[-1], f"field `{fld}` has a known role", False, f"no transform role is defined for `{fld}`", construct=f"{c.name}.{fld}: role")
                continue
            tr, meth = ROLE[fld]
            v = kw.get(fld)
            ok = v is not None
            why = "" if ok else f"`{fld}` is not passed to the constructor (silently dropped)"
            if ok:
                calls = [s for s in ctx.X.closure(v) if s[0] == "call" and s[1][0] == "attr" and s[1][2].endswith("from_optimizer")]
                good = [s for s in calls if s[1][2] == meth and ends_with_attrs(s[1][1], tr)]
                if not good or len(good) != len(calls):
                    ok, why = False, f"`{fld}` is mapped by {[show(s[1], 60) for s in calls] or 'nothing'} instead of transforms.{tr}.{meth}"
                else:
                    # the transformed value is this object's own field
                    own = all(contains(s[2][0], lambda y: y[0] == "attr" and y[2] == fld) for s in good if s[2])
                    if not own:
                        ok, why = False, f"the value transformed for `{fld}` is another field"
            res.add(m, ctor[-1], f"{c.name}.{fld} -> transforms.{tr}.{meth}", ok, why, construct=f"{c.name}.{fld}: transform role")
    # containers delegate to every member
    for q, members in (("ropt.results._function_results.FunctionResults", ("evaluations", "functions", "constraint_info")), ("ropt.results._gradient_results.GradientResults", ("evaluations", "gradients"))):
        c = ctx.repo.cls(q)
        m = c.methods.get("transform_from_optimizer")
        # on every return: every member is back-transformed with the transforms this method received (a member that can be
        # None only where it is None), realizations are kept.  The returned object is a constructor call of the class or
        # `dataclasses.replace(self, ...)` (fields that are not named keep the value of self).
        if m is None:
            res.add(None, c.node, f"{c.name} has a transform_from_optimizer method", False, construct=f"{c.name}: delegates", where=c.module.relpath, fname=c.qualname)
            continue
        from ..util import bool_nnf, path_condition

        tp = ("param", m.qualname, m.positional[1]) if len(m.positional) > 1 else None
        sp = ("param", m.qualname, m.positional[0])
        verdict = {mem: [] for mem in members + ("realizations",)}
        n_ret = 0
        for r_ in nodes_in(m, ast.Return):
            if r_.value is None:
                continue
            rt = X.force_inline(X.at(m, r_.value), m)
            pc = path_condition(ctx, m, r_)
            lits = []
            if pc:
                g_ = bool_nnf(("bool", "and", tuple(c_ if p_ else ("unary", "not", c_) for c_, p_ in pc)))
                lits = [(it[1], it[2]) for it in (g_[1] if g_[0] == "and" else [g_]) if it[0] == "lit"]
            for alt in (rt[1] if rt[0] == "phi" else [rt]):
                if alt[0] != "call":
                    continue
                if alt[1] == ("global", "dataclasses.replace") and alt[2] and alt[2][0] == sp:
                    kw = {fld: ("attr", sp, fld) for fld in c.fields}
                    kw.update(dict(alt[3]))
                elif alt[1] == ("global", c.qualname):
                    kw = dict(alt[3])
                else:
                    continue
                n_ret += 1

                def is_none_of(cond, mem):
                    """polarity under which `cond` says self.<mem> is None (None: cond is about something else)"""
                    from ..util import norm_cond

                    a_, p_ = norm_cond(cond)
                    if a_[0] == "cmp" and a_[1] == "is" and a_[3] == ("const", None) and a_[2] == ("attr", sp, mem):
                        return p_
                    return None

                def member_ok(v, mem, none_known: bool) -> bool:
                    if v is None:
                        return False
                    if v[0] == "phi":
                        return all(member_ok(x, mem, none_known) for x in v[1])
                    if v[0] == "ifexp":
                        pol = is_none_of(v[1], mem)
                        if pol is None:
                            return member_ok(v[2], mem, none_known) and member_ok(v[3], mem, none_known)
                        return member_ok(v[2], mem, pol) and member_ok(v[3], mem, not pol)
                    if v == ("const", None) or v == ("attr", sp, mem):
                        return none_known  # passing None on / keeping the member is right only where the member is None
                    return (v[0] == "call" and v[1][0] == "attr" and v[1][2] == "transform_from_optimizer" and v[1][1] == ("attr", sp, mem)
                            and bool(v[2]) and v[2][0] == tp)

                for mem in members:
                    known_none = any(p_ and a_[0] == "cmp" and a_[1] == "is" and a_[3] == ("const", None) and a_[2] == ("attr", sp, mem) for a_, p_ in lits)
                    verdict[mem].append(member_ok(kw.get(mem), mem, known_none))
                verdict["realizations"].append(kw.get("realizations") == ("attr", sp, "realizations"))
        for mem in members:
            ok = bool(verdict[mem]) and all(verdict[mem])
            res.add(m, m.node, f"{c.name} back-transforms its `{mem}`", ok, "" if ok else f"`{mem}` is passed on untransformed (on some return of the method)", construct=f"{c.name}: delegates {mem}")
        ok = bool(verdict["realizations"]) and all(verdict["realizations"])
        res.add(m, m.node, f"{c.name} keeps `realizations` (domain independent)", ok, construct=f"{c.name}: realizations kept")
    if n_cls < 4:
        raise AnalysisError(f"expected four result field classes with transform_from_optimizer, found {n_cls}")
    res.floor = 14
    return res


@rule(P)
def c11_5(ctx: Ctx) -> RuleResult:
    res = RuleResult("C11.5", "TABLE", "validation with a transform context: initial values, lower and upper bounds, non-linear bounds, linear constraints and absolute magnitudes are all transformed")
    X = ctx.X
    vc = ctx.repo.cls("ropt.config.enopt._variables_config.VariablesConfig")
    from .c18 import field_stores

    stores = {fld: v for _m, _n, fld, v, _h in field_stores(ctx, vc)}
    for fld in ("initial_values", "lower_bounds", "upper_bounds"):
        v = stores.get(fld)
        ok = v is not None and any(s[0] == "call" and s[1][0] == "attr" and s[1][2] == "to_optimizer" and ends_with_attrs(s[1][1], "context", "variables") and
                                   contains(s, lambda y: y[0] == "attr" and y[2] == fld) for s in ctx.X.closure(v))
        res.add(None, vc.node, f"VariablesConfig.{fld} goes through context.variables.to_optimizer", ok,
                "" if ok else f"`{fld}` stays in the user domain while the other variable quantities are transformed", construct=f"VariablesConfig.{fld}: to_optimizer",
                where=f"{vc.module.relpath}:{vc.node.lineno}", fname=vc.qualname)
    nc = ctx.repo.cls("ropt.config.enopt._nonlinear_constraints_config.NonlinearConstraintsConfig")
    stores = {fld: v for _m, _n, fld, v, _h in field_stores(ctx, nc)}
    for i, fld in enumerate(("lower_bounds", "upper_bounds")):
        v = stores.get(fld)
        good = [s for s in ctx.X.closure(v) if s[0] == "item" and s[2] == i and s[1][0] == "call" and s[1][1][0] == "attr" and s[1][1][2] == "bounds_to_optimizer"] if v else []
        ok = bool(good) and all(ends_with_attrs(s[1][1][1], "context", "nonlinear_constraints") for s in good)
        if ok:
            args = good[0][1][2]
            ok = len(args) == 2 and all(contains(a, lambda y, n=n: y[0] == "attr" and y[2] == n) for a, n in zip(args, ("lower_bounds", "upper_bounds")))
        res.add(None, nc.node, f"NonlinearConstraintsConfig.{fld} is component {i} of context.nonlinear_constraints.bounds_to_optimizer(lower, upper)", ok,
                "" if ok else f"`{fld}` is not the matching component of the transformed bounds", construct=f"NonlinearConstraintsConfig.{fld}: bounds_to_optimizer",
                where=f"{nc.module.relpath}:{nc.node.lineno}", fname=nc.qualname)
    lc = ctx.repo.cls("ropt.config.enopt._linear_constraints_config.LinearConstraintsConfig")
    stores = {fld: v for _m, _n, fld, v, _h in field_stores(ctx, lc) if _h.startswith("model_")}
    for i, fld in enumerate(("coefficients", "lower_bounds", "upper_bounds")):
        v = stores.get(fld)
        good = [s for s in ctx.X.closure(v) if s[0] == "item" and s[2] == i and s[1][0] == "call" and s[1][1][0] == "attr" and s[1][1][2] == "linear_constraints_to_optimizer"] if v else []
        ok = bool(good)
        if ok:
            args = good[0][1][2]
            ok = [a[2] if a[0] == "attr" else None for a in args] == ["coefficients", "lower_bounds", "upper_bounds"]
        if ok:
            # ... and nothing else: the stored value is that component, at most wrapped (immutable_array / asarray) or
            # re-selected with a guard on the same field (`where(isfinite(self.<fld>), component, +-inf)`)
            def is_component(t):
                t = norm(t)
                while t[0] == "call" and len(t[2]) == 1 and t[1][0] == "global" and t[1][1].split(".")[-1] in ("immutable_array", "asarray", "array", "ascontiguousarray"):
                    t = norm(t[2][0])
                if t in [norm(g_) for g_ in good]:
                    return True
                if t[0] == "call" and t[1] == ("global", "numpy.where") and len(t[2]) == 3:
                    cnd, a_, b_ = t[2]
                    about = {y[2] for y in subterms(cnd) if y[0] == "attr" and y[1][0] == "param"}
                    return about == {fld} and (is_component(a_) or is_component(b_))
                return False

            if not any(is_component(a) for a in alts(v)):
                ok = False
        res.add(None, lc.node, f"LinearConstraintsConfig.{fld} is component {i} of transforms.variables.linear_constraints_to_optimizer(A, lower, upper)", ok,
                "" if ok else f"`{fld}` is not the matching component of the transformed linear constraints", construct=f"LinearConstraintsConfig.{fld}: to_optimizer",
                where=f"{lc.module.relpath}:{lc.node.lineno}", fname=lc.qualname)
    gc = ctx.repo.cls("ropt.config.enopt._gradient_config.GradientConfig")
    cands = list(gc.methods.values())
    for g_ in ctx.cg.reachable(list(gc.methods.values()), include_nested_values=False):
        if g_.module is gc.module and g_.cls is None and g_.name.startswith("_") and g_ not in cands:
            cands.append(g_)
    ABS = ("global", "ropt.enums.PerturbationType.ABSOLUTE")
    is_abs_sel = lambda t_: contains(t_, lambda s_: s_[0] == "cmp" and s_[1] == "==" and ABS in (s_[2], s_[3]))  # noqa: E731
    from_m2o = lambda t_: contains(t_, lambda s_: s_[0] == "call" and s_[1][0] == "attr" and s_[1][2] == "magnitudes_to_optimizer")  # noqa: E731
    m = next((mm for mm in cands if any(isinstance(x, ast.Attribute) and x.attr == "magnitudes_to_optimizer" for x in ast.walk(mm.node))), None)
    ok = False
    if m is not None:
        for n in nodes_in(m, ast.Assign):
            t = n.targets[0]
            if isinstance(t, ast.Subscript):
                sel_t, val_t = X.at(m, t.slice), X.at(m, n.value)
                # magnitudes[absolute] = transformed[absolute]
                if is_abs_sel(sel_t) and val_t[0] == "sub" and val_t[2] == sel_t and from_m2o(val_t[1]):
                    ok = True
        for c_ in calls_in(m):
            t = norm(X.at(m, c_))
            # where(types == ABSOLUTE, transformed, magnitudes)
            if t[0] == "call" and t[1] == G("numpy.where") and len(t[2]) == 3 and is_abs_sel(t[2][0]) and from_m2o(t[2][1]) and not from_m2o(t[2][2]):
                ok = True
    res.add(m, m.node if m else gc.node, "absolute perturbation magnitudes (and only those) are replaced by magnitudes_to_optimizer", ok,
            "" if ok else "absolute magnitudes are not transformed with the variable scaling", construct="GradientConfig: absolute magnitudes")
    # the EnOptConfig validators pass the context on
    ec = ctx.repo.cls("ropt.config.enopt._enopt_config.EnOptConfig")
    for meth, what in (("apply_transformation", "linear constraints"), ("fix_perturbations", "perturbations")):
        ok = False
        for m_ in ec.methods.values():
            for c_ in calls_in(m_):
                t = X.at(m_, c_)
                if t[0] == "call" and t[1][0] == "attr" and t[1][2] == meth:
                    args = list(t[2]) + [v for _k, v in t[3]]
                    ok = ok or (any(ends_with_attrs(a, "variables") and root_of(a)[0] == "param" for a in args) and any(ends_with_attrs(a, "context") for a in args))
        res.add(None, ec.node, f"EnOptConfig passes the validation context to the {what}", ok, "" if ok else "context not forwarded", construct=f"EnOptConfig: context to {what}",
                where=f"{ec.module.relpath}:{ec.node.lineno}", fname=ec.qualname)
    for run in step_run_methods(ctx):
        ok = False
        for c_ in calls_in(run):
            t = X.at(run, c_)
            if t[0] == "call" and t[1][0] in ("attr", "global") and show(t[1]).endswith("model_validate"):
                ctxv = dict(t[3]).get("context")
                ok = ok or (ctxv is not None and any(a_[0] == "param" and a_[2] == "transforms" for a_ in (ctxv[1] if ctxv[0] == "phi" else (ctxv,))))
        res.add(run, run.node, "the step validates the configuration with the transforms as context", ok, "" if ok else "configuration is validated without the transforms", construct=f"{run.cls.name}: validation context")
    res.floor = 12
    return res


@rule(P)
def c11_6(ctx: Ctx) -> RuleResult:
    res = RuleResult("C11.6", "COH", "events carry back-transformed results as `results` and optimizer-domain results as `transformed_results`")
    X = ctx.X
    n = 0
    for run in step_run_methods(ctx):
        c = run.cls
        # the payload may be assembled in a method of the step or in a helper of its module
        cands = list(c.methods.values()) + [g for g in ctx.repo.funcs_in(c.module.name) if g.cls is None and g.outer is None]
        # ... or in a private helper of a sibling module that the step calls (shared by both steps)
        for g in ctx.cg.reachable(list(c.methods.values()), include_nested_values=False):
            if g.cls is None and g.outer is None and g not in cands and g.name.startswith("_") and g.module.name.rsplit(".", 1)[0] == c.module.name.rsplit(".", 1)[0]:
                cands.append(g)
        for m in cands:
            from ..util import bool_nnf, path_condition

            def lits_at(stmt):
                pc = path_condition(ctx, m, stmt)
                if not pc:
                    return []
                g_ = bool_nnf(("bool", "and", tuple(c_ if p else ("unary", "not", c_) for c_, p in pc)))
                return [(it[1], it[2]) for it in (g_[1] if g_[0] == "and" else [g_]) if it[0] == "lit"]

            def stmt_of(n_):
                while parent(n_) is not None and not isinstance(n_, ast.stmt):
                    n_ = parent(n_)
                return n_

            stores = {}
            for st in nodes_in(m, ast.Assign):
                t = st.targets[0]
                if isinstance(t, ast.Subscript) and isinstance(t.slice, ast.Constant) and t.slice.value in ("results", "transformed_results"):
                    stores.setdefault(t.slice.value, []).append((st, X.at(m, st.value), lits_at(st)))
            for d_ in nodes_in(m, ast.Dict):
                for k_, v_ in zip(d_.keys, d_.values):
                    if isinstance(k_, ast.Constant) and k_.value in ("results", "transformed_results"):
                        from ..util import _enclosing_conds

                        stores.setdefault(k_.value, []).append((d_, X.at(m, v_), lits_at(stmt_of(d_)) + [(a_, p_) for a_, p_ in _enclosing_conds(ctx, m, d_)]))
            if not stores:
                continue
            n += 1
            tr = stores.get("transformed_results", [])
            rs = stores.get("results", [])

            def tr_pol(lits):
                """True: under `transforms is None`; False: under `transforms is not None`; None: unconditional"""
                for a, p in lits:
                    if a[0] == "cmp" and a[1] == "is" and a[3] == ("const", None) and a[2][0] in ("param", "attr") and "transform" in show(a[2]):
                        return p
                return None

            back = [(v, l) for _s, v, l in rs if v[0] == "comp"]
            plain = [(v, l) for _s, v, l in rs if v[0] != "comp"]
            ok = len(tr) >= 1 and len(back) >= 1 and len(plain) >= 1
            if ok:
                raw = tr[0][1]
                ok = (all(v == raw and tr_pol(l) is False for _s, v, l in tr)
                      and all(contains(v, lambda s_: s_[0] == "call" and s_[1][0] == "attr" and s_[1][2] == "transform_from_optimizer") and tr_pol(l) is False for v, l in back)
                      and all(v == raw and tr_pol(l) is True for v, l in plain))
            res.add(m, m.node, "with transforms: transformed_results = raw, results = [r.transform_from_optimizer(t) for r in raw]; without: results = raw", ok,
                    "" if ok else "the two payload keys do not carry (user domain, optimizer domain) versions of the same results", construct=f"{c.name}: payload")
    if n < 2:
        raise AnalysisError("event payload construction not found in both steps")
    return res


@rule(P)
def c11_7(ctx: Ctx) -> RuleResult:
    """Shared with C13.2/C13.4: a back-transformed ConstraintInfo derives its violations from its own
    (back-transformed) differences - they are never carried over from the optimizer-domain object."""
    from .c13 import c13_2, c13_4

    r = c13_2(ctx)
    r.instances = [i for i in r.instances if i.construct.endswith(": guard")]
    r.instances += [i for i in c13_4(ctx).instances if "recompute" in i.construct]
    for i in r.instances:
        i.rule = "C11.7"
    r.rule, r.title, r.floor = "C11.7", "violations of a back-transformed result are recomputed from the back-transformed differences", 4
    return r


@rule(P)
def c11_8(ctx: Ctx) -> RuleResult:
    """Shared with C01.5."""
    from .c01 import c01_5

    r = c01_5(ctx)
    for i in r.instances:
        i.rule = "C11.8"
    r.rule, r.title = "C11.8", "estimators are positively homogeneous (no absolute thresholds): scaling the per-realization values scales the estimate, so back-transformed values equal untransformed ones"
    return r
