"""C16 - runs are reproducible from configuration and seed alone.

  C16.1 WHO  no use of global / unseeded randomness anywhere in the package
  C16.2 FLOW every stochastic call of a sampler is driven by the generator created
             from config.gradient.seed; one generator per EnsembleEvaluator per step run
  C16.3 WHO  no function mutates module-level or class-level state; cached loaders are
             only read; plug-in objects are stateless
  C16.4 TERM samplers run in order of first appearance in gradient.samplers
"""

from __future__ import annotations

import ast

from ..core import META, Ctx, RuleResult, rule
from ..model import AnalysisError, Func, Repo, dotted, norm_stmt, parent
from ..terms import Expander, Term, contains, root_of, show, subterms
from ..util import calls_in, deep_subterms, nodes_in

P = "C16"

META[P] = {
    "explanation": (
        "A forbidden-API sweep over every call of the package (legacy numpy.random, stdlib random, unseeded generators, os.urandom), with an in-memory "
        "positive control; provenance of the random_state / seed argument of every stochastic call reachable from the samplers back to "
        "default_rng(config.gradient.seed); and a sweep for writes to module-level / class-level state and for state kept in plug-in objects."
    ),
    "not_decided": ["SciPy's and NumPy's own internal determinism", "bit-identical traces as a runtime statement"],
}

ALLOWED_NP_RANDOM = {"default_rng", "Generator", "SeedSequence", "PCG64", "BitGenerator", "RandomState", "Philox", "MT19937", "SFC64"}
FORBIDDEN_GLOBALS = {"os.urandom", "secrets.token_bytes", "secrets.randbelow", "secrets.choice", "time.time_ns"}
# calls that draw values nobody derives numbers from (one reason per entry)
RANDOM_EXCEPTIONS = {
    "uuid.uuid4": "identifiers of plan steps/handlers: compared for identity only, never turned into numbers",
}
STOCHASTIC_METHODS = {"rvs", "random", "integers", "normal", "uniform", "standard_normal", "choice", "shuffle", "permutation"}
QMC_PREFIX = "scipy.stats.qmc."


def forbidden_random_calls(ctx: Ctx) -> list[tuple[Func, ast.Call, str]]:
    out = []
    for f in ctx.repo.all_funcs():
        for call in calls_in(f):
            t = ctx.X.at(f, call.func)
            if t[0] != "global":
                continue
            q = t[1]
            if q.startswith("numpy.random."):
                name = q.split(".")[2]
                if name not in ALLOWED_NP_RANDOM:
                    out.append((f, call, f"`{q}` draws from NumPy's global legacy generator"))
                elif name in ("default_rng", "RandomState") and (not call.args and not call.keywords or (call.args and isinstance(call.args[0], ast.Constant) and call.args[0].value is None)):
                    out.append((f, call, f"`{q}()` without a seed is seeded from the operating system"))
            elif q.startswith("random.") or q == "random":
                out.append((f, call, f"`{q}` uses the process-wide stdlib generator"))
            elif q in FORBIDDEN_GLOBALS:
                out.append((f, call, f"`{q}` is a non-reproducible entropy source"))
    # module-level code as well
    for m in ctx.repo.modules.values():
        for n in ast.walk(m.tree):
            if isinstance(n, ast.Call):
                d = dotted(n.func)
                if d:
                    q = ctx.repo.resolve_in_module(m, d) or d
                    if q.startswith("numpy.random.") and q.split(".")[2] not in ALLOWED_NP_RANDOM:
                        # attribute the finding to the module
                        out.append((None, n, f"`{q}` at module level of {m.name}"))
    return out


@rule(P)
def c16_1(ctx: Ctx) -> RuleResult:
    res = RuleResult("C16.1", "WHO", "no global or unseeded source of randomness is used anywhere in the package")
    bad = forbidden_random_calls(ctx)
    n_calls = sum(1 for f in ctx.repo.all_funcs() for _ in calls_in(f))
    for f, call, why in bad:
        if f is None:
            res.add(None, call, "no global randomness", False, why, where=f"line {call.lineno}", fname="<module>")
        else:
            res.add(f, call, "no global or unseeded randomness", False, why + ": results depend on state outside configuration and seed")
    res.add(None, None, f"{n_calls} call sites swept for numpy.random legacy functions, stdlib random, unseeded default_rng/RandomState, os.urandom", True,
            construct="forbidden randomness sweep", where="src/ropt", fname="<package>")
    # positive control: the same sweep must fire on a variant that contains such a call
    control_src = "import numpy as np\n\n\ndef _verif_control():\n    return np.random.normal(size=3) + np.random.default_rng().normal()\n"
    rel = "src/ropt/_verif_control.py"
    try:
        crepo = Repo(ctx.repo.root, overrides={**ctx.repo.overrides, rel: control_src})
        from ..core import Ctx as _Ctx

        hits = [h for h in forbidden_random_calls(_Ctx(crepo)) if h[0] is not None and h[0].name == "_verif_control"]
    except Exception as exc:  # noqa: BLE001
        raise AnalysisError(f"positive control of C16.1 could not be evaluated: {exc}") from exc
    res.add(None, None, "positive control: the sweep reports np.random.normal() and default_rng() in a synthetic module", len(hits) == 2,
            "" if len(hits) == 2 else f"control produced {len(hits)} reports instead of 2: the sweep is blind", construct="positive control", where="<in-memory variant>", fname="<control>")
    for q, why in RANDOM_EXCEPTIONS.items():
        res.notes.append(f"exception: {q} - {why}")
    res.floor = 2
    return res


# --------------------------------------------------------------------- C16.2
def sampler_impls(ctx: Ctx):
    base = "ropt.plugins.sampler.base.Sampler"
    out = [c for c in ctx.repo.subclasses(base)]
    if not out:
        raise AnalysisError("no Sampler implementations found")
    return out


def _rng_param(init: Func) -> str | None:
    for a in init.node.args.args + init.node.args.kwonlyargs:
        if a.annotation is not None and "Generator" in ast.unparse(a.annotation):
            return a.arg
    return None


@rule(P)
def c16_2(ctx: Ctx) -> RuleResult:
    res = RuleResult("C16.2", "FLOW", "every stochastic call of a sampler receives the generator created from config.gradient.seed")
    X = ctx.X
    for c in sampler_impls(ctx):
        init = c.methods.get("__init__")
        if init is None:
            raise AnalysisError(f"{c.name}.__init__ not found")
        rng = _rng_param(init)
        if rng is None:
            res.add(init, init.node, "the sampler constructor receives a numpy Generator", False, "no Generator parameter", construct=f"{c.name}: rng parameter")
            continue
        # fields holding the generator
        rng_fields = {fld for m, n, fld, v in _self_stores(ctx, c) if v == ("param", init.qualname, rng)}
        methods = list(c.methods.values())
        for m in list(methods):
            methods += list(m.nested.values())

        def is_rng(t: Term) -> bool:
            if t == ("param", init.qualname, rng):
                return True
            return t[0] == "attr" and t[2] in rng_fields and root_of(t)[0] == "param"

        for m in methods:
            for call in calls_in(m):
                t = X.at(m, call)
                fn = t[1]
                kind = None
                if fn[0] == "attr" and fn[2] == "rvs":
                    kind, kw = "rvs", "random_state"
                elif fn[0] == "global" and fn[1].startswith(QMC_PREFIX) and fn[1].split(".")[-1][0].isupper():
                    kind, kw = "qmc", "seed"
                elif fn[0] == "sub" and fn[1][0] == "global" and _is_engine_registry(ctx, fn[1][1]):
                    kind, kw = "qmc", "seed"
                elif fn[0] == "global" and fn[1].startswith("numpy.random.") and fn[1].split(".")[2] in ("default_rng", "RandomState", "Generator"):
                    kind, kw = "newgen", None
                if kind is None:
                    continue
                if kind == "newgen":
                    res.add(m, call, "samplers do not create generators of their own", False,
                            "a generator created inside the sampler is not the one seeded from config.gradient.seed", construct=f"{c.name}.{m.name}: {norm_stmt(call)[:60]}")
                    continue
                val = None
                for k, v in t[3]:
                    if k == kw:
                        val = v
                ok = val is not None and is_rng(val)
                res.add(m, call, f"`{kw}=` of this {kind} call is the generator handed to the sampler", ok,
                        "" if ok else (f"`{kw}` is missing: SciPy falls back to NumPy's global state" if val is None else f"`{kw}={show(val, 60)}` is not the configured generator"),
                        construct=f"{c.name}.{m.name}: {kind} {kw}")
    # upstream: the generator is default_rng(config.gradient.seed), created once per EnsembleEvaluator
    ee = ctx.repo.cls("ropt.ensemble_evaluator._ensemble_evaluator.EnsembleEvaluator")
    creates = ctx.repo.implementations("ropt.plugins.sampler.base.SamplerPlugin", "create")
    n_up = 0
    for cr in creates + [ctx.repo.funcs.get("ropt.plugins.sampler.base.SamplerPlugin.create")]:
        if cr is None:
            continue
        for caller, call in ctx.cg.callers(cr):
            t = X.at(caller, call)
            if len(t[2]) < 4:
                continue
            n_up += 1
            arg = t[2][3]
            seeds = [s for _g, s in deep_subterms(ctx, caller, arg) if s[0] == "call" and s[1] == ("global", "numpy.random.default_rng")]
            ok = bool(seeds) and all(len(s[2]) == 1 and s[2][0][0] == "attr" and s[2][0][2] == "seed" and "gradient" in show(s[2][0]) for s in seeds)
            res.add(caller, call, "the generator passed to the sampler plug-in is default_rng(config.gradient.seed)", ok,
                    "" if ok else f"generator argument derives from {[show(s, 60) for s in seeds] or show(arg, 60)}", construct=f"{caller.name}: rng argument of create")
    if n_up == 0:
        raise AnalysisError("no call of SamplerPlugin.create with a generator argument found")
    # default_rng is called in the constructor of EnsembleEvaluator only
    for f in ctx.repo.all_funcs():
        for call in calls_in(f):
            if X.at(f, call.func) == ("global", "numpy.random.default_rng"):
                ok = f.cls is ee and f.name == "__init__"
                if not ok and f.cls is ee and f.name.startswith("_"):
                    # a private piece of the constructor: called from __init__ only, once (not in a loop), and creating the
                    # generator once (not in a loop or comprehension of its own)
                    from ..util import unique_caller

                    def in_loop(node_, fn_):
                        cur = parent(node_)
                        while cur is not None and cur is not fn_.node:
                            if isinstance(cur, (ast.For, ast.While, ast.ListComp, ast.SetComp, ast.DictComp, ast.GeneratorExp)):
                                return True
                            cur = parent(cur)
                        return False

                    uc = unique_caller(ctx, f)
                    ok = uc is not None and uc[0].cls is ee and uc[0].name == "__init__" and not in_loop(uc[1], uc[0]) and not in_loop(call, f)
                res.add(f, call, "generators are created only in EnsembleEvaluator.__init__ (one per evaluator, hence per step run)", ok,
                        "" if ok else "a generator created here is shared or re-created outside the per-run evaluator", construct=f"{f.qualname.split('.')[-2]}.{f.name}: default_rng")
    # the evaluator used by a run is the one constructed in that run (never a kept one)
    from .c14 import step_run_methods

    for run in step_run_methods(ctx):
        for call in calls_in(run):
            t = X.at(run, call)
            used = None
            if t[0] == "call":
                for k, v in t[3]:
                    if k == "ensemble_evaluator":
                        used = v
                if t[1][0] == "attr" and t[1][2] == "calculate":
                    used = t[1][1]
            if used is None:
                continue
            ok = used[0] == "call" and used[1] == ("global", ee.qualname)
            res.add(run, call, "the ensemble evaluator used here is constructed unconditionally in this very run (its generator starts from the seed)", ok,
                    "" if ok else f"the evaluator is `{show(used, 70)}`: an evaluator (generator, sampler state, function cache) kept from an earlier run can be reused, so a re-run continues the random stream",
                    construct=f"{run.cls.name}.run: evaluator of {norm_stmt(call)[:40]}")
    # EnsembleEvaluator objects are created inside step runs (fresh generator per run)
    init = ee.methods["__init__"]
    for caller, call in ctx.cg.callers(init):
        def only_from_run(g, seen=None):
            """g is the step's run, or a private piece of it: every call chain into g starts in run of the same class"""
            seen = seen or set()
            if g.cls is None or not ctx.repo.is_subclass(g.cls, "ropt.plugins.plan.base.PlanStep"):
                return False
            if g.name == "run":
                return True
            if g.qualname in seen or not g.name.startswith("_"):
                return False
            seen.add(g.qualname)
            cs = ctx.cg.callers(g)
            return bool(cs) and all(c_.cls is g.cls and only_from_run(c_, seen) for c_, _n in cs)

        stored = isinstance(parent(call), ast.Assign) and any(isinstance(t_, ast.Attribute) for t_ in parent(call).targets)
        ok = only_from_run(caller) and not stored
        res.add(caller, call, "EnsembleEvaluator is constructed inside a plan step's run (per run, not shared)", ok,
                "" if ok else "an evaluator (and its generator) constructed here outlives a single run", construct=f"{caller.qualname.split('.')[-2]}.{caller.name}: EnsembleEvaluator()")
    res.floor = 8
    return res


def _is_engine_registry(ctx: Ctx, qual: str) -> bool:
    modname, _, cname = qual.rpartition(".")
    m = ctx.repo.modules.get(modname)
    if m is None or cname not in m.constants:
        return False
    d = m.constants[cname]
    if isinstance(d, ast.Dict):
        return any((ctx.repo.resolve_in_module(m, dotted(v) or "") or "").startswith(QMC_PREFIX) for v in d.values)
    return False


def _self_stores(ctx: Ctx, c):
    for m in c.methods.values():
        if not m.positional:
            continue
        for n in nodes_in(m, (ast.Assign, ast.AnnAssign)):
            targets = n.targets if isinstance(n, ast.Assign) else [n.target]
            for t in targets:
                if isinstance(t, ast.Attribute) and isinstance(t.value, ast.Name) and t.value.id == m.positional[0] and n.value is not None:
                    yield m, n, t.attr, ctx.X.at(m, n.value)


# --------------------------------------------------------------------- C16.3
MUTATORS = {"append", "extend", "insert", "update", "setdefault", "pop", "remove", "clear", "add", "discard", "popitem", "sort", "reverse", "__setitem__"}
# functions allowed to touch process-wide state (one reason per entry)
SHARED_STATE_EXCEPTIONS = {
    "ropt.optimization._optimizer._Redirector": "redirects the process's stdout/stderr file descriptors on request (optimizer.stdout); no numeric state",
    "ropt.plugins.optimizer.external.ExternalOptimizer.start": "registers an atexit kill of its own child process",
}


def shared_state_writes(ctx: Ctx) -> list[tuple[Func, ast.AST, str]]:
    out = []
    for f in ctx.repo.all_funcs():
        if any(f.qualname.startswith(k) for k in SHARED_STATE_EXCEPTIONS):
            continue
        mod = f.module
        from ..dataflow import dataflow_of

        df = dataflow_of(ctx.repo, f)

        def is_global_name(name: str) -> bool:
            if name in df.locals:
                return False
            g = f.outer
            while g is not None:
                if name in dataflow_of(ctx.repo, g).locals:
                    return False
                g = g.outer
            return name in mod.constants or name in mod.classes or name in mod.imports

        for n in nodes_in(f, (ast.Global,)):
            out.append((f, n, f"`global {', '.join(n.names)}` rebinding of module state"))
        for n in nodes_in(f, (ast.Assign, ast.AugAssign, ast.AnnAssign, ast.Delete)):
            targets = n.targets if isinstance(n, (ast.Assign, ast.Delete)) else [n.target]
            for t in targets:
                base = t
                depth = 0
                while isinstance(base, (ast.Subscript, ast.Attribute)):
                    base = base.value
                    depth += 1
                if depth and isinstance(base, ast.Name):
                    if is_global_name(base.id):
                        q = ctx.repo.resolve_in_module(mod, base.id) or base.id
                        if q.split(".")[0] in ("ropt",) or base.id in mod.constants or base.id in mod.classes:
                            out.append((f, n, f"store into module-level / class-level object `{base.id}`"))
                    elif f.is_classmethod and f.positional and base.id == f.positional[0]:
                        out.append((f, n, "store into the class object (state shared by all instances)"))
                    elif isinstance(t, ast.Attribute) and isinstance(t.value, ast.Attribute) and t.value.attr == "__class__":
                        out.append((f, n, "store into the class object through __class__"))
        def aliases_module_object(expr: ast.AST):
            """The expression denotes (part of) a module-level object of the package,
            possibly through local aliases: returns its qualified name."""
            t = ctx.X.at(f, expr)
            for a in (t[1] if t[0] == "phi" else (t,)):
                r = a
                while r[0] in ("sub", "attr", "iter", "item"):
                    r = r[1]
                if r[0] == "call" and r[1][0] == "attr" and r[1][2] in ("get", "setdefault", "values", "items") and r[1][1][0] in ("global", "sub", "attr"):
                    r = r[1][1]
                    while r[0] in ("sub", "attr"):
                        r = r[1]
                if r[0] == "call" and r[1][0] == "global" and r[1][1].rpartition(".")[2] in ("get", "setdefault", "values", "items"):
                    # `_TABLE.get(k, default)` resolved as one dotted global
                    r = ("global", r[1][1].rpartition(".")[0])
                if r[0] == "global":
                    modname, _, cname = r[1].rpartition(".")
                    m_ = ctx.repo.modules.get(modname)
                    if m_ is not None and cname in m_.constants and not isinstance(m_.constants[cname], ast.Constant):
                        return r[1]
            return None

        for call in calls_in(f):
            if isinstance(call.func, ast.Attribute) and call.func.attr in MUTATORS:
                base = call.func.value
                while isinstance(base, (ast.Subscript, ast.Attribute)):
                    base = base.value
                if isinstance(base, ast.Name) and is_global_name(base.id) and (base.id in mod.constants or base.id in mod.classes):
                    out.append((f, call, f"`.{call.func.attr}()` on module-level / class-level object `{base.id}`"))
                elif isinstance(base, ast.Name) and not is_global_name(base.id):
                    q = aliases_module_object(call.func.value)
                    if q is not None:
                        out.append((f, call, f"`.{call.func.attr}()` on `{ast.unparse(call.func.value)}`, an alias of the module-level object `{q}`"))
        for n in nodes_in(f, (ast.Assign, ast.AugAssign)):
            targets = n.targets if isinstance(n, ast.Assign) else [n.target]
            for t in targets:
                if isinstance(t, ast.Subscript):
                    base = t.value
                    root = base
                    while isinstance(root, (ast.Subscript, ast.Attribute)):
                        root = root.value
                    if isinstance(root, ast.Name) and not is_global_name(root.id):
                        q = aliases_module_object(base)
                        if q is not None:
                            out.append((f, n, f"item store into `{ast.unparse(base)}`, an alias of the module-level object `{q}`"))
    return out


@rule(P)
def c16_3(ctx: Ctx) -> RuleResult:
    res = RuleResult("C16.3", "WHO", "no cross-run state: module/class-level objects are never written, cached loaders are read-only, plug-in objects are stateless")
    for f, n, why in shared_state_writes(ctx):
        res.add(f, n, "no function writes module-level or class-level state", False, why + ": a later run in the same process can observe it")
    res.add(None, None, f"{len(ctx.repo.funcs)} functions swept for writes to module-level / class-level objects", True,
            construct="shared-state sweep", where="src/ropt", fname="<package>")
    # positive control
    control_src = "_MEMO = {}\n\n\ndef _verif_control(key):\n    _MEMO[key] = 1\n    _MEMO.setdefault(key, 2)\n    return _MEMO\n"
    crepo = Repo(ctx.repo.root, overrides={**ctx.repo.overrides, "src/ropt/_verif_control.py": control_src})
    from ..core import Ctx as _Ctx

    hits = [h for h in shared_state_writes(_Ctx(crepo)) if h[0].name == "_verif_control"]
    res.add(None, None, "positive control: the sweep reports a module-level memo written by a function", len(hits) == 2,
            "" if len(hits) == 2 else f"control produced {len(hits)} reports instead of 2", construct="positive control", where="<in-memory variant>", fname="<control>")
    # cached functions: results are shared between all callers
    for f in ctx.repo.all_funcs():
        if any(d.split("(")[0].split(".")[-1] in ("cache", "lru_cache", "cached_property") for d in f.decorators):
            # every use of the result must be read-only: iteration / lookup
            for caller, call in ctx.cg.callers(f):
                p_ = parent(call)
                ok = False
                use = norm_stmt(p_)[:80] if p_ is not None else "?"
                if isinstance(p_, ast.Attribute) and p_.attr in ("items", "values", "keys", "get", "__contains__"):
                    ok = True
                elif isinstance(p_, (ast.For, ast.comprehension)):
                    ok = True
                res.add(caller, call, f"the shared result of cached `{f.name}` is only iterated / looked up", ok,
                        "" if ok else f"the process-wide cached object escapes (`{use}`): a manager could mutate what other managers see",
                        construct=f"{caller.name}: use of cached {f.name}")
    # plug-in objects (shared through the cached loader) keep no instance state
    for c in ctx.repo.subclasses("ropt.plugins.base.Plugin"):
        stores = []
        for m in c.methods.values():
            if not m.positional or m.is_static:
                continue
            for n in nodes_in(m, (ast.Assign, ast.AugAssign, ast.AnnAssign)):
                targets = n.targets if isinstance(n, ast.Assign) else [n.target]
                for t in targets:
                    base = t
                    while isinstance(base, (ast.Subscript, ast.Attribute)):
                        base = base.value
                    if isinstance(base, ast.Name) and base.id == m.positional[0] and t is not base:
                        stores.append((m, n))
        ok = not stores
        res.add(stores[0][0] if stores else None, stores[0][1] if stores else c.node, f"plug-in class {c.name} keeps no instance state (instances are shared process-wide)", ok,
                "" if ok else "a plug-in object stores state on itself: runs through different managers interfere",
                construct=f"{c.name}: stateless", where=None if stores else f"{c.module.relpath}:{c.node.lineno}", fname=None if stores else c.qualname)
        cr = c.methods.get("create")
        if cr is not None and not any("abstractmethod" in d for d in cr.decorators):
            rt = ctx.X.return_term(cr)
            ok = all(a[0] == "call" and (a[1][0] == "global" and a[1][1] in ctx.repo.classes or a[1][0] in ("phi", "call", "sub")) for a in (rt[1] if rt[0] == "phi" else (rt,)))
            res.add(cr, cr.node, f"{c.name}.create returns a newly constructed object", ok, "" if ok else f"create returns `{show(rt, 80)}`", construct=f"{c.name}.create: fresh object")
    res.floor = 8
    return res


# --------------------------------------------------------------------- C16.4
@rule(P)
def c16_4(ctx: Ctx) -> RuleResult:
    res = RuleResult("C16.4", "TERM", "samplers are invoked in order of first appearance in gradient.samplers (fixed draw order)")
    fs = [g for g in ctx.repo.funcs_in("ropt.ensemble_evaluator._gradient")
          if any(isinstance(c.func, ast.Attribute) and c.func.attr == "generate_samples" for c in calls_in(g))]
    if not fs:
        raise AnalysisError("the function invoking generate_samples was not found")
    X = ctx.X
    for f in fs:
        calls = [c for c in calls_in(f) if isinstance(c.func, ast.Attribute) and c.func.attr == "generate_samples"]
        idx_terms = []
        for c in calls:
            t = X.at(f, c.func)
            recv = t[1]
            if recv[0] == "sub":
                idx_terms.append((c, recv[2]))
        for c, it in idx_terms:
            # index derives from unique[argsort(first-appearance indices)]
            good = False
            for _g, s in deep_subterms(ctx, f, it):
                if s[0] == "sub" and s[2][0] == "call" and s[2][1] == ("global", "numpy.argsort"):
                    base, arg = s[1], s[2][2][0]
                    if base[0] == "item" and base[2] == 0 and arg[0] == "item" and arg[2] == 1 and base[1] == arg[1]:
                        u = base[1]
                        if u[0] == "call" and u[1] == ("global", "numpy.unique") and any(k == "return_index" and v == ("const", True) for k, v in u[3]):
                            good = any(y[0] == "attr" and y[2] == "samplers" for _h, y in deep_subterms(ctx, _g, u, 3))
            if it[0] == "const":
                continue
            res.add(f, c, "the sampler index comes from unique(samplers, return_index=True) re-ordered by argsort of the first-appearance indices", good,
                    "" if good else f"sampler order is `{show(it, 100)}`: not the order of first appearance", construct=f"{f.name}: sampler order {norm_stmt(c)[:50]}")
        # loop over the remaining samplers preserves that order
        for lp in [n for n in nodes_in(f, ast.For) if any(isinstance(x, ast.Call) and isinstance(x.func, ast.Attribute) and x.func.attr == "generate_samples" for x in ast.walk(n))]:
            it = X.at(f, lp.iter)
            ok = it[0] == "sub" and it[2][0] == "slice" and it[2][1] == ("const", 1)
            res.add(f, lp, "the remaining samplers are visited by a forward slice [1:] of the ordered indices", ok,
                    "" if ok else f"loop iterates `{show(it, 80)}`", construct=f"{f.name}: loop over ordered samplers")
    res.floor = 2
    return res


@rule(P)
def c16_5(ctx: Ctx) -> RuleResult:
    """Shared with C19.3: a reused plug-in manager resolves a method exactly like a fresh one with the same
    registrations only if look-ups leave no trace (no memo of earlier resolutions, no memoised methods)."""
    from .c19 import c19_3

    r = c19_3(ctx)
    r.instances = [i for i in r.instances if "writes self." in i.construct or "memoised" in i.construct or "registry" in i.construct]
    for i in r.instances:
        i.rule = "C16.5"
    r.rule, r.title, r.floor = "C16.5", "plug-in resolution does not depend on earlier look-ups of a reused manager (the registry is its only state)", 3
    return r


# --------------------------------------------------------------------- C16.6
@rule(P)
def c16_6(ctx: Ctx) -> RuleResult:
    """User-supplied option dictionaries may hold stateful objects - an explicit `seed` given as a numpy Generator for a
    population optimizer, a generator among the sampler options.  A run must not advance the object stored in the
    configuration (a second run with the same configuration would start from a different state): wherever the options of
    the optimizer or of a sampler leave the configuration towards a back-end, they pass through `copy.deepcopy`."""
    res = RuleResult("C16.6", "FLOW", "configured option dictionaries reach the back-ends only as deep copies (stateful entries such as a Generator seed are not shared between runs)")
    X = ctx.X

    def shared(t: Term, fieldpath: tuple, inside: bool = False) -> list:
        """occurrences of the configuration field in a value term that are not inside copy.deepcopy(...)"""
        out = []
        if not isinstance(t, tuple) or not t or not isinstance(t[0], str):
            return out
        if t[0] == "call" and t[1] == ("global", "copy.deepcopy"):
            return out
        if t[0] == "attr" and t[2] == fieldpath[-1] and (len(fieldpath) == 1 or (t[1][0] == "attr" and t[1][2] == fieldpath[-2])):
            return [t]
        if t[0] == "call" and t[1] == ("builtin", "isinstance"):
            return out
        if t[0] == "ifexp":
            # the test only inspects the value
            return shared(t[2], fieldpath) + shared(t[3], fieldpath)
        for x in t[1:]:
            if isinstance(x, tuple):
                if x and isinstance(x[0], str):
                    out += shared(x, fieldpath)
                else:
                    for y in x:
                        if isinstance(y, tuple) and y and isinstance(y[0], str):
                            out += shared(y, fieldpath)
                        elif isinstance(y, tuple):
                            for z in y:
                                if isinstance(z, tuple) and z and isinstance(z[0], str):
                                    out += shared(z, fieldpath)
        return out

    n = 0
    # optimizer options: the option parsers of the SciPy plug-in (source of `options=` / `**options`)
    from .c07 import anchors
    from .c08 import option_parsers

    A = anchors(ctx)
    for f in option_parsers(ctx, A):
        for r_ in nodes_in(f, ast.Return):
            if r_.value is None:
                continue
            rt = X.force_inline(X.at(f, r_.value), f)
            if not contains(rt, lambda s_: s_[0] == "attr" and s_[2] == "options"):
                continue
            n += 1
            occ = shared(rt, ("optimizer", "options"))
            ok = not occ
            res.add(f, r_, "the options handed to SciPy contain the configured options only as a deep copy", ok,
                    "" if ok else f"`{show(occ[0], 60)}` reaches the returned options without copy.deepcopy: a stateful entry (a Generator given as `seed`) is advanced by every run "
                    "that uses this configuration - two runs with the same configuration differ",
                    construct=f"{f.name}: optimizer options copied")
    # sampler options: the constructor of every built-in sampler
    from .c17 import sampler_impls

    for c in sampler_impls(ctx):
        init = c.methods.get("__init__")
        if init is None:
            continue
        attr_names = sorted({t_.attr for m_ in c.methods.values() for a_ in nodes_in(m_, (ast.Assign, ast.AnnAssign))
                             for t_ in (a_.targets if isinstance(a_, ast.Assign) else [a_.target])
                             for t_ in ([t_] if isinstance(t_, ast.Attribute) else (t_.elts if isinstance(t_, ast.Tuple) else []))
                             if isinstance(t_, ast.Attribute) and isinstance(t_.value, ast.Name) and t_.value.id == "self"})
        for fld, vals in ((k, ctx.cg.field_values(c, k)) for k in attr_names if "option" in k):
            for v in vals:
                v2 = X.force_inline(v, init, effects=True)
                if not contains(v2, lambda s_: s_[0] == "attr" and s_[2] == "options"):
                    continue
                n += 1
                occ = shared(v2, ("options",))
                ok = not occ
                res.add(init, init.node, f"{c.name}.{fld}: the sampler's options are a deep copy of the configured options", ok,
                        "" if ok else "the configured sampler options are stored without copy.deepcopy", construct=f"{c.name}.{fld}: sampler options copied")
    if n == 0:
        raise AnalysisError("no option dictionary flowing from the configuration to a back-end was found")
    res.floor = 1
    return res


@rule(P)
def c16_7(ctx: Ctx) -> RuleResult:
    """An explicit `seed` option (0 included) reaches SciPy: the options dictionary handed to the backend is the
    configured one, never filtered by the values of its entries (expected count zero; the pattern's positive example is
    checked on every run)."""
    import ast as _ast

    from .common import value_filtered_mappings

    res = RuleResult("C16.7", "DOM", "user options (e.g. an explicit seed, 0 included) are handed to the backend unfiltered")
    c = ctx.repo.cls("ropt.plugins.optimizer.scipy.SciPyOptimizer")
    f = c.methods.get("_parse_options")
    if f is None:
        raise AnalysisError("SciPyOptimizer._parse_options not found")

    class _Probe:
        node = _ast.parse("def g(o):\n    return {k: v for k, v in o.items() if v}\n").body[0]

    if not value_filtered_mappings(_Probe):  # type: ignore[arg-type]
        raise AnalysisError("C16.7 self-test: the value-filter pattern no longer matches its positive example")
    funcs = [f] + [g for _c, gs, _k in ctx.cg.all_callees(f) for g in gs if g.cls is c]
    for g in funcs:
        bad = value_filtered_mappings(g)
        ok = not bad
        res.add(g, bad[0][0] if bad else g.node, f"`{g.name}` keeps every configured option whatever its value", ok,
                "" if ok else f"entries are dropped `if {bad[0][1]}`: an explicit falsy option such as `seed: 0` (or `maxiter: 0`, `disp: False`) is removed and SciPy falls back to its default "
                "(for differential_evolution: NumPy's global random state, so the run is no longer reproducible from the configuration)",
                construct=f"{g.name}: options unfiltered")
    res.floor = 1
    return res
