"""C08 - the problem handed to SciPy is equivalent to the configured problem.

  C08.1 ENUM  normalised-constraint row table per bound kind; value/Jacobian siblings agree
  C08.2 COH   [nonlinear, linear] block order agrees in bounds, values and Jacobians
  C08.3 COH   masked linear constraints: rows, columns, offsets, same selector everywhere
  C08.4 DOM   max_iterations reaches the back-end on every path of the option parser
  C08.5 COH   lower/upper roles are preserved into every SciPy object
  C08.6 DOM   supported-constraint validation dominates constraint construction
  C08.7 COH   every per-variable array handed to SciPy has a masked alternative
"""

from __future__ import annotations

import ast

from ..absint import TOP, Arr, Bound, Hooks, Interp, ListRef, Obj, State, Sym, join
from ..cfg import cfg_of
from ..core import META, Ctx, RuleResult, rule
from ..dataflow import dataflow_of
from ..model import AnalysisError, Func, dotted, norm_stmt, parent
from ..paths import PathFinder, describe_path
from ..terms import Term, alts, attr_chain, contains, ends_with_attrs, root_of, show, subterms
from ..util import calls_in, nodes_in
from .c07 import Anchors, anchors

P = "C08"

META[P] = {
    "explanation": (
        "The normalised-constraint constructor is interpreted abstractly per bound kind (eq / lower-only / upper-only / two-sided / unbounded) and the "
        "resulting row table is compared with the kind table; sibling methods (values vs Jacobians, bounds vs values vs Jacobians block order) are "
        "compared term by term; the option parser is checked by dominance; role (lower/upper) and mask provenance of every array reaching a SciPy "
        "constructor or entry point is traced through the symbolic terms."
    ),
    "not_decided": ["feasibility-set equality as a numeric statement (conjunction of the row table and SciPy's documented 'ineq >= 0')"],
}

SCIPY_OBJECTS = ("scipy.optimize.Bounds", "scipy.optimize.LinearConstraint", "scipy.optimize.NonlinearConstraint")
SCIPY_ENTRY = ("scipy.optimize.minimize", "scipy.optimize.differential_evolution")


# --------------------------------------------------------------------- C08.1
class RowHooks(Hooks):
    def external_call(self, interp, text, args, kwargs, st, func, node):
        if text in ("numpy.isfinite", "numpy.isinf", "numpy.isneginf", "numpy.isposinf", "math.isfinite", "math.isinf") and args and isinstance(args[0], Sym):
            return [(st, Sym(f"{text}({args[0].text})"))]
        if text in ("abs", "numpy.abs", "numpy.fabs", "numpy.isclose", "math.isclose"):
            names = [a.text for a in args if isinstance(a, Sym)]
            return [(st, Sym(f"{text}({','.join(names)})"))]
        if text == "len":
            return [(st, 0)]
        if text in ("enumerate", "zip", "range"):
            return [(st, TOP)]
        return [(st, TOP)]


class _WholeHooks(RowHooks):
    """Concrete sequences for zip / enumerate / range / len so that the whole constructor can be run on one bound pair."""

    def external_call(self, interp, text, args, kwargs, st, func, node):
        def seq(x):
            if isinstance(x, ListRef):
                return tuple(st.lists.get(x.id, ()))
            if isinstance(x, (tuple, list)):
                return tuple(x)
            return None

        if text == "zip":
            seqs = [seq(a) for a in args]
            if all(q is not None for q in seqs):
                return [(st, tuple(zip(*seqs)))]
        if text == "enumerate" and args:
            q = seq(args[0])
            start = kwargs.get("start", args[1] if len(args) > 1 else 0)
            if q is not None and isinstance(start, int):
                return [(st, tuple(enumerate(q, start)))]
        if text == "range" and args and all(isinstance(a, int) for a in args):
            return [(st, tuple(range(*args)))]
        if text == "len" and args:
            q = seq(args[0])
            if q is not None:
                return [(st, len(q))]
        return super().external_call(interp, text, args, kwargs, st, func, node)


def _interpret_whole(ctx: Ctx, nc_cls, init) -> list[tuple[dict, dict]]:
    """Run the whole constructor on one symbolic bound pair (LOWER, UPPER): whatever the loop looks like (enumerate,
    a counter, rows collected in a local list and distributed afterwards), the row tables are read from the object."""
    interp = Interp(ctx.repo, _WholeHooks())
    self_obj = Obj("self", nc_cls.qualname)
    st = State({"self": {}}, {})
    env = {init.positional[0]: self_obj}
    params = init.params[1:]
    if len(params) < 2:
        raise AnalysisError("normalised-constraints constructor does not take (lower, upper) bounds")
    env[params[0]] = (Sym("LOWER"),)
    env[params[1]] = (Sym("UPPER"),)
    for p in params[2:]:
        env[p] = Sym(p)
    res = []
    for s2, flow, _val, _e in interp.exec_block(list(init.node.body), env, st, init, 0):
        if flow not in ("next", "return"):
            continue
        rows = {}
        for f_, v in s2.heap["self"].items():
            if isinstance(v, ListRef):
                rows[f_] = tuple(s2.lists.get(v.id, ()))
            elif isinstance(v, (tuple, list)):
                rows[f_] = tuple(v)
        # the single pair sits at position 0: a stored index 0 is the position of the pair
        rows = {f_: tuple(Sym("IDX") if (x == 0 and isinstance(x, int) and not isinstance(x, bool)) else x for x in vals) for f_, vals in rows.items()}
        res.append((dict(s2.atoms), rows))
    if not res:
        raise AnalysisError("normalised-constraints constructor could not be interpreted")
    return res


def _interpret_rows(ctx: Ctx, nc_cls) -> list[tuple[dict, dict]]:
    """Interpret one iteration of the constructor's loop body: returns
    [(atoms, {list field: appended values})]."""
    init = nc_cls.methods.get("__init__")
    if init is None:
        raise AnalysisError("NormalizedConstraints.__init__ not found")
    try:
        return _interpret_loop_body(ctx, nc_cls, init)
    except AnalysisError:
        return _interpret_whole(ctx, nc_cls, init)


def _interpret_loop_body(ctx: Ctx, nc_cls, init) -> list[tuple[dict, dict]]:
    loops = [n for n in init.node.body if isinstance(n, ast.For)]
    if len(loops) != 1:
        raise AnalysisError("expected exactly one loop over the bounds in the normalised-constraints constructor")
    loop = loops[0]
    # loop variables: idx, (lower, upper)
    names = [n.id for n in ast.walk(loop.target) if isinstance(n, ast.Name)]
    if len(names) != 3:
        raise AnalysisError("unexpected loop target in the normalised-constraints constructor")
    idx, lo, up = names
    it = ast.unparse(loop.iter)
    # the pairing of lower and upper: zip(lower_bounds, upper_bounds)
    params = init.positional[1:3]
    zargs = None
    for n in ast.walk(loop.iter):
        if isinstance(n, ast.Call) and dotted(n.func) == "zip":
            zargs = [ast.unparse(a) for a in n.args]
    if zargs is None or zargs[:2] != params[:2]:
        raise AnalysisError(f"constructor loop does not iterate zip({', '.join(params)}) but `{it}`")
    interp = Interp(ctx.repo, RowHooks())
    self_obj = Obj("self", nc_cls.qualname)
    st = State({"self": {}}, {})
    env = {init.positional[0]: self_obj}
    # run the statements before the loop (list initialisations, flags)
    for p in init.params[1:]:
        env[p] = Sym(p)
    outs = interp.exec_block([s for s in init.node.body if s is not loop and not isinstance(s, ast.For)], env, st, init, 0)
    if len(outs) != 1:
        raise AnalysisError("constructor prologue forks")
    st1, _f, _v, env1 = outs[0]
    list_fields = {f: v for f, v in st1.heap["self"].items() if isinstance(v, ListRef)}
    env2 = dict(env1)
    env2[idx], env2[lo], env2[up] = Sym("IDX"), Sym("LOWER"), Sym("UPPER")
    res = []
    for s2, flow, _val, _e in interp.exec_block(loop.body, env2, st1, init, 0):
        rows = {f: s2.lists.get(lr.id, ()) for f, lr in list_fields.items()}
        res.append((dict(s2.atoms), rows))
    return res


def _classify_atoms(atoms: dict) -> dict | None:
    """-> {'eq': bool|None, 'fin_lo': bool|None, 'fin_up': bool|None}."""
    out = {"eq": None, "fin_lo": None, "fin_up": None}
    for k, v in atoms.items():
        kl = k.replace(" ", "")
        if "LOWER" in k and "UPPER" in k:
            # equality test: |u-l| < tol, l == u, isclose(l, u) (or the negations)
            toks = kl.replace("(", " ").replace(")", " ").split()
            if " Lt " in f" {k} " or " LtE " in f" {k} " or "isclose" in kl:
                out["eq"] = v
            elif " Eq " in f" {k} ":
                out["eq"] = v
            elif " Gt " in f" {k} " or " GtE " in f" {k} " or " NotEq " in f" {k} ":
                out["eq"] = not v
            else:
                return None
        elif "isfinite" in k:
            out["fin_lo" if "LOWER" in k else "fin_up"] = v
        elif "isinf" in k or "isneginf" in k or "isposinf" in k:
            out["fin_lo" if "LOWER" in k else "fin_up"] = not v
        elif k.startswith("self._apply_flip") or "flip" in k:
            continue
        else:
            return None
    return out


KINDS = {
    "eq": {"eq": True},
    "lower-only": {"eq": False, "fin_lo": True, "fin_up": False},
    "upper-only": {"eq": False, "fin_lo": False, "fin_up": True},
    "two-sided": {"eq": False, "fin_lo": True, "fin_up": True},
    "unbounded": {"eq": False, "fin_lo": False, "fin_up": False},
}


def _flip_kind(v) -> str:
    """'same' when the stored flip flag is the constructor's flag, 'negated'
    when it is its negation."""
    if isinstance(v, Sym):
        return "same"
    if v is True or v is False:
        # `not self._apply_flip` evaluated through an atom: handled by caller
        return "bool"
    return "?"


@rule(P)
def c08_1(ctx: Ctx) -> RuleResult:
    res = RuleResult("C08.1", "ENUM", "normalised-constraint rows per bound kind: eq -> one `c - b = 0`; lower -> `c - lb >= 0`; upper -> `ub - c >= 0`; Jacobian rows carry the same sign")
    A = anchors(ctx)
    nc = A.nc_cls
    if nc is None:
        raise AnalysisError("normalised-constraints class not found")
    outcomes = _interpret_rows(ctx, nc)
    init = nc.methods["__init__"]
    # which list holds what: by the values appended
    fields = {}
    for atoms, rows in outcomes:
        for f, vals in rows.items():
            for v in vals:
                if isinstance(v, Sym) and v.text in ("LOWER", "UPPER"):
                    fields["rhs"] = f
                elif isinstance(v, Sym) and v.text == "IDX":
                    fields["idx"] = f
    for atoms, rows in outcomes:
        for f, vals in rows.items():
            if f in fields.values():
                continue
            for v in vals:
                if v is True or v is False:
                    fields.setdefault("bools", set()).add(f) if isinstance(fields.get("bools"), set) else fields.__setitem__("bools", {f})
                elif isinstance(v, Sym):
                    fields["flip"] = f
    # distinguish is_eq from flip among boolean lists: is_eq is the list exposed by the `is_eq` property
    iseq_field = None
    m = nc.methods.get("is_eq")
    if m is not None:
        rt = ctx.X.return_term(m)
        if rt[0] == "attr":
            iseq_field = rt[2]
    if iseq_field is None or "rhs" not in fields or "idx" not in fields:
        raise AnalysisError("cannot identify the is_eq / index / rhs tables of the normalised constraints")
    flip_field = None
    for atoms, rows in outcomes:
        for f in rows:
            if f not in (iseq_field, fields["rhs"], fields["idx"]):
                flip_field = f
    if flip_field is None:
        raise AnalysisError("cannot identify the flip table of the normalised constraints")
    # the flip flag of the constructor: under the default (flip=False): lower rows unflipped, upper rows flipped
    table: dict[str, set] = {k: set() for k in KINDS}
    covered = {k: False for k in KINDS}
    for atoms, rows in outcomes:
        cls = _classify_atoms({k: v for k, v in atoms.items()})
        if cls is None:
            raise AnalysisError(f"unrecognised branch condition in the normalised-constraints constructor: {sorted(atoms)}")
        flipflag = None
        for k, v in atoms.items():
            if "flip" in k:
                flipflag = v
        n = len(rows[iseq_field])
        if not all(len(rows[f]) == n for f in (fields["rhs"], fields["idx"], flip_field)):
            res.add(init, init.node, "every branch appends one entry to each of the four row tables", False,
                    f"tables get different numbers of entries under {atoms}", construct="row tables stay aligned")
            continue
        got = []
        for i in range(n):
            fl = rows[flip_field][i]
            if isinstance(fl, Sym):
                flipped = False  # the constructor's own flag, unmodified
            elif fl is True or fl is False:
                # concrete value obtained from `not flag` with the flag atom known
                flipped = (fl != flipflag) if flipflag is not None else None
            else:
                flipped = None
            rhs = rows[fields["rhs"]][i]
            got.append((rows[iseq_field][i], rhs.text if isinstance(rhs, Sym) else repr(rhs), flipped,
                        rows[fields["idx"]][i].text if isinstance(rows[fields["idx"]][i], Sym) else "?"))
        for kind, req in KINDS.items():
            if all(cls.get(k) is None or cls.get(k) == v for k, v in req.items()) and all(cls.get(k) is not None for k in req):
                covered[kind] = True
                table[kind].add(tuple(sorted(got, key=repr)))
    expect = {
        "eq": [{(True, "LOWER", False, "IDX")}, {(True, "UPPER", False, "IDX")}],
        "lower-only": [{(False, "LOWER", False, "IDX")}],
        "upper-only": [{(False, "UPPER", True, "IDX")}],
        "two-sided": [{(False, "LOWER", False, "IDX"), (False, "UPPER", True, "IDX")}],
        "unbounded": [set()],
    }
    for kind in KINDS:
        if not covered[kind]:
            res.add(init, init.node, f"bound kind `{kind}` is handled", False, "no branch of the constructor corresponds to this kind", construct=f"rows for {kind}")
            continue
        ok = all(set(rows) in expect[kind] for rows in table[kind])
        res.add(init, init.node, f"rows for a `{kind}` constraint are {sorted(expect[kind][0]) if expect[kind][0] else 'none'} (is_eq, rhs, flipped, index)", ok,
                "" if ok else f"constructor produces {[sorted(r) for r in table[kind]]}: the normalised constraint is not equivalent to the configured bound",
                construct=f"rows for {kind}")
    # siblings: set_constraints / set_gradients
    X = ctx.X
    for mname, with_rhs in (("set_constraints", True), ("set_gradients", False)):
        m = nc.methods.get(mname)
        if m is None:
            res.add(init, init.node, f"{mname} exists", False, construct=f"{mname} present")
            continue
        stores = [n for n in nodes_in(m, ast.Assign) if any(isinstance(t, ast.Subscript) for t in n.targets)]
        loops = [n for n in nodes_in(m, ast.For)]
        if not loops:
            # whole-array form: where(flip[:, newaxis], -S, S) with S = values[indices, :] (- rhs[:, newaxis])
            wok, wwhy = _whole_array_setter(ctx, m, fields, flip_field, with_rhs)
            res.add(m, m.node, f"{mname}: row k = {'values[index_k] - rhs_k' if with_rhs else 'values[index_k]'}, negated iff flip_k", wok, wwhy, construct=f"{mname} rows")
            continue
        ok = len(loops) == 1
        why = "" if ok else "expected one loop over the row tables"
        base_ok = flip_ok = False
        position_loop = False
        if ok:
            loop = loops[0]
            ztxt = ast.unparse(loop.iter)
            needed = [fields["idx"], flip_field] + ([fields["rhs"]] if with_rhs else [])
            it_ = X.at(m, loop.iter)
            # either a zip over the row tables, or a loop over the row positions `range(len(<a row table>))`
            position_loop = (it_[0] == "call" and it_[1] == ("builtin", "range") and len(it_[2]) == 1 and it_[2][0][0] == "call" and it_[2][0][1] == ("builtin", "len")
                             and it_[2][0][2] and it_[2][0][2][0][0] == "attr" and it_[2][0][2][0][2] in (fields["idx"], flip_field, fields["rhs"], iseq_field))
            # (a table that is not zipped may be read by position: `self._rhs[k]` with k the enumerate index)
            if not position_loop and (not any(f"self.{f}" in ztxt for f in needed) or "zip" not in ztxt):
                ok, why = False, f"loop iterates `{ztxt}`, not a zip over the row tables {needed} (nor their positions)"
        if ok:
            def mentions(t, name):
                return any(x[0] == "attr" and x[2] == name for x in ctx.X.closure(t))

            def is_pos(t):
                return t[0] == "enumidx" or (position_loop and t[0] == "iter" and t[1] == it_)

            def elem_of(t, name):
                # element of table `name` for the current row: a zip component, or `self.<name>[k]` with k the row position
                if t[0] == "iter" and t[1] != it_ and mentions(t[1], name):
                    return True
                return t[0] == "sub" and t[1][0] == "attr" and t[1][2] == name and is_pos(t[2])

            # the right-hand-side table is a list from construction on: a store under `self.<rhs> is None`
            # (a shared fill procedure whose optional table was bound to the field) can never execute
            rhs_never_none = not any(
                isinstance(a, (ast.Assign, ast.AnnAssign)) and a.value is not None
                and any(isinstance(t_, ast.Attribute) and t_.attr == fields["rhs"] for t_ in (a.targets if isinstance(a, ast.Assign) else [a.target]))
                and not isinstance(a.value, (ast.List, ast.ListComp))
                for g in nc.methods.values() for a in nodes_in(g, (ast.Assign, ast.AnnAssign)))

            def dead(n):
                from ..util import path_condition

                for c, pol in path_condition(ctx, m, n):
                    if c[0] == "cmp" and c[1] in ("is", "is not") and ("const", None) in (c[2], c[3]) \
                            and any(o[0] == "attr" and o[2] == fields["rhs"] for o in (c[2], c[3])):
                        if rhs_never_none and ((c[1] == "is") == bool(pol)):
                            return True
                return False

            base_results = []
            for n in stores:
                vt = X.at(m, n.value)
                tt = n.targets[0]
                row = X.at(m, tt.slice.elts[0] if isinstance(tt.slice, ast.Tuple) else tt.slice)
                if not is_pos(row):
                    continue
                if vt[0] == "unary" and vt[1] == "-":
                    # flipped copy: negates the row just written, under `if <flip_k>`
                    cur = parent(n)
                    ft = X.value_at(m, cur.test) if isinstance(cur, ast.If) else ("const", None)
                    same_row = vt[2][0] == "sub" and any(x == row for x in subterms(vt[2][2]))
                    flip_ok = elem_of(ft, flip_field) and same_row
                else:
                    if dead(n):
                        continue

                    def values_row(t):
                        return (
                            t[0] == "sub" and any(x[0] == "param" and x[2] == m.positional[1] for x in subterms(t[1]))
                            and any(elem_of(x, fields["idx"]) for x in subterms(t[2]))
                        )

                    if with_rhs:
                        base_results.append(vt[0] == "binop" and vt[1] == "-" and values_row(vt[2]) and elem_of(vt[3], fields["rhs"]))
                    else:
                        base_results.append(values_row(vt) and not mentions(vt, fields["rhs"]))
            base_ok = bool(base_results) and all(base_results)
            ok = base_ok and flip_ok
            if not base_ok:
                why = ("row value is not `values[index] - rhs`" if with_rhs else "Jacobian row is not `values[index]` (no right-hand side)")
            elif not flip_ok:
                why = "the row is not negated under its own flip flag"
        res.add(m, m.node, f"{mname}: row k = {'values[index_k] - rhs_k' if with_rhs else 'values[index_k]'}, negated iff flip_k", ok, why, construct=f"{mname} rows")
    res.exhaustive = True
    res.floor = 7
    return res


def _whole_array_setter(ctx: Ctx, m: Func, fields: dict, flip_field: str, with_rhs: bool):
    """The vectorised spelling of the row loop: the stored array is `where(flip[:, newaxis], -S, S)`, S the rows
    `values[indices, :]` of the raw values, for the constraint values minus `rhs[:, newaxis]`."""
    from ..pattern import norm

    X = ctx.X

    def strip(t):
        """numpy.asarray / array wrappers and broadcasting of a per-row vector over the columns"""
        while True:
            if t[0] == "call" and t[1][0] == "global" and t[1][1] in ("numpy.asarray", "numpy.array", "numpy.ascontiguousarray") and t[2]:
                t = t[2][0]
            elif t[0] == "sub" and t[2][0] == "tuple" and len(t[2][1]) == 2 and t[2][1][0] == ("slice", ("const", None), ("const", None), ("const", None)) \
                    and t[2][1][1] in (("global", "numpy.newaxis"), ("const", None)):
                t = t[1]
            elif t[0] == "call" and t[1] == ("global", "numpy.expand_dims") and t[2]:
                t = t[2][0]
            else:
                return t

    def is_field(t, name):
        t = strip(t)
        return t[0] == "attr" and t[2] == name and t[1][0] == "param"

    def values_rows(t):
        t = strip(t)
        if t[0] != "sub" or not any(x[0] == "param" and x[2] == m.positional[1] for x in subterms(t[1])):
            return False
        idx = t[2][1][0] if t[2][0] == "tuple" and t[2][1] else t[2]
        return is_field(idx, fields["idx"])

    stores = [n for n in nodes_in(m, ast.Assign) if any(isinstance(t_, ast.Attribute) for t_ in n.targets)]
    if len(stores) != 1:
        return False, "expected one loop over the row tables, or one whole-array store"
    t = X.at(m, stores[0].value)
    t = strip(t)
    if not (t[0] == "call" and t[1] == ("global", "numpy.where") and len(t[2]) == 3):
        return False, "the stored array is not where(flip, -rows, rows)"
    c, a, b = t[2]
    if not is_field(c, flip_field):
        return False, "the rows are not negated under their own flip flags"
    na, nb = norm(a), norm(b)
    if na != norm(("unary", "-", b)):
        if nb == norm(("unary", "-", a)):
            return False, "the rows are negated where the flip flag is *not* set"
        return False, "the flipped alternative is not the negated row"
    body = strip(b)
    if with_rhs:
        ok = body[0] == "binop" and body[1] == "-" and values_rows(body[2]) and is_field(body[3], fields["rhs"])
        return ok, "" if ok else "row value is not `values[index] - rhs`"
    ok = values_rows(body) and not any(x[0] == "attr" and x[2] == fields["rhs"] for x in X.closure(body))
    return ok, "" if ok else "Jacobian row is not `values[index]` (no right-hand side)"


# --------------------------------------------------------------------- C08.2
def _block_kind(ctx: Ctx, f: Func, t: Term, depth: int = 0) -> str | None:
    """'NL' when a block is made of the non-linear constraint values / bounds / Jacobians
    (configuration field `nonlinear_constraints`, or the evaluator results obtained through the
    plug-in's cached-evaluation accessor), 'LIN' when it is made of the linear constraints
    (configuration field `linear_constraints`, or a parameter that receives them)."""
    A = anchors(ctx)
    t = ctx.X.force_inline(t, f)
    names = {s_[2] for s_ in ctx.X.closure(t) if s_[0] == "attr"}
    if "nonlinear_constraints" in names:
        return "NL"
    if "linear_constraints" in names:
        return "LIN"
    # values computed by the evaluator callback (through methods of the plug-in)
    for s_ in ctx.X.closure(t):
        if s_[0] == "call":
            for g in ctx.cg.resolve_fn(s_[1], f):
                if g.cls is A.cls and A.validator in ctx.cg.reachable([g], include_nested_values=False) or g.cls is A.cls and _reads_cache(ctx, g):
                    return "NL"
                if g.cls is None and g.module.name.startswith("ropt.plugins.optimizer") and any(
                    x[0] == "attr" and x[2] == "linear_constraints" for x in ctx.X.closure(ctx.X.return_term(g))):
                    return "LIN"
    if depth < 3:
        kinds = set()
        for s_ in subterms(t):
            if s_[0] == "param" and s_[1] == f.qualname and f.positional and s_[2] != f.positional[0]:
                for v in ctx.cg.param_values(f, s_[2]):
                    if v is not None and v != ("const", None):
                        owner = ctx.repo.funcs.get(next((x[1] for x in subterms(v) if x[0] == "param"), ""), f)
                        k = _block_kind(ctx, owner, v, depth + 1)
                        if k:
                            kinds.add(k)
        if len(kinds) == 1:
            return kinds.pop()
    return None


def _reads_cache(ctx: Ctx, g: Func) -> bool:
    A = anchors(ctx)
    return any(s_[0] == "attr" and s_[2] in A.cache_fields for s_ in ctx.X.closure(ctx.X.return_term(g)))


def _block_order(ctx: Ctx, f: Func, listname: str) -> list[str] | None:
    """Order of 'NL' / 'LIN' blocks appended to a local list."""
    order = []
    for n in sorted(nodes_in(f, ast.Call), key=lambda n: (n.lineno, n.col_offset)):
        if isinstance(n.func, ast.Attribute) and n.func.attr == "append" and isinstance(n.func.value, ast.Name) and n.func.value.id == listname and n.args:
            k = _block_kind(ctx, f, ctx.X.at(f, n.args[0]))
            if k is None:
                return None
            order.append(k)
    return order


@rule(P)
def c08_2(ctx: Ctx) -> RuleResult:
    res = RuleResult("C08.2", "COH", "[nonlinear, linear] block order agrees between the bounds, the constraint values and the Jacobians")
    A = anchors(ctx)
    sites = []
    for m in A.cls.methods.values():
        lists = set()
        for n in nodes_in(m, ast.Call):
            if isinstance(n.func, ast.Attribute) and n.func.attr == "append" and isinstance(n.func.value, ast.Name):
                lists.add(n.func.value.id)
        for ln in sorted(lists):
            # only lists that are concatenated
            used = any(isinstance(c, ast.Call) and dotted(c.func) in ("np.concatenate", "numpy.concatenate", "np.vstack", "np.hstack") and any(isinstance(a, ast.Name) and a.id == ln for a in c.args) for c in calls_in(m))
            if used:
                sites.append((m, ln, _block_order(ctx, m, ln)))
    if len(sites) < 4:
        raise AnalysisError(f"expected >= 4 concatenated block lists (lower, upper, values, Jacobians), found {len(sites)}")
    ref = None
    for m, ln, order in sites:
        if order is None:
            res.add(m, m.node, f"blocks appended to `{ln}` are recognisable as nonlinear / linear", False, "cannot classify an appended block", construct=f"{m.name}: {ln} order")
            continue
        full = [o for o in order]
        if ref is None and len(full) == 2:
            ref = full
    for m, ln, order in sites:
        if order is None:
            continue
        ok = ref is not None and order == ref[: len(order)] if len(order) < 2 else order == ref
        res.add(m, m.node, f"`{ln}` is assembled in the common block order {ref}", ok,
                "" if ok else f"`{ln}` is assembled as {order} but the other sites use {ref}: normalised rows and values/Jacobians are misaligned",
                construct=f"{m.name}: {ln} order")
    return res


# --------------------------------------------------------------------- C08.3
def _nrm(t: Term) -> Term:
    from ..pattern import norm

    return norm(t)


@rule(P)
def c08_3(ctx: Ctx) -> RuleResult:
    res = RuleResult("C08.3", "COH", "masked linear constraints: rows that touch fixed variables are dropped, free columns kept, fixed values moved to the bounds")
    f = None
    for g in ctx.repo.funcs_in("ropt.plugins.optimizer.utils"):
        rt = ctx.X.return_term(g)
        if any(ends_with_attrs(s, "linear_constraints", "coefficients") for s in ctx.X.closure(rt)) and g.cls is None:
            f = g
    if f is None:
        raise AnalysisError("masked-linear-constraints helper not found")
    rt = ctx.X.return_term(f)
    from ..terms import ifexp_to_phi, phi as mkphi

    tuples = [a for a in alts(ifexp_to_phi(rt))]
    if not tuples or any(a[0] != "tuple" or len(a[1]) != 3 for a in tuples):
        raise AnalysisError("masked-linear-constraints helper does not return a 3-tuple")
    # one (coefficients, lower, upper) triple per returning path: merge position-wise
    coef, lo, up = (mkphi([a[1][i] for a in tuples]) for i in range(3))

    def is_mask(t):
        return ends_with_attrs(t, "variables", "mask")

    def is_notmask(t):
        return t[0] == "unary" and t[1] == "~" and is_mask(t[2]) or (t[0] == "call" and t[1] == ("global", "numpy.logical_not") and is_mask(t[2][0]))

    masked_alts = [a for a in alts(coef) if contains(a, is_mask)]
    ok = bool(masked_alts)
    row_sel = None
    col_ok = False
    for a in masked_alts:
        # coefficients[keep_rows, :][:, mask]
        if a[0] == "sub" and a[2][0] == "tuple" and len(a[2][1]) == 2 and is_mask(a[2][1][1]):
            col_ok = True
            inner = a[1]
            if inner[0] == "sub" and inner[2][0] == "tuple":
                row_sel = inner[2][1][0]
    res.add(f, f.node, "with a mask the returned matrix keeps the free columns (`[:, mask]`, positive polarity)", col_ok,
            "" if col_ok else f"coefficients are returned as `{show(coef, 120)}`", construct="masked lin: free columns")
    rs_ok = False
    if row_sel is not None:
        # keep_rows = all(coefficients[:, ~mask] == 0, axis=1)
        rs_ok = (
            row_sel[0] == "call" and row_sel[1] == ("global", "numpy.all")
            and contains(row_sel, lambda s: s[0] == "cmp" and s[1] == "==" and s[3] == ("const", 0) and s[2][0] == "sub" and s[2][2][0] == "tuple" and is_notmask(s[2][2][1][1]))
            and any(k == "axis" and v == ("const", 1) for k, v in row_sel[3])
        )
    res.add(f, f.node, "kept rows are those whose coefficients on the fixed columns (`~mask`) are all zero", rs_ok,
            "" if rs_ok else f"row selector is `{show(row_sel, 120) if row_sel else '?'}`", construct="masked lin: row test")
    for name, t in (("lower", lo), ("upper", up)):
        good = False
        why = f"{name} bounds are returned as `{show(t, 140)}`"
        talts = [a for a in alts(t)]
        if talts and all(a[0] == "binop" and a[1] == "-" for a in talts):
            b_alts = [x for a in talts for x in alts(a[2])]
            o_alts = [x for a in talts for x in alts(a[3])]
            t = ("binop", "-", mkphi(b_alts), mkphi(o_alts))
            b_masked = [a for a in b_alts if a[0] == "sub"]
            b_plain = [a for a in b_alts if a[0] != "sub"]
            o_masked = [_nrm(a) for a in o_alts if _nrm(a)[0] == "call"]
            o_plain = [a for a in o_alts if a[0] == "const"]
            sel_same = len(b_masked) == 1 and b_masked[0][2] == row_sel and ends_with_attrs(b_masked[0][1], "linear_constraints", f"{name}_bounds")
            off_ok = False
            if len(o_masked) == 1:
                off = o_masked[0]
                off_ok = (
                    off[1][0] == "global" and off[1][1] in ("numpy.matmul", "numpy.dot") and len(off[2]) == 2
                    and contains(off[2][0], is_notmask) and contains(off[2][0], lambda s: s == row_sel or s == _nrm(row_sel))
                    and off[2][1][0] == "sub" and is_notmask(off[2][1][2]) and ends_with_attrs(off[2][1][1], "variables", "initial_values")
                )
            plain_ok = all(ends_with_attrs(a, "linear_constraints", f"{name}_bounds") for a in b_plain) and all(a == ("const", 0) for a in o_plain)
            good = sel_same and off_ok and plain_ok and len(b_plain) <= 1 and len(o_plain) <= 1
            if not sel_same:
                why = f"{name} bounds are not selected with the same row selector as the matrix"
            elif not off_ok:
                why = f"the offset subtracted from the {name} bounds is not A[rows, fixed] . x_fixed: `{show(t[3], 120)}`"
        res.add(f, f.node, f"{name} bounds: same row selector as the matrix, minus A[rows, fixed] . x_fixed", good,
                "" if good else why, construct=f"masked lin: {name} bounds")
    # without a mask nothing changes
    plain = [a for a in alts(coef) if not contains(a, is_mask)]
    ok = any(ends_with_attrs(a, "linear_constraints", "coefficients") for a in plain)
    res.add(f, f.node, "without a mask the configured matrix is returned unchanged", ok, "" if ok else "no unmasked alternative", construct="masked lin: no mask")
    res.floor = 5
    return res


# --------------------------------------------------------------------- C08.4
def option_parsers(ctx: Ctx, A: Anchors) -> list[Func]:
    """Methods whose result reaches `options=` / `**options` of a SciPy entry point."""
    out = []
    for call in calls_in(A.start):
        fn = ctx.X.at(A.start, call.func)
        if fn[0] == "global" and fn[1] in SCIPY_ENTRY:
            t = ctx.X.at(A.start, call)
            for k, v in t[3]:
                if k in ("options", "**"):
                    for s in subterms(v):
                        if s[0] == "attr" and root_of(s)[0] == "param":
                            for m, val in ctx.cg.field_stores(A.cls, s[2]):
                                for g in ctx.cg.resolve_fn(val[1], m) if val[0] == "call" else []:
                                    if g not in out and g.cls is A.cls:
                                        out.append(g)
    if not out:
        raise AnalysisError("option parser (source of SciPy's options) not found")
    return out


@rule(P)
def c08_4(ctx: Ctx) -> RuleResult:
    res = RuleResult("C08.4", "DOM", "a configured max_iterations reaches the back-end as its iteration limit on every path of the option parser")
    A = anchors(ctx)
    for f in option_parsers(ctx, A):
        cfg = cfg_of(ctx.repo, f)
        pf = PathFinder(cfg, dataflow_of(ctx.repo, f))
        tests = set()
        store_keys = {}
        for n in nodes_in(f, ast.If):
            t = ctx.X.value_at(f, n.test)
            if contains(t, lambda s: s[0] == "cmp" and s[1] == "is not" and s[3] == ("const", None) and ends_with_attrs(s[2], "optimizer", "max_iterations")):
                tests.update(cfg.node_containing(n.test))
                for s in ast.walk(n):
                    if isinstance(s, ast.Assign):
                        for tt in s.targets:
                            if isinstance(tt, ast.Subscript) and isinstance(tt.slice, ast.Constant):
                                vt = ctx.X.at(f, s.value)
                                if ends_with_attrs(vt, "optimizer", "max_iterations"):
                                    store_keys[tt.slice.value] = s
        rets = [n for n in cfg.nodes if n.kind == "stmt" and isinstance(n.ast, ast.Return)]
        live = cfg.live_nodes()
        for r_ in rets:
            if r_ not in live:
                continue
            path = pf.find_path(cfg.entry, lambda m, r_=r_: m is r_, blocked=lambda m: m in tests)
            ok = path is None and bool(tests)
            res.add(f, r_.ast, "this return is reached only after max_iterations was looked at", ok,
                    "" if ok else "the parser can return without forwarding max_iterations (e.g. when no options dict is configured): the iteration limit is silently dropped",
                    [] if ok else describe_path(f, path))
            # the returned dict is the one the limit was stored into
        # the stores of the limit: key (possibly chosen by a conditional expression) and the condition
        # under which each key is used
        from ..util import bool_nnf, guard_leaves, nnf_literals, path_condition

        keyed: dict = {}
        for st_ in nodes_in(f, ast.Assign):
            for tt in st_.targets:
                if not isinstance(tt, ast.Subscript):
                    continue
                if not ends_with_attrs(ctx.X.at(f, st_.value), "optimizer", "max_iterations"):
                    continue
                pc = path_condition(ctx, f, st_)
                for conds, leaf in guard_leaves(ctx.X.value_at(f, tt.slice)):
                    if leaf[0] != "const":
                        continue
                    g_ = bool_nnf(("bool", "and", tuple(c if p else ("unary", "not", c) for c, p in pc) + tuple(a if p else ("unary", "not", a) for a, p in conds))) if (pc or conds) else ("lit", ("const", True), True)
                    keyed.setdefault(leaf[1], []).append((st_, nnf_literals(g_) if g_[0] in ("and", "lit") else []))
        # the limit wins: nothing merged into the returned dict after the store can replace the entry (the user's own
        # `maxiter` entry is documented to be overridden by max_iterations)
        is_limit = lambda v: ends_with_attrs(v, "optimizer", "max_iterations")  # noqa: E731
        LIMIT_KEYS = {"maxiter", "maxfun"}

        def has_store(t) -> bool:
            return contains(t, lambda s_: s_[0] == "update" and is_limit(s_[4])) or contains(
                t, lambda s_: s_[0] == "dict" and any(is_limit(v_) for _k, v_ in s_[1]))

        def key_consts(kt):
            """the constant keys a key term can take (None: unknown)"""
            if kt[0] == "const":
                return {kt[1]}
            if kt[0] == "ifexp":
                a_, b_ = key_consts(kt[2]), key_consts(kt[3])
                return None if a_ is None or b_ is None else a_ | b_
            if kt[0] == "phi":
                outs_ = [key_consts(x) for x in kt[1]]
                return None if any(o is None for o in outs_) else set().union(*outs_)
            return None

        def harmless(t) -> bool:
            """a dict that certainly has no iteration-limit entry"""
            if t[0] == "dict":
                return all(k_[0] != "star" and (key_consts(k_) or {None}).isdisjoint(LIMIT_KEYS | {None}) or (k_[0] == "star" and harmless(v_)) for k_, v_ in t[1])
            if t[0] == "update":
                kc = key_consts(t[3])
                return kc is not None and kc.isdisjoint(LIMIT_KEYS) and harmless(t[1])
            if t[0] == "phi":
                return all(harmless(x) for x in t[1])
            return False

        def wins(t, depth: int = 0) -> bool:
            if depth > 40 or not has_store(t):
                return True
            if t[0] == "phi":
                return all(wins(x, depth + 1) for x in t[1])
            if t[0] == "update":
                if is_limit(t[4]):
                    return True
                kc = key_consts(t[3])
                return kc is not None and kc.isdisjoint(LIMIT_KEYS) and wins(t[1], depth + 1)
            if t[0] == "binop" and t[1] == "|":
                if has_store(t[3]):
                    return wins(t[3], depth + 1)
                return harmless(t[3]) and wins(t[2], depth + 1)
            if t[0] == "mut" and t[2] == "update":
                arg = t[3][2][0] if t[3][0] == "call" and len(t[3][2]) == 1 else None
                if arg is not None and has_store(arg):
                    return wins(arg, depth + 1)
                return arg is not None and harmless(arg) and wins(t[1], depth + 1)
            if t[0] == "dict":
                later_ok = True
                for k_, v_ in reversed(t[1]):
                    if k_[0] == "star":
                        if has_store(v_):
                            return later_ok and wins(v_, depth + 1)
                        later_ok = later_ok and harmless(v_)
                    else:
                        if is_limit(v_):
                            return later_ok
                        kc = key_consts(k_)
                        later_ok = later_ok and kc is not None and kc.isdisjoint(LIMIT_KEYS)
                return True
            if t[0] == "call" and t[1] in (("builtin", "dict"), ("global", "copy.deepcopy"), ("global", "copy.copy")) and len(t[2]) == 1 and not t[3]:
                return wins(t[2][0], depth + 1)
            if t[0] == "call" and t[1][0] == "attr" and t[1][2] == "copy" and not t[2]:
                return wins(t[1][1], depth + 1)
            return False

        for r_ in rets:
            if r_ in live and r_.ast.value is not None:
                rt_ = ctx.X.at(f, r_.ast.value)
                if has_store(rt_):
                    ok = wins(rt_)
                    res.add(f, r_.ast, "nothing merged into the returned options after the limit was stored can replace it (max_iterations overrides a user-supplied maxiter)", ok,
                            "" if ok else "the limit is stored first and the user's options are merged over it afterwards: a `maxiter` / `maxfun` entry of the options dict wins over max_iterations",
                            construct="limit wins over user options")
        ok = "maxiter" in keyed
        res.add(f, keyed["maxiter"][0][0] if ok else f.node, "max_iterations is stored as `maxiter`", ok, "" if ok else "no options['maxiter'] = max_iterations", construct="maxiter store")
        ok = "maxfun" in keyed
        tnc_ok = ok and all(any(p and contains(a, lambda s_: s_ == ("const", "tnc")) for a, p in lits) for _st, lits in keyed["maxfun"])
        res.add(f, keyed["maxfun"][0][0] if ok else f.node, "for TNC the limit is stored as `maxfun`", bool(ok and tnc_ok),
                "" if ok and tnc_ok else "TNC does not receive its limit as maxfun", construct="maxfun store for tnc")
    res.floor = 3
    return res


# --------------------------------------------------------------------- C08.5
def _leaf_attrs(ctx: Ctx, t: Term) -> set[str]:
    """Config attribute names (last component) a term derives from, seeing
    through tuple items of package helpers."""
    out = set()
    for s in ctx.X.closure(t):
        if s[0] == "attr" and root_of(s)[0] == "param":
            out.add(s[2])
    return out


def _item_of_call(ctx: Ctx, f: Func, t: Term) -> Term:
    """Resolve ('item', call(package fn), i) to the i-th element of the callee's returned tuple."""
    if t[0] == "phi":
        from ..terms import phi

        return phi(_item_of_call(ctx, f, a) for a in t[1])
    if t[0] == "item" and t[1][0] == "call":
        for g in ctx.cg.resolve_fn(t[1][1], f):
            rt = ctx.X.return_term(g)
            if rt[0] == "tuple" and 0 <= t[2] < len(rt[1]):
                return rt[1][t[2]]
    return t


@rule(P)
def c08_5(ctx: Ctx) -> RuleResult:
    res = RuleResult("C08.5", "COH", "values in lower/upper slots derive from the like-named configuration attribute (never swapped or duplicated)")
    A = anchors(ctx)
    slots = {
        "scipy.optimize.Bounds": (("lb", 0), ("ub", 1)),
        "scipy.optimize.LinearConstraint": (("lb", 1), ("ub", 2)),
        "scipy.optimize.NonlinearConstraint": (("lb", 1), ("ub", 2)),
    }
    methods = list(A.cls.methods.values())
    for m in list(methods):
        methods += list(m.nested.values())
    n = 0
    for m in methods:
        for call in calls_in(m):
            fn = ctx.X.at(m, call.func)
            spec = None
            if fn[0] == "global" and fn[1] in slots:
                spec = slots[fn[1]]
            elif fn[0] == "global" and A.nc_cls is not None and fn[1] == A.nc_cls.qualname:
                spec = (("lower", 0), ("upper", 1))
            if spec is None:
                continue
            t = ctx.X.at(m, call)
            for (kw, pos), want, other in ((spec[0], "lower_bounds", "upper_bounds"), (spec[1], "upper_bounds", "lower_bounds")):
                arg = None
                for k, v in t[3]:
                    if k == kw:
                        arg = v
                if arg is None and pos < len(t[2]):
                    arg = t[2][pos]
                if arg is None:
                    continue
                n += 1
                from ..util import deep_leaf_attrs

                leaves = deep_leaf_attrs(ctx, m, arg)
                ok = want in leaves and other not in leaves
                res.add(m, call, f"the {want.split('_')[0]} slot of {fn[1].rsplit('.', 1)[-1]} derives from `{want}` only", ok,
                        "" if ok else f"slot derives from {sorted(l for l in leaves if 'bounds' in l)}: lower and upper roles are mixed",
                        construct=f"{m.name}: {fn[1].rsplit('.', 1)[-1]}.{kw}")
    res.floor = 6
    return res


# --------------------------------------------------------------------- C08.6
@rule(P)
def c08_6(ctx: Ctx) -> RuleResult:
    res = RuleResult("C08.6", "DOM", "unsupported constraint kinds are rejected before any constraint object is built")
    A = anchors(ctx)
    init = A.cls.methods.get("__init__")
    if init is None:
        raise AnalysisError("optimizer __init__ not found")
    val = ctx.repo.func("ropt.plugins.optimizer.utils.validate_supported_constraints")
    cfg = cfg_of(ctx.repo, init)
    vnodes = set()
    for call, cs, _k in ctx.cg.all_callees(init):
        if val in cs:
            vnodes.update(cfg.node_containing(call))
    builders = []
    for call, cs, _k in ctx.cg.all_callees(init):
        for g in cs:
            if g.cls is A.cls and _builds_scipy_objects(ctx, g, set()):
                builders.append(call)
    if not builders:
        raise AnalysisError("no constraint/bounds construction found in the optimizer constructor")
    for b in builders:
        ok = bool(vnodes) and all(any(cfg.dominates(v, n) for v in vnodes) for n in cfg.node_containing(b))
        res.add(init, b, "validate_supported_constraints is called before this construction on every path", ok,
                "" if ok else "constraints are built without (or before) checking that the method supports them", construct=f"__init__: {norm_stmt(b)[:60]}")
    # the checker itself: raise when a constraint is present and unsupported / absent and required
    chk = None
    for g in ctx.repo.funcs_in("ropt.plugins.optimizer.utils"):
        if g.cls is None and "have_constraint" in g.params:
            chk = g
    if chk is None:
        raise AnalysisError("constraint checker with `have_constraint` not found")
    from ..util import bool_nnf, path_condition

    conds = []
    for r_ in nodes_in(chk, ast.Raise):
        pc = path_condition(ctx, chk, r_)
        if pc:
            g_ = bool_nnf(("bool", "and", tuple(c if p else ("unary", "not", c) for c, p in pc)))
            conds.append([(it[1], it[2]) for it in (g_[1] if g_[0] == "and" else [g_]) if it[0] == "lit"])

    def has(conj, neg_have, neg_in):
        have = any(a[0] == "param" and a[2] == "have_constraint" and p == (not neg_have) for a, p in conj)
        member = any(a[0] == "cmp" and a[1] == "in" and p == (not neg_in) for a, p in conj)
        return have and member

    ok1 = any(has(c, False, True) for c in conds)
    ok2 = any(has(c, True, False) for c in conds)
    res.add(chk, chk.node, "a present constraint kind that the method does not support raises", ok1, "" if ok1 else "missing `have and method not in supported -> raise`", construct="checker: unsupported raises")
    res.add(chk, chk.node, "an absent constraint kind that the method requires raises", ok2, "" if ok2 else "missing `not have and method in required -> raise`", construct="checker: required raises")
    # every kind of the message table is validated somewhere
    msgs = ctx.repo.module("ropt.plugins.optimizer.utils").constants.get("_MESSAGES")
    kinds = [k.value for k in msgs.keys] if isinstance(msgs, ast.Dict) else []
    used = set()
    for g in ctx.repo.funcs_in("ropt.plugins.optimizer.utils"):
        for call in calls_in(g):
            if chk in ctx.cg.callees_of_call(g, call) and call.args and isinstance(call.args[0], ast.Constant):
                used.add(call.args[0].value)
    for k in kinds:
        res.add(val, val.node, f"constraint kind `{k}` is validated", k in used, "" if k in used else f"`{k}` is never checked", construct=f"validated kind {k}")
    # what counts as "having" each kind of constraint
    import itertools

    from .c13 import eval_finiteness

    for g in ctx.repo.funcs_in("ropt.plugins.optimizer.utils"):
        for call in calls_in(g):
            if chk not in ctx.cg.callees_of_call(g, call) or not call.args or not isinstance(call.args[0], ast.Constant):
                continue
            kind = call.args[0].value
            hv = None
            for kw in call.keywords:
                if kw.arg == "have_constraint":
                    hv = ctx.X.at(g, kw.value)
            if hv is None:
                res.add(g, call, f"`{kind}`: have_constraint is passed", False, "missing have_constraint", construct=f"have {kind}")
                continue
            if kind == "bounds":
                bad = []
                for lo_, up_ in itertools.product(("all", "mixed", "none"), repeat=2):
                    v = eval_finiteness(hv, {"lower": lo_, "upper": up_})
                    want = not (lo_ == "none" and up_ == "none")
                    if v is None or v != want:
                        bad.append((lo_, up_, v))
                ok = not bad
                res.add(g, call, "bounds are present iff any lower or any upper variable bound is finite (9 finiteness kinds)", ok,
                        "" if ok else f"for (lower, upper, evaluates-to) = {bad[:3]} the presence of bound constraints is misjudged: a method without bound support is accepted and SciPy ignores the bounds",
                        construct=f"have {kind}")
            else:
                fam = "linear_constraints" if kind.startswith("linear") else "nonlinear_constraints"
                from ..pattern import norm as _norm

                n = _norm(hv)
                neg = False
                core = n
                if core[0] == "call" and core[1] == ("builtin", "bool") and core[2]:
                    core = core[2][0]
                if core[0] == "unary" and core[1] == "not":
                    neg, core = True, core[2]
                    if core[0] == "call" and core[1] == ("builtin", "bool") and core[2]:
                        core = core[2][0]
                elif n[0] == "unary" and n[1] == "not":
                    neg, core = True, n[2]
                    if core[0] == "call" and core[1] == ("builtin", "bool") and core[2]:
                        core = core[2][0]
                is_eq = core[0] == "call" and core[1] == ("global", "numpy.allclose") and len(core[2]) >= 2
                roles = is_eq and ends_with_attrs(core[2][0], fam, "lower_bounds") and ends_with_attrs(core[2][1], fam, "upper_bounds") or (
                    is_eq and ends_with_attrs(core[2][1], fam, "lower_bounds") and ends_with_attrs(core[2][0], fam, "upper_bounds"))
                want_neg = kind.endswith("ineq")
                ok = bool(is_eq and roles and neg == want_neg)
                res.add(g, call, f"`{kind}` is present iff the {fam} bounds are {'not ' if want_neg else ''}all equal (allclose(lower, upper))", ok,
                        "" if ok else f"have_constraint is `{show(hv, 90)}`", construct=f"have {kind}")
    # sibling: the plug-in passes Bounds to SciPy under the same condition
    ib = None
    for m in A.cls.methods.values():
        if any(ctx.X.at(m, c.func) == ("global", "scipy.optimize.Bounds") for c in calls_in(m)):
            ib = m
    if ib is not None:
        from ..util import path_condition

        bcalls = [x for x in calls_in(ib) if ctx.X.at(ib, x.func) == ("global", "scipy.optimize.Bounds")]
        forms = []
        for bc in bcalls:
            st_ = bc
            while parent(st_) is not None and not isinstance(st_, ast.stmt):
                st_ = parent(st_)
            # the part of the path condition that is about finiteness of the bounds (the rest selects mask / no mask)
            parts = [(c_, p_) for c_, p_ in path_condition(ctx, ib, st_)
                     if contains(c_, lambda s_: s_[0] == "call" and s_[1][0] == "global" and s_[1][1] in ("numpy.isfinite", "numpy.isinf", "numpy.isneginf", "numpy.isposinf"))]
            forms.append(("bool", "and", tuple(c_ if p_ else ("unary", "not", c_) for c_, p_ in parts)) if parts else ("const", True))
        bad = []
        for lo_, up_ in itertools.product(("all", "mixed", "none"), repeat=2):
            want = not (lo_ == "none" and up_ == "none")
            vals = [eval_finiteness(fm, {"lower": lo_, "upper": up_}) if fm != ("const", True) else True for fm in forms]
            if any(v is None for v in vals) or (want != any(vals)):
                bad.append((lo_, up_, vals))
        res.add(ib, bcalls[0] if bcalls else ib.node, "a Bounds object is handed to SciPy iff any variable bound is finite (same condition as the validation)", bool(bcalls) and not bad,
                "" if bcalls and not bad else f"Bounds are dropped / created for {bad[:3]}", construct=f"{ib.name}: Bounds condition")
    res.floor = 13
    return res


def _builds_scipy_objects(ctx: Ctx, g: Func, seen: set) -> bool:
    if g.qualname in seen:
        return False
    seen.add(g.qualname)
    for call in calls_in(g):
        fn = ctx.X.at(g, call.func)
        if fn[0] == "global" and (fn[1] in SCIPY_OBJECTS or fn[1].endswith("NormalizedConstraints")):
            return True
    for _c, cs, _k in ctx.cg.all_callees(g):
        for h in cs:
            if _builds_scipy_objects(ctx, h, seen):
                return True
    return False


# --------------------------------------------------------------------- C08.7
PER_VARIABLE = ("lower_bounds", "upper_bounds", "types", "initial_values")


def _mask_term(t: Term) -> bool:
    return ends_with_attrs(t, "variables", "mask")


def unmasked_leaves(ctx: Ctx, t: Term) -> list[Term]:
    """Per-variable config leaves of t that have no masked alternative."""
    leaves = [s for s in ctx.X.closure(t) if s[0] == "attr" and s[2] in PER_VARIABLE and len(attr_chain(s)[1]) >= 2 and attr_chain(s)[1][-2] == "variables"]
    masked = []
    for s in ctx.X.closure(t):
        if s[0] == "sub":
            idx = s[2]
            if _mask_term(idx) or (idx[0] == "tuple" and any(_mask_term(x) for x in idx[1])):
                masked.append(s[1])
    bad = []
    for lf in leaves:
        if not any(contains(mt, lambda x, lf=lf: x == lf) for mt in masked):
            bad.append(lf)
    return bad


@rule(P)
def c08_7(ctx: Ctx) -> RuleResult:
    res = RuleResult("C08.7", "COH", "every per-variable array handed to SciPy is restricted to the free variables when a mask is configured")
    A = anchors(ctx)
    n = 0
    for call in calls_in(A.start):
        fn = ctx.X.at(A.start, call.func)
        if not (fn[0] == "global" and fn[1] in SCIPY_ENTRY):
            continue
        t = ctx.X.at(A.start, call)
        for k, v in list(enumerate(t[2])) + list(t[3]):
            # expand self fields through their stores
            vals = [v]
            for s in subterms(v):
                if s[0] == "attr" and root_of(s)[0] == "param" and len(attr_chain(s)[1]) == 1:
                    for m, val in ctx.cg.field_stores(A.cls, s[2]):
                        vals.append(_expand_calls(ctx, m, val, 0))
            def has_mask_index(term):
                return any(
                    x[0] == "sub" and (_mask_term(x[2]) or (x[2][0] == "tuple" and any(_mask_term(y) for y in x[2][1])))
                    for x in ctx.X.closure(term)
                )

            if k == "x0":
                n += 1
                ok = has_mask_index(v)
                res.add(A.start, call, "x0 is restricted to the free variables when a mask is set", ok,
                        "" if ok else "initial values reach SciPy at full length", construct=f"{fn[1].rsplit('.', 1)[-1]}: x0")
                continue
            for vv in vals:
                has_pv = any(x[0] == "attr" and x[2] in PER_VARIABLE and len(attr_chain(x)[1]) >= 2 and attr_chain(x)[1][-2] == "variables" for x in ctx.X.closure(vv))
                if not has_pv:
                    continue
                bad = unmasked_leaves(ctx, vv)
                n += 1
                ok = not bad
                res.add(A.start, call, f"argument `{k}` of {fn[1].rsplit('.', 1)[-1]}: every per-variable array in it is indexed by variables.mask when a mask is set", ok,
                        "" if ok else f"`{show(bad[0], 80)}` reaches SciPy at full length: with a mask its length differs from the number of free variables",
                        construct=f"{fn[1].rsplit('.', 1)[-1]}: {k} <- {sorted({show(b, 60) for b in bad}) if bad else 'masked'}")
    res.floor = 4
    return res


def _expand_calls(ctx: Ctx, f: Func, t: Term, depth: int) -> Term:
    """Replace calls to methods of the plug-in by their return terms (two levels)."""
    if depth > 2 or not isinstance(t, tuple):
        return t
    if t and t[0] == "call":
        for g in ctx.cg.resolve_fn(t[1], f):
            if g.name not in ("__init__", "__post_init__") and not isinstance(g.node, ast.Lambda):
                return _expand_calls(ctx, g, ctx.X.return_term(g), depth + 1)
    return t


@rule(P)
def c08_8(ctx: Ctx) -> RuleResult:
    """Shared with C07.2: the Jacobian SciPy receives for a point is the derivative of the value at that
    point only if the normalised values *and* Jacobians are dropped together when the point changes."""
    from .c07 import c07_2

    r = c07_2(ctx)
    r.instances = [i for i in r.instances if i.construct.startswith("nc.reset clears") or "normalised constraints" in i.construct]
    for i in r.instances:
        i.rule = "C08.8"
    r.rule, r.title, r.floor = "C08.8", "normalised constraint values and Jacobians are invalidated together (a Jacobian is never one kept from another point)", 2
    return r


@rule(P)
def c08_9(ctx: Ctx) -> RuleResult:
    """Shared with C16.7: the options handed to SciPy are the configured ones."""
    from .c16 import c16_7

    r = c16_7(ctx)
    for i in r.instances:
        i.rule = "C08.9"
    r.rule, r.title = "C08.9", "the options handed to SciPy are the configured options: no entry is dropped because of its value"
    return r


@rule(P)
def c08_10(ctx: Ctx) -> RuleResult:
    """The plug-in indexes with `x[mask]` / `~mask`, which selects and complements only for a boolean array: the
    configuration's array converters must coerce the dtype on every path (sibling agreement of the _convert_* family:
    None stays None, everything else goes through a dtype-coercing constructor)."""
    from ..util import guard_leaves

    res = RuleResult("C08.10", "COH", "array-valued configuration fields are coerced to their dtype on every path (a mask is boolean whatever was passed in)")
    X = ctx.X
    convs = [f for f in ctx.repo.funcs_in("ropt.config.utils") if f.name.startswith("_convert_") and "array" in f.name and f.cls is None]
    if len(convs) < 4:
        raise AnalysisError(f"only {len(convs)} _convert_*array* functions found in ropt.config.utils")
    for f in convs:
        leaves = list(guard_leaves(X.force_inline(X.guarded_return(f), f), strip_wrappers=False))
        bad = []
        for conds, leaf in leaves:
            if leaf == ("const", None) or (leaf[0] == "param" and any(a == ("cmp", "is", leaf, ("const", None)) and p for a, p in conds)):
                continue
            coerces = any(s_[0] == "call" and any(k == "dtype" for k, _v in s_[3]) for s_ in subterms(leaf)) or \
                any(s_[0] == "call" and s_[1][0] == "attr" and s_[1][2] == "astype" for s_ in subterms(leaf))
            if not coerces:
                bad.append(leaf)
        ok = not bad
        res.add(f, f.node, f"`{f.name}` returns None or a dtype-coerced array on every path", ok,
                "" if ok else f"a path returns `{show(bad[0], 60)}` without dtype coercion: e.g. a 0/1 integer mask stays integer, and `x[mask]` / `~mask` in the optimizer plug-in become "
                "fancy indexing / bitwise complement (wrong x0, bounds and constraint rows, no error)",
                construct=f"{f.name}: dtype coercion")
    res.floor = 4
    return res
