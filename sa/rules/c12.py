"""C12 - the tracked best result is the feasible optimum over the whole history.

  C12.1 FLOW  the "better than" comparison is made in the domain the optimizer minimises
  C12.2 DOM   NaN objectives can neither be installed nor block a valid result
  C12.3 TABLE feasibility covers every *_violation field, on the transformed item, `> tolerance`
  C12.4 DOM   tracker updates depend on event type and `event.source in sources`
  C12.5 COH   best and last apply the same admissibility predicate; last scans in reverse
  C12.6 FLOW  BasicOptimizer reports exactly the tracked value
"""

from __future__ import annotations

import ast

from ..core import META, Ctx, RuleResult, rule
from ..model import AnalysisError, Func, norm_stmt, parent
from ..pattern import C, G, V, call, match, norm
from ..terms import Term, alts, contains, ends_with_attrs, root_of, show, subterms
from ..util import calls_in, deep_subterms, nodes_in

P = "C12"
UTILS = "ropt.plugins.plan._utils"
TRACKER = "ropt.plugins.plan._tracker.DefaultTrackerHandler"

META[P] = {
    "explanation": (
        "Provenance of the operands of the tracker's ordering comparison back to the event payload keys (results vs transformed_results), presence and "
        "dominance of NaN tests for candidate and incumbent, a field table for the feasibility test, control dependence of tracker updates on the "
        "event type and source filter, and sibling agreement of the best/last selectors."
    ),
    "not_decided": ["tie-breaking among equal objectives beyond strictness of the comparison"],
}


def better_compares(ctx: Ctx):
    """Ordering comparisons on `weighted_objective` values in the tracker utilities."""
    out = []
    for f in ctx.repo.funcs_in(UTILS):
        for n in nodes_in(f, ast.Compare):
            t = ctx.X.at(f, n)
            if t[0] == "cmp" and t[1] in ("<", "<=", ">", ">=") and all(contains(x, lambda s: s[0] == "attr" and s[2] == "weighted_objective") for x in (t[2], t[3])):
                out.append((f, n, t))
    if not out:
        raise AnalysisError("the tracker's ordering comparison on weighted_objective was not found")
    return out


def _payload_keys(ctx: Ctx, f: Func, t: Term) -> set[str]:
    """Event payload keys ('results' / 'transformed_results') a term derives from."""
    keys = set()

    def prune(_g, x):
        # dict.get(key, default): the default is a fallback for the same payload, not a source
        if x[0] == "call" and x[1][0] == "attr" and x[1][2] == "get" and len(x[2]) == 2:
            return [x[1], x[2][0]]
        return None

    for _g, s in deep_subterms(ctx, f, t, 6, prune=prune):
        if s[0] == "sub" and s[2][0] == "const" and isinstance(s[2][1], str) and contains(s[1], lambda y: y[0] == "attr" and y[2] == "data"):
            keys.add(s[2][1])
        if s[0] == "call" and s[1][0] == "attr" and s[1][2] == "get" and s[2] and s[2][0][0] == "const" and contains(s[1][1], lambda y: y[0] == "attr" and y[2] == "data"):
            keys.add(s[2][0][1])
    return keys


@rule(P)
def c12_1(ctx: Ctx) -> RuleResult:
    res = RuleResult("C12.1", "FLOW", "candidate and incumbent are compared by their optimizer-domain (transformed) weighted objective")
    X = ctx.X
    for f, n, t in better_compares(ctx):
        # which operand is the candidate: the one deriving from the second (new result) parameter
        for side, term in (("left", t[2]), ("right", t[3])):
            roots = {s[2] for s in subterms(term) if s[0] == "param"}
            is_candidate = any("optimal" not in r and "best" not in r for r in roots)
            if not is_candidate:
                continue
            keys = _payload_keys(ctx, f, term)
            ok = keys == {"transformed_results"} or (keys and "results" not in keys)
            res.add(f, n, "the candidate's objective comes from the event's `transformed_results` (optimizer domain)", ok,
                    "" if ok else f"the candidate objective derives from payload key(s) {sorted(keys) or '?'}: with a sign-flipping (maximisation) objective transform the tracker keeps the worst result",
                    construct=f"{f.name}: candidate operand of `{ast.unparse(n)}`")
    # the incumbent handed to the comparison lives in the same (optimizer) domain: the
    # tracker field passed as the current optimum is only ever assigned values that
    # derive from `transformed_results`
    trk = ctx.repo.cls(TRACKER)
    h = trk.methods.get("handle_event")
    upd = [g for g in ctx.repo.funcs_in(UTILS) if g.cls is None and {"results", "transformed_results"} <= set(g.params) and "optimal" in " ".join(g.params)]
    for g in upd:
        for caller, call_ in ctx.cg.callers(g):
            ct = X.at(caller, call_)
            inc = ct[2][0] if ct[2] else None
            if inc is None:
                continue
            ok, why = False, f"the incumbent passed to {g.name} is `{show(inc, 60)}`"
            incs = [a for a in (inc[1] if inc[0] == "phi" else (inc,)) if a != ("const", None)]
            fld = None
            if incs and all(a[0] == "attr" and root_of(a)[0] == "param" for a in incs):
                fld = incs[0][2]
            if fld is not None:
                keys = set()
                n_st = 0
                for m_ in trk.methods.values():
                    for st in nodes_in(m_, (ast.Assign, ast.AnnAssign)):
                        targets = st.targets if isinstance(st, ast.Assign) else [st.target]
                        for tg in targets:
                            leaves = tg.elts if isinstance(tg, ast.Tuple) else [tg]
                            for i, lf in enumerate(leaves):
                                if isinstance(lf, ast.Attribute) and lf.attr == fld and st.value is not None:
                                    vt = X.at(m_, st.value)
                                    if isinstance(tg, ast.Tuple):
                                        vt = ("item", vt, i)
                                    if vt == ("const", None):
                                        continue
                                    n_st += 1
                                    keys |= _payload_keys(ctx, m_, vt)
                ok = n_st >= 1 and keys == {"transformed_results"}
                why = "" if ok else f"tracker field `{fld}` (the incumbent) is assigned from payload {sorted(keys) or '?'}"
            else:
                why = (f"the incumbent `{show(inc, 50)}` is the reported (user-domain) result: its objective is compared with optimizer-domain candidates, "
                       "so with a sign-flipping or rescaling objective transform every result (or none) displaces it")
            res.add(caller, call_, "the incumbent of the comparison is the tracker's optimizer-domain optimum (assigned only from transformed results)", ok, why,
                    construct=f"{caller.name}: incumbent argument of {g.name}")
    res.floor = 2
    return res


def _nan_tests(ctx: Ctx, f: Func):
    out = []
    for n in nodes_in(f, (ast.Call, ast.Compare)):
        t = ctx.X.at(f, n)
        if t[0] == "call" and t[1][0] == "global" and t[1][1] in ("numpy.isnan", "numpy.isfinite", "math.isnan", "math.isfinite") and t[2]:
            out.append((n, t[2][0]))
        elif t[0] == "cmp" and t[1] in ("!=", "==") and t[2] == t[3]:
            out.append((n, t[2]))
    return out


@rule(P)
def c12_2(ctx: Ctx) -> RuleResult:
    res = RuleResult("C12.2", "DOM", "a NaN objective is never installed and never blocks: candidate and incumbent are tested for NaN around the comparison")
    X = ctx.X
    for f, n, t in better_compares(ctx):
        tests = _nan_tests(ctx, f)
        for caller, _c in ctx.cg.callers(f):
            tests += _nan_tests(ctx, caller)
        cand, inc = None, None
        for term in (t[2], t[3]):
            roots = {s[2] for s in subterms(term) if s[0] == "param"}
            if any("optimal" in r or "best" in r for r in roots):
                inc = term
            else:
                cand = term
        for who, term in (("candidate", cand), ("incumbent", inc)):
            if term is None:
                continue
            pnames = {s[2] for s in subterms(term) if s[0] == "param"}
            ok = any(contains(a, lambda s: s[0] == "attr" and s[2] == "weighted_objective") and ({s[2] for s in subterms(a) if s[0] == "param"} & pnames or _same_item(ctx, a, term)) for _n, a in tests)
            why = ""
            if not ok:
                why = ("a first result with a NaN objective is installed unconditionally" if who == "candidate"
                       else "`x < nan` is never true: once a NaN objective is held no valid result can replace it")
            res.add(f, n, f"the {who}'s objective is tested for NaN (isnan / isfinite / self-inequality)", ok, why, construct=f"{f.name}: NaN test of {who}")
        # the first-result path (no incumbent) installs only a non-NaN candidate
    res.floor = 2
    return res


def _same_item(ctx: Ctx, a: Term, b: Term) -> bool:
    return False


@rule(P)
def c12_3(ctx: Ctx) -> RuleResult:
    res = RuleResult("C12.3", "TABLE", "feasible iff every reported violation (bound, linear, non-linear) is <= tolerance; None tolerance = always feasible; judged on the optimizer-domain item")
    X = ctx.X
    ci = ctx.repo.cls("ropt.results._constraint_info.ConstraintInfo")
    vfields = sorted(n for n in ci.fields if n.endswith("_violation"))
    f = None
    for g in ctx.repo.funcs_in(UTILS):
        if "tolerance" in g.params and any(v in ast.unparse(g.node) for v in vfields):
            f = g
    if f is None:
        raise AnalysisError("feasibility test not found")
    src = ast.unparse(f.node)
    for v in vfields:
        ok = f".{v}" in src
        res.add(f, f.node, f"`{v}` takes part in the feasibility test", ok, "" if ok else f"violations of kind `{v}` are ignored: infeasible results are accepted", construct=f"{f.name}: covers {v}")
    tol = ("param", f.qualname, "tolerance")
    cmps = [norm(X.at(f, n)) for n in nodes_in(f, ast.Compare)]
    strict = [c for c in cmps if c[0] == "cmp" and c[1] == "<" and c[2] == tol]
    wrong = [c for c in cmps if c[0] == "cmp" and c[1] in ("<=",) and c[2] == tol]
    ok = bool(strict) and not wrong
    res.add(f, f.node, "a result violates iff any violation > tolerance (strictly)", ok, "" if ok else f"comparison is {[show(c, 50) for c in cmps if tol in (c[2], c[3])]}", construct=f"{f.name}: comparator")
    anyred = any(t[0] == "call" and t[1] == G("numpy.any") for n in nodes_in(f, ast.Call) for t in [norm(X.at(f, n))])
    res.add(f, f.node, "any single violating entry makes the result infeasible (np.any)", anyred, "" if anyred else "not reduced with any()", construct=f"{f.name}: any")
    none_ok = any(isinstance(n.test, ast.Compare) and "tolerance" in ast.unparse(n.test) and "None" in ast.unparse(n.test) and isinstance(n.body[0], ast.Return) and isinstance(n.body[0].value, ast.Constant) and n.body[0].value.value is False for n in nodes_in(f, ast.If))
    res.add(f, f.node, "tolerance None disables the feasibility test", none_ok, "" if none_ok else "None tolerance not handled", construct=f"{f.name}: None tolerance")
    # ... and only None does: every early `return False` is guarded by an identity test with None
    # (a truthiness test would also switch the test off for tolerance 0.0)
    early = []
    for n in nodes_in(f, ast.If):
        if n.body and isinstance(n.body[0], ast.Return) and isinstance(n.body[0].value, ast.Constant) and n.body[0].value.value is False:
            t = n.test
            is_none_test = isinstance(t, ast.Compare) and len(t.ops) == 1 and isinstance(t.ops[0], ast.Is) and isinstance(t.comparators[0], ast.Constant) and t.comparators[0].value is None
            if not is_none_test:
                early.append(n)
    res.add(f, early[0] if early else f.node, "the test is skipped only when a quantity `is None` (tolerance 0.0 means strict feasibility)", not early,
            "" if not early else f"`if {ast.unparse(early[0].test)}: return False` also disables the feasibility test for falsy values such as a tolerance of 0.0",
            construct=f"{f.name}: only None disables")
    # callers pass the transformed item
    for caller, c in ctx.cg.callers(f):
        t = X.at(caller, c)
        a0 = t[2][0]
        keys = _payload_keys(ctx, caller, a0)
        ok = "transformed_results" in keys and "results" not in keys
        res.add(caller, c, "feasibility is judged on the optimizer-domain (transformed) item", ok, "" if ok else f"feasibility is judged on payload {sorted(keys)}", construct=f"{caller.name}: feasibility argument")
    res.floor = 8
    return res


@rule(P)
def c12_4(ctx: Ctx) -> RuleResult:
    res = RuleResult("C12.4", "DOM", "the tracker changes its value only for FINISHED_EVALUATION events of its tracked sources")
    X = ctx.X
    c = ctx.repo.cls(TRACKER)
    h = c.methods.get("handle_event")
    if h is None:
        raise AnalysisError("tracker handle_event not found")
    stores = [n for n in nodes_in(h, ast.Assign) if any(isinstance(t, ast.Subscript) and isinstance(t.value, ast.Name) and t.value.id == h.positional[0] for t in n.targets)]
    if not stores:
        raise AnalysisError("tracker never stores a result")
    for st in stores:
        conds = []
        cur = parent(st)
        child = st
        while cur is not None and cur is not h.node:
            if isinstance(cur, ast.If) and any(child is s for s in cur.body):
                conds.append(X.value_at(h, cur.test))
            child, cur = cur, parent(cur)
        flat = []
        for cnd in conds:
            flat += list(cnd[2]) if cnd[0] == "bool" and cnd[1] == "and" else [cnd]
        ev_ok = any(d[0] == "cmp" and d[1] == "==" and ("global", "ropt.enums.EventType.FINISHED_EVALUATION") in (d[2], d[3]) for d in flat)
        src_ok = any(d[0] == "cmp" and d[1] == "in" and d[2][0] == "attr" and d[2][2] == "source" and d[3][0] == "attr" and "sources" in d[3][2] for d in flat)
        res.add(h, st, "the store is control-dependent on `event_type == FINISHED_EVALUATION`", ev_ok, "" if ev_ok else "other event types can change the tracked result", construct="tracker: event type filter")
        res.add(h, st, "the store is control-dependent on `event.source in self._sources`", src_ok, "" if src_ok else "results of untracked sources can displace the tracked result", construct="tracker: source filter")
        nn = any(d[0] == "cmp" and d[1] == "is not" and d[3] == C(None) for d in flat)
        res.add(h, st, "only a selected (non-None) result replaces the stored one", nn, "" if nn else "None can overwrite a valid result", construct="tracker: non-None store")
    # the store handler filters alike
    st_cls = ctx.repo.classes.get("ropt.plugins.plan._store.DefaultStoreHandler")
    if st_cls is not None and "handle_event" in st_cls.methods:
        m = st_cls.methods["handle_event"]
        txt = ast.unparse(m.node)
        ok = "FINISHED_EVALUATION" in txt and "in self._sources" in txt
        res.add(m, m.node, "the store handler applies the same event-type and source filter", ok, construct="store: filters")
    res.floor = 3
    return res


@rule(P)
def c12_5(ctx: Ctx) -> RuleResult:
    res = RuleResult("C12.5", "COH", "best and last accept a result iff it is a FunctionResults with functions present and feasible; last takes the most recent one")
    X = ctx.X
    sels = []
    for f in ctx.repo.funcs_in(UTILS):
        if f.cls is None and {"results", "transformed_results"} <= set(f.params):
            sels.append(f)
    if len(sels) < 2:
        raise AnalysisError("best/last selectors not found")

    def predicate(f: Func):
        out = set()
        for n in ast.walk(f.node):
            if isinstance(n, ast.BoolOp) and isinstance(n.op, ast.And):
                txt = ast.unparse(n)
                if "isinstance" in txt and "FunctionResults" in txt:
                    out.add("is FunctionResults")
                if ".functions is not None" in txt:
                    out.add("functions present")
                if "not _violates_constraint" in txt or "not " in txt and "violates" in txt:
                    out.add("feasible")
        return out

    want = {"is FunctionResults", "functions present", "feasible"}
    for f in sels:
        p = predicate(f)
        ok = p == want
        res.add(f, f.node, "admissible iff FunctionResults, functions is not None, not violating", ok, "" if ok else f"predicate has only {sorted(p)}", construct=f"{f.name}: admissibility")
    last = [f for f in sels if "last" in f.name]
    for f in last:
        txt = ast.unparse(f.node)
        ok = txt.count("reversed(") >= 2 and "next(" in txt
        res.add(f, f.node, "`last` scans results and transformed results in reverse and takes the first admissible one", ok, "" if ok else "not the most recent admissible result", construct=f"{f.name}: reversed scan")
    best = [f for f in sels if f not in last]
    for f in best:
        # the running optimum is updated inside the loop so that several results of one event are compared with each other
        ok = any(isinstance(n, ast.Assign) and any(isinstance(t, ast.Name) and t.id == f.positional[0] for t in n.targets) for lp in nodes_in(f, ast.For) for n in ast.walk(lp))
        res.add(f, f.node, "`best` carries the running optimum through the results of one event", ok, "" if ok else "several results of one event are each compared with the old optimum only", construct=f"{f.name}: running optimum")
        cmps = better_compares(ctx)
        ok = all(t[1] == "<" for _f, _n, t in [(a, b, norm(c)) for a, b, c in cmps])
        res.add(f, f.node, "a candidate replaces the incumbent only if strictly better", ok, "" if ok else "non-strict comparison: a later equal result displaces an earlier one", construct=f"{f.name}: strict comparison")
    # the tracker dispatches best/last to these selectors
    c = ctx.repo.cls(TRACKER)
    h = c.methods["handle_event"]
    called = {g.name for cl in calls_in(h) for g in ctx.cg.callees_of_call(h, cl)}
    ok = {f.name for f in sels} <= called
    res.add(h, h.node, "the tracker uses these selectors for 'best' and 'last'", ok, "" if ok else f"tracker calls {sorted(called)}", construct="tracker: dispatch")
    res.floor = 5
    return res


@rule(P)
def c12_6(ctx: Ctx) -> RuleResult:
    res = RuleResult("C12.6", "FLOW", "BasicOptimizer.results / .variables are the tracker's value, and the tracker follows the optimizer step")
    X = ctx.X
    bo = ctx.repo.cls("ropt.plan._basic_optimizer.BasicOptimizer")
    run = bo.methods.get("run")
    if run is None:
        raise AnalysisError("BasicOptimizer.run not found")
    txt = ast.unparse(run.node)
    ok = "plan.get(tracker, 'results')" in txt
    res.add(run, run.node, "the reported result is plan.get(tracker, 'results')", ok, "" if ok else "result does not come from the tracker", construct="BasicOptimizer: result from tracker")
    ok = "sources={optimizer}" in txt and "add_handler('tracker'" in txt
    res.add(run, run.node, "the tracker is registered for the optimizer step's id", ok, "" if ok else "tracker not bound to the optimizer step", construct="BasicOptimizer: tracker sources")
    ok = "constraint_tolerance=self._constraint_tolerance" in txt
    res.add(run, run.node, "the configured constraint tolerance is handed to the tracker", ok, construct="BasicOptimizer: tolerance")
    ok = "results.evaluations.variables" in txt
    res.add(run, run.node, ".variables are the tracked result's variables", ok, construct="BasicOptimizer: variables")
    res.floor = 4
    return res
