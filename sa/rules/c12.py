"""C12 - the tracked best result is the feasible optimum over the whole history.

  C12.1 FLOW  the "better than" comparison is made in the domain the optimizer minimises
  C12.2 DOM   NaN objectives can neither be installed nor block a valid result
  C12.3 TABLE feasibility covers every *_violation field, on the transformed item, `> tolerance`
  C12.4 DOM   tracker updates depend on event type and `event.source in sources`
  C12.5 COH   best and last apply the same admissibility predicate; last scans in reverse
  C12.6 FLOW  BasicOptimizer reports exactly the tracked value
"""

from __future__ import annotations

import ast

from ..core import META, Ctx, RuleResult, rule
from ..model import AnalysisError, Func, norm_stmt, parent
from ..pattern import C, G, V, call, match, norm
from ..terms import Term, alts, contains, ends_with_attrs, root_of, show, subterms
from ..util import bool_nnf, calls_in, deep_subterms, nodes_in, path_condition

P = "C12"
UTILS = "ropt.plugins.plan._utils"
TRACKER = "ropt.plugins.plan._tracker.DefaultTrackerHandler"

META[P] = {
    "explanation": (
        "Provenance of the operands of the tracker's ordering comparison back to the event payload keys (results vs transformed_results), presence and "
        "dominance of NaN tests for candidate and incumbent, a field table for the feasibility test, control dependence of tracker updates on the "
        "event type and source filter, and sibling agreement of the best/last selectors."
    ),
    "not_decided": ["tie-breaking among equal objectives beyond strictness of the comparison"],
}


def _opaque(ctx: Ctx) -> set[str]:
    try:
        return {feasibility_fn(ctx).qualname}
    except AnalysisError:
        return set()


META[P]["opaque"] = _opaque


def better_compares(ctx: Ctx):
    """Ordering comparisons on `weighted_objective` values in the tracker utilities."""
    out = []
    for f in ctx.repo.funcs_in(UTILS):
        for n in nodes_in(f, ast.Compare):
            t = ctx.X.at(f, n)
            if t[0] == "cmp" and t[1] in ("<", "<=", ">", ">=") and all(contains(x, lambda s: s[0] == "attr" and s[2] == "weighted_objective") for x in (t[2], t[3])):
                out.append((f, n, t))
    if not out:
        raise AnalysisError("the tracker's ordering comparison on weighted_objective was not found")
    return out


def _payload_keys(ctx: Ctx, f: Func, t: Term) -> set[str]:
    """Event payload keys ('results' / 'transformed_results') a term derives from."""
    keys = set()

    def prune(_g, x):
        # dict.get(key, default): the default is a fallback for the same payload, not a source
        if x[0] == "call" and x[1][0] == "attr" and x[1][2] == "get" and len(x[2]) == 2:
            return [x[1], x[2][0]]
        return None

    for _g, s in deep_subterms(ctx, f, t, 6, prune=prune):
        if s[0] == "sub" and s[2][0] == "const" and isinstance(s[2][1], str) and contains(s[1], lambda y: y[0] == "attr" and y[2] == "data"):
            keys.add(s[2][1])
        if s[0] == "call" and s[1][0] == "attr" and s[1][2] == "get" and s[2] and s[2][0][0] == "const" and contains(s[1][1], lambda y: y[0] == "attr" and y[2] == "data"):
            keys.add(s[2][0][1])
    return keys


@rule(P)
def c12_1(ctx: Ctx) -> RuleResult:
    res = RuleResult("C12.1", "FLOW", "candidate and incumbent are compared by their optimizer-domain (transformed) weighted objective")
    X = ctx.X
    for f, n, t in better_compares(ctx):
        # which operand is the candidate: the one deriving from the second (new result) parameter
        for side, term in (("left", t[2]), ("right", t[3])):
            roots = {s[2] for s in subterms(term) if s[0] == "param"}
            is_candidate = any("optimal" not in r and "best" not in r for r in roots)
            if not is_candidate:
                continue
            keys = _payload_keys(ctx, f, term)
            ok = keys == {"transformed_results"} or (keys and "results" not in keys)
            res.add(f, n, "the candidate's objective comes from the event's `transformed_results` (optimizer domain)", ok,
                    "" if ok else f"the candidate objective derives from payload key(s) {sorted(keys) or '?'}: with a sign-flipping (maximisation) objective transform the tracker keeps the worst result",
                    construct=f"{f.name}: candidate operand of `{ast.unparse(n)}`")
    # the incumbent handed to the comparison lives in the same (optimizer) domain: the
    # tracker field passed as the current optimum is only ever assigned values that
    # derive from `transformed_results`
    trk = ctx.repo.cls(TRACKER)
    h = trk.methods.get("handle_event")
    upd = [g for g in ctx.repo.funcs_in(UTILS) if g.cls is None and {"results", "transformed_results"} <= set(g.params) and "optimal" in " ".join(g.params)]
    for g in upd:
        for caller, call_ in ctx.cg.callers(g):
            ct = X.at(caller, call_)
            from ..callgraph import positional_args

            pa = positional_args(g, ct)
            inc = pa[0] if pa else None
            if inc is None:
                continue
            ok, why = False, f"the incumbent passed to {g.name} is `{show(inc, 60)}`"
            incs = [a for a in (inc[1] if inc[0] == "phi" else (inc,)) if a != ("const", None)]
            fld = None
            if incs and all(a[0] == "attr" and root_of(a)[0] == "param" for a in incs):
                fld = incs[0][2]
            if fld is not None:
                keys = set()
                n_st = 0
                for m_ in trk.methods.values():
                    for st in nodes_in(m_, (ast.Assign, ast.AnnAssign)):
                        targets = st.targets if isinstance(st, ast.Assign) else [st.target]
                        for tg in targets:
                            leaves = tg.elts if isinstance(tg, ast.Tuple) else [tg]
                            for i, lf in enumerate(leaves):
                                if isinstance(lf, ast.Attribute) and lf.attr == fld and st.value is not None:
                                    vt = X.at(m_, st.value)
                                    if isinstance(tg, ast.Tuple):
                                        vt = ("item", vt, i)
                                    if vt == ("const", None):
                                        continue
                                    n_st += 1
                                    keys |= _payload_keys(ctx, m_, vt)
                ok = n_st >= 1 and keys == {"transformed_results"}
                why = "" if ok else f"tracker field `{fld}` (the incumbent) is assigned from payload {sorted(keys) or '?'}"
            else:
                why = (f"the incumbent `{show(inc, 50)}` is the reported (user-domain) result: its objective is compared with optimizer-domain candidates, "
                       "so with a sign-flipping or rescaling objective transform every result (or none) displaces it")
            res.add(caller, call_, "the incumbent of the comparison is the tracker's optimizer-domain optimum (assigned only from transformed results)", ok, why,
                    construct=f"{caller.name}: incumbent argument of {g.name}")
    res.floor = 2
    return res


def _nan_tests(ctx: Ctx, f: Func):
    out = []
    for n in nodes_in(f, (ast.Call, ast.Compare)):
        t = ctx.X.at(f, n)
        if t[0] == "call" and t[1][0] == "global" and t[1][1] in ("numpy.isnan", "numpy.isfinite", "math.isnan", "math.isfinite") and t[2]:
            out.append((n, t[2][0]))
        elif t[0] == "cmp" and t[1] in ("!=", "==") and t[2] == t[3]:
            out.append((n, t[2]))
    return out


@rule(P)
def c12_2(ctx: Ctx) -> RuleResult:
    res = RuleResult("C12.2", "DOM", "a NaN objective is never installed and never blocks: candidate and incumbent are tested for NaN around the comparison")
    X = ctx.X
    for f, n, t in better_compares(ctx):
        tests = _nan_tests(ctx, f)
        for caller, _c in ctx.cg.callers(f):
            tests += _nan_tests(ctx, caller)
        cand, inc = None, None
        for term in (t[2], t[3]):
            roots = {s[2] for s in subterms(term) if s[0] == "param"}
            if any("optimal" in r or "best" in r for r in roots):
                inc = term
            else:
                cand = term
        for who, term in (("candidate", cand), ("incumbent", inc)):
            if term is None:
                continue
            pnames = {s[2] for s in subterms(term) if s[0] == "param"}
            ok = any(contains(a, lambda s: s[0] == "attr" and s[2] == "weighted_objective") and ({s[2] for s in subterms(a) if s[0] == "param"} & pnames or _same_item(ctx, a, term)) for _n, a in tests)
            why = ""
            if not ok:
                why = ("a first result with a NaN objective is installed unconditionally" if who == "candidate"
                       else "`x < nan` is never true: once a NaN objective is held no valid result can replace it")
            res.add(f, n, f"the {who}'s objective is tested for NaN (isnan / isfinite / self-inequality)", ok, why, construct=f"{f.name}: NaN test of {who}")
        # the first-result path (no incumbent) installs only a non-NaN candidate
    res.floor = 2
    return res


def _same_item(ctx: Ctx, a: Term, b: Term) -> bool:
    return False


@rule(P)
def c12_3(ctx: Ctx) -> RuleResult:
    res = RuleResult("C12.3", "TABLE", "feasible iff every reported violation (bound, linear, non-linear) is <= tolerance; None tolerance = always feasible; judged on the optimizer-domain item")
    X = ctx.X
    ci = ctx.repo.cls("ropt.results._constraint_info.ConstraintInfo")
    vfields = sorted(n for n in ci.fields if n.endswith("_violation"))
    f = None
    for g in ctx.repo.funcs_in(UTILS):
        if "tolerance" in g.params and any(v in ast.unparse(g.node) for v in vfields):
            f = g
    if f is None:
        raise AnalysisError("feasibility test not found")
    src = ast.unparse(f.node)
    for v in vfields:
        ok = f".{v}" in src
        res.add(f, f.node, f"`{v}` takes part in the feasibility test", ok, "" if ok else f"violations of kind `{v}` are ignored: infeasible results are accepted", construct=f"{f.name}: covers {v}")
    tol = ("param", f.qualname, "tolerance")
    cmps = [norm(X.at(f, n)) for n in nodes_in(f, ast.Compare)]
    strict = [c for c in cmps if c[0] == "cmp" and c[1] == "<" and c[2] == tol]
    wrong = [c for c in cmps if c[0] == "cmp" and c[1] in ("<=",) and c[2] == tol]
    ok = bool(strict) and not wrong
    res.add(f, f.node, "a result violates iff any violation > tolerance (strictly)", ok, "" if ok else f"comparison is {[show(c, 50) for c in cmps if tol in (c[2], c[3])]}", construct=f"{f.name}: comparator")
    anyred = any(t[0] == "call" and t[1] == G("numpy.any") for n in nodes_in(f, ast.Call) for t in [norm(X.at(f, n))])
    res.add(f, f.node, "any single violating entry makes the result infeasible (np.any)", anyred, "" if anyred else "not reduced with any()", construct=f"{f.name}: any")
    # the conditions under which a violation is compared with the tolerance at all: the tolerance is not None
    # (None switches the test off) and nothing else about its value (a truthiness test would also switch the test
    # off for a tolerance of 0.0); other quantities may only be tested for presence (`is None`), type or the comparison itself
    from ..util import _enclosing_conds

    sites = [n for n in nodes_in(f, ast.Compare) if tol in (lambda t_: (t_[2], t_[3]) if t_[0] == "cmp" and t_[1] in ("<", "<=", ">", ">=") else ())(norm(X.at(f, n)))]
    none_ok, early = bool(sites), []
    for n in sites:
        st_ = n
        while parent(st_) is not None and not isinstance(st_, ast.stmt):
            st_ = parent(st_)
        lits = _conj_literals(ctx, f, st_) + [(a_, p_) for a_, p_ in _enclosing_conds(ctx, f, n)]
        if not any(a_[0] == "cmp" and a_[1] in ("is", "is not") and a_[2] == tol and a_[3] == C(None) and (p_ == (a_[1] == "is not")) for a_, p_ in lits):
            none_ok = False
        for a_, p_ in lits:
            if a_[0] in ("param", "attr", "local") or (a_[0] == "call" and a_[1] == ("builtin", "bool")):
                early.append((n, a_))
    res.add(f, f.node, "tolerance None disables the feasibility test", none_ok, "" if none_ok else "None tolerance not handled", construct=f"{f.name}: None tolerance")
    res.add(f, early[0][0] if early else f.node, "the test is skipped only when a quantity `is None` (tolerance 0.0 means strict feasibility)", not early,
            "" if not early else f"the comparison runs only if `{show(early[0][1], 50)}` is truthy: this also disables the feasibility test for falsy values such as a tolerance of 0.0",
            construct=f"{f.name}: only None disables")
    # callers pass the transformed item
    for caller, c in ctx.cg.callers(f):
        t = X.at(caller, c)
        a0 = t[2][0]
        keys = _payload_keys(ctx, caller, a0)
        ok = "transformed_results" in keys and "results" not in keys
        res.add(caller, c, "feasibility is judged on the optimizer-domain (transformed) item", ok, "" if ok else f"feasibility is judged on payload {sorted(keys)}", construct=f"{caller.name}: feasibility argument")
    res.floor = 8
    return res


def _conj_literals(ctx: Ctx, f: Func, stmt: ast.AST, extra=()):
    """Literals (atom, polarity) that hold when ``stmt`` executes: its path condition (enclosing
    tests, negated early exits, helpers seen through) in negation normal form, top-level conjuncts."""
    pc = list(path_condition(ctx, f, stmt)) + list(extra)
    if not pc:
        return []
    g_ = bool_nnf(("bool", "and", tuple(c if p else ("unary", "not", c) for c, p in pc)))
    return [(it[1], it[2]) for it in (g_[1] if g_[0] == "and" else [g_]) if it[0] == "lit"]


@rule(P)
def c12_4(ctx: Ctx) -> RuleResult:
    res = RuleResult("C12.4", "DOM", "the tracker changes its value only for FINISHED_EVALUATION events of its tracked sources")
    X = ctx.X
    c = ctx.repo.cls(TRACKER)
    h = c.methods.get("handle_event")
    if h is None:
        raise AnalysisError("tracker handle_event not found")
    stores = [n for n in nodes_in(h, ast.Assign) if any(isinstance(t, ast.Subscript) and isinstance(t.value, ast.Name) and t.value.id == h.positional[0] for t in n.targets)]
    if not stores:
        raise AnalysisError("tracker never stores a result")
    for st in stores:
        flat = _conj_literals(ctx, h, st)
        FIN = ("global", "ropt.enums.EventType.FINISHED_EVALUATION")
        ev_ok = any(p and d[0] == "cmp" and d[1] == "==" and FIN in (d[2], d[3]) for d, p in flat)
        src_ok = any(p and d[0] == "cmp" and d[1] == "in" and d[2][0] == "attr" and d[2][2] == "source" and d[3][0] == "attr" and "sources" in d[3][2] for d, p in flat)
        res.add(h, st, "the store is control-dependent on `event_type == FINISHED_EVALUATION`", ev_ok, "" if ev_ok else "other event types can change the tracked result", construct="tracker: event type filter")
        res.add(h, st, "the store is control-dependent on `event.source in self._sources`", src_ok, "" if src_ok else "results of untracked sources can displace the tracked result", construct="tracker: source filter")
        nn = any((not p) and d[0] == "cmp" and d[1] == "is" and d[3] == C(None) for d, p in flat)
        res.add(h, st, "only a selected (non-None) result replaces the stored one", nn, "" if nn else "None can overwrite a valid result", construct="tracker: non-None store")
    # the store handler filters alike
    st_cls = ctx.repo.classes.get("ropt.plugins.plan._store.DefaultStoreHandler")
    if st_cls is not None and "handle_event" in st_cls.methods:
        m = st_cls.methods["handle_event"]
        txt = ast.unparse(m.node)
        ok = "FINISHED_EVALUATION" in txt and "in self._sources" in txt
        res.add(m, m.node, "the store handler applies the same event-type and source filter", ok, construct="store: filters")
    res.floor = 3
    return res


def feasibility_fn(ctx: Ctx) -> Func:
    ci = ctx.repo.cls("ropt.results._constraint_info.ConstraintInfo")
    vfields = sorted(n for n in ci.fields if n.endswith("_violation"))
    for g in ctx.repo.funcs_in(UTILS):
        if "tolerance" in g.params and any(v in ast.unparse(g.node) for v in vfields):
            return g
    raise AnalysisError("feasibility test not found")


def selectors(ctx: Ctx) -> list[Func]:
    """The functions of the tracker utilities that the tracker calls with the event's result lists."""
    trk = ctx.repo.cls(TRACKER)
    out = []
    for m in trk.methods.values():
        for _c, cs, _k in ctx.cg.all_callees(m):
            for g in cs:
                if g.cls is None and g.module.name == UTILS and g not in out and len(g.positional) >= 2:
                    out.append(g)
    if len(out) < 2:
        raise AnalysisError("best/last selectors (tracker utility functions called by the tracker) not found")
    return out


def acceptance_sites(ctx: Ctx, f: Func):
    """[(node, literals, iteration term, takes_first)]: places where an item of the scanned result
    lists is accepted (flows into the returned value), with the conditions that hold there."""
    X = ctx.X
    seqs = {("param", f.qualname, p) for p in f.positional}
    out = []
    for n in ast.walk(f.node):
        if isinstance(n, (ast.GeneratorExp, ast.ListComp)) and n.generators:
            g0 = n.generators[0]
            it = X.at(f, g0.iter)
            if not any(s_ in seqs for s_ in subterms(it)):
                continue
            conds = [(X.value_at(f, c_), True) for g_ in n.generators for c_ in g_.ifs]
            stmt = n
            while parent(stmt) is not None and not isinstance(stmt, ast.stmt):
                stmt = parent(stmt)
            par = parent(n)
            first = isinstance(par, ast.Call) and isinstance(par.func, ast.Name) and par.func.id == "next"
            out.append((n, _conj_literals(ctx, f, stmt, conds), it, first))
        elif isinstance(n, ast.For):
            it = X.at(f, n.iter)
            if not any(s_ in seqs for s_ in subterms(it)):
                continue
            names = {x.id for x in ast.walk(n.target) if isinstance(x, ast.Name)}
            for st in [x for b in n.body for x in ast.walk(b) if isinstance(x, (ast.Return, ast.Assign))]:
                val = st.value
                if val is None or not any(isinstance(x, ast.Name) and x.id in names for x in ast.walk(val)):
                    continue
                out.append((st, _conj_literals(ctx, f, st), it, isinstance(st, ast.Return)))
    return out


@rule(P)
def c12_5(ctx: Ctx) -> RuleResult:
    res = RuleResult("C12.5", "COH", "best and last accept a result iff it is a FunctionResults with functions present and feasible; last takes the most recent one")
    X = ctx.X
    sels = selectors(ctx)
    feas = feasibility_fn(ctx)
    cmp_funcs = {f_ for f_, _n, _t in better_compares(ctx)}
    kinds = {}
    for f in sels:
        reach = ctx.cg.reachable([f], include_nested_values=False)
        kinds[f.qualname] = "best" if any(g in reach for g in cmp_funcs) else "last"
        sites = acceptance_sites(ctx, f)
        if not sites:
            res.add(f, f.node, "admissible iff FunctionResults, functions is not None, not violating", False, "no place where an item of the result lists is accepted was found", construct=f"{f.name}: admissibility")
            continue
        missing = set()
        for node, lits, _it, _first in sites:
            k1 = any(p and a[0] == "call" and a[1] == ("builtin", "isinstance") and len(a[2]) == 2 and contains(a[2][1], lambda y: y[0] == "global" and y[1].endswith("FunctionResults")) for a, p in lits)
            k2 = any((not p) and a[0] == "cmp" and a[1] == "is" and a[3] == C(None) and a[2][0] == "attr" and a[2][2] == "functions" for a, p in lits)
            k3 = any((not p) and a[0] == "call" and feas in ctx.cg.resolve_fn(a[1], f) for a, p in lits)
            if not k1:
                missing.add("is FunctionResults")
            if not k2:
                missing.add("functions present")
            if not k3:
                missing.add("feasible")
        ok = not missing
        res.add(f, sites[0][0], "admissible iff FunctionResults, functions is not None, not violating", ok,
                "" if ok else f"an item is accepted without the test(s) {sorted(missing)}", construct=f"{f.name}: admissibility")
        if kinds[f.qualname] == "last":
            ok = True
            why = ""
            for node, _lits, it, first in sites:
                revs = [s_ for s_ in subterms(it) if (s_[0] == "call" and s_[1] == ("builtin", "reversed")) or (s_[0] == "sub" and s_[2][0] == "slice" and norm(s_[2][3]) == C(-1))]
                covered = {p_ for r_ in revs for p_ in subterms(r_) if p_[0] == "param"}
                scanned = {p_ for p_ in subterms(it) if p_[0] == "param" and p_[1] == f.qualname and p_[2] in f.positional}
                if not revs or not scanned <= covered:
                    ok, why = False, "the result lists are not scanned from the most recent item backwards (both lists alike)"
                elif not first:
                    ok, why = False, "the scan does not stop at the first admissible item"
            res.add(f, sites[0][0], "`last` scans results and transformed results in reverse and takes the first admissible one", ok, why or "", construct=f"{f.name}: reversed scan")
        else:
            # the running optimum is updated inside the loop so that several results of one event are compared with each other
            ok = False
            for lp in nodes_in(f, ast.For):
                for call_ in [x for b in lp.body for x in ast.walk(b) if isinstance(x, ast.Call)]:
                    tg_ = [g for g in ctx.cg.callees_of_call(f, call_) if g in cmp_funcs]
                    if not tg_:
                        continue
                    # the incumbent argument: bound to the first parameter, by position or by keyword
                    arg0 = call_.args[0] if call_.args else next((k.value for k in call_.keywords if tg_[0].positional and k.arg == tg_[0].positional[0]), None)
                    if not isinstance(arg0, ast.Name):
                        continue
                    inc = arg0.id
                    if any(isinstance(n, ast.Assign) and any(isinstance(t, ast.Name) and t.id == inc for t in n.targets) for b in lp.body for n in ast.walk(b)):
                        ok = True
                # the comparison written out in the loop itself: the incumbent parameter is re-bound in the loop
                cmp_here = [n_ for f_, n_, _t in better_compares(ctx) if f_ is f and any(n_ is x for b in lp.body for x in ast.walk(b))]
                if cmp_here and any(isinstance(n, ast.Assign) and any(isinstance(t, ast.Name) and t.id in f.positional for t in n.targets) for b in lp.body for n in ast.walk(b)):
                    ok = True
            res.add(f, f.node, "`best` carries the running optimum through the results of one event", ok, "" if ok else "several results of one event are each compared with the old optimum only", construct=f"{f.name}: running optimum")
            cmps = better_compares(ctx)
            ok = all(t[1] == "<" for _f, _n, t in [(a, b, norm(c)) for a, b, c in cmps])
            res.add(f, f.node, "a candidate replaces the incumbent only if strictly better", ok, "" if ok else "non-strict comparison: a later equal result displaces an earlier one", construct=f"{f.name}: strict comparison")
    c = ctx.repo.cls(TRACKER)
    h = c.methods["handle_event"]
    ok = set(kinds.values()) == {"best", "last"}
    res.add(h, h.node, "the tracker uses these selectors for 'best' and 'last'", ok, "" if ok else f"tracker selectors: {kinds}", construct="tracker: dispatch")
    res.floor = 5
    return res


def _strip_none(t: Term) -> Term:
    return t


@rule(P)
def c12_6(ctx: Ctx) -> RuleResult:
    res = RuleResult("C12.6", "FLOW", "BasicOptimizer.results / .variables are the tracker's value, and the tracker follows the optimizer step")
    X = ctx.X
    bo = ctx.repo.cls("ropt.plan._basic_optimizer.BasicOptimizer")
    run = bo.methods.get("run")
    if run is None:
        raise AnalysisError("BasicOptimizer.run not found")
    funcs = [run] + list(run.nested.values())
    calls = [(f_, c_, X.at(f_, c_)) for f_ in funcs for c_ in calls_in(f_)]
    # the tracker: add_handler("tracker", ...)
    trk = [(f_, c_, t) for f_, c_, t in calls if t[0] == "call" and t[1][0] == "attr" and t[1][2] == "add_handler" and t[2] and t[2][0] == C("tracker")]
    # the optimizer step: add_step("optimizer")
    is_opt_step = lambda x: contains(x, lambda s_: s_[0] == "call" and s_[1][0] == "attr" and s_[1][2] == "add_step" and s_[2] and s_[2][0] == C("optimizer"))  # noqa: E731
    is_tracker = lambda x: contains(x, lambda s_: s_[0] == "call" and s_[1][0] == "attr" and s_[1][2] == "add_handler" and s_[2] and s_[2][0] == C("tracker"))  # noqa: E731
    gets = [t for _f, _c, t in calls if t[0] == "call" and t[1][0] == "attr" and t[1][2] == "get" and len(t[2]) == 2 and t[2][1] == C("results") and is_tracker(t[2][0])]
    ok = bool(gets)
    res.add(run, run.node, "the reported result is plan.get(tracker, 'results')", ok, "" if ok else "result does not come from the tracker", construct="BasicOptimizer: result from tracker")
    ok = bool(trk)
    for _f, _c, t in trk:
        kw = dict(t[3])
        src = kw.get("sources")
        ok = ok and src is not None and src[0] == "set" and len(src[1]) == 1 and is_opt_step(src[1][0])
    res.add(run, trk[0][1] if trk else run.node, "the tracker is registered for the optimizer step's id", ok, "" if ok else "tracker not bound to the optimizer step", construct="BasicOptimizer: tracker sources")
    ok = bool(trk) and all(ends_with_attrs(dict(t[3]).get("constraint_tolerance", ("const", None)), "_constraint_tolerance") for _f, _c, t in trk)
    res.add(run, trk[0][1] if trk else run.node, "the configured constraint tolerance is handed to the tracker", ok, construct="BasicOptimizer: tolerance")
    # .variables: the `variables=` of the stored record derives from <results>.evaluations.variables
    NONE_ = ("const", None)
    def rec_args(t):
        """keyword view of a record construction: positional arguments of a (data)class call are named by field order"""
        kw = dict(t[3])
        if t[1][0] == "global" and t[1][1] in ctx.repo.classes and t[2]:
            names = list(ctx.repo.classes[t[1][1]].fields)
            for i_, a_ in enumerate(t[2]):
                if i_ < len(names):
                    kw.setdefault(names[i_], a_)
        return kw

    recs = [rec_args(t) for _f, _c, t in calls if t[0] == "call"]
    recs = [kw for kw in recs if kw.get("variables") is not None and kw.get("results") is not None]
    live = [kw for kw in recs if not (kw["variables"] == NONE_ and kw["results"] == NONE_)]
    ok = bool(live) and all(
        contains(kw["variables"], lambda s_, kw=kw: s_[0] == "attr" and ends_with_attrs(s_, "evaluations", "variables") and contains(s_, lambda y: y == kw["results"]))
        for kw in live)
    res.add(run, run.node, ".variables are the tracked result's variables", ok, construct="BasicOptimizer: variables")
    res.floor = 4
    return res


@rule(P)
def c12_7(ctx: Ctx) -> RuleResult:
    """Shared with C11.6."""
    from .c11 import c11_6

    r = c11_6(ctx)
    for i in r.instances:
        i.rule = "C12.7"
    r.rule, r.title = "C12.7", "the tracker compares optimizer-domain values: events carry optimizer-domain results as `transformed_results` and back-transformed ones as `results`"
    return r


@rule(P)
def c12_8(ctx: Ctx) -> RuleResult:
    """The tracker is built with the options the user gave: `constraint_tolerance=None` (no feasibility filter) must
    not be replaced by the default tolerance on the way through the plug-in's factory."""
    import ast as _ast

    from .common import value_filtered_mappings

    res = RuleResult("C12.8", "DOM", "handler options reach the handler as given (an explicit None tolerance stays None)")
    n = 0
    for f in ctx.repo.all_funcs():
        if f.module.name.startswith("ropt.plugins.plan") and f.name == "create" and f.cls is not None:
            n += 1
            bad = value_filtered_mappings(f)
            ok = not bad
            res.add(f, bad[0][0] if bad else f.node, f"`{f.cls.name}.create` forwards every keyword option whatever its value", ok,
                    "" if ok else f"keyword options are dropped `if {bad[0][1]}`: `constraint_tolerance=None` (accept every result) silently becomes the default tolerance, "
                    "so infeasible results are rejected although no tolerance was configured",
                    construct=f"{f.cls.name}.create: options unfiltered")
    if n == 0:
        raise AnalysisError("no create method found under ropt.plugins.plan")
    res.floor = 1
    return res
