"""C14 - every run ends with the documented exit code under any failure pattern.

Rules (DESIGN.md section 5, C14):
  C14.1 definite assignment, package-wide (no UnboundLocalError on modelled paths)
  C14.2 Python-scalar division guarded on the same term (no ZeroDivisionError)
  C14.3 OptimizationAborted raised under a step's run is converted inside the step
  C14.4 function budget: stopping check dominates evaluations, `>=`, counter updated
  C14.5 results are signalled before the TOO_FEW_REALIZATIONS raise
  C14.6 no broad exception handler swallows an exception (package-wide)
"""

from __future__ import annotations

import ast

from ..cfg import cfg_of
from ..core import META, Ctx, RuleResult, rule
from ..dataflow import dataflow_of, walk_scope
from ..model import AnalysisError, Func, dotted, norm_stmt, parent
from ..paths import PathFinder, cond_facts, describe_path
from ..terms import Term, contains, show, subterms
from ..pattern import norm
from ..util import calls_in, catching_handler, deep_subterms, nodes_in, walrus_binds_before

P = "C14"
ABORT = "ropt.exceptions.OptimizationAborted"

META[P] = {
    "explanation": (
        "Six structural clauses decided on the CFG / call graph of the current tree: definite assignment of every local read "
        "(with exceptional edges and correlated-guard feasibility), zero-divisor guards on Python-scalar divisions, "
        "exception flow of OptimizationAborted from every raise site reachable from a plan step to a converting handler, "
        "the function-budget check dominating evaluations, results signalled before the TOO_FEW raise, and no swallowing broad handlers."
    ),
    "not_decided": [
        "'exactly when' in the converse direction for all configurations",
        "exceptions raised by arbitrary expressions (attribute access, arithmetic, subscripts)",
    ],
}


# --------------------------------------------------------------------- C14.1
@rule(P)
def c14_1(ctx: Ctx) -> RuleResult:
    res = RuleResult("C14.1", "DOM", "every read of a local is definitely assigned (package-wide)")
    reads = 0
    nfuncs = 0
    for f in ctx.repo.all_funcs():
        df = dataflow_of(ctx.repo, f)
        cfg = df.cfg
        live = cfg.live_nodes()
        nfuncs += 1
        pf = None
        for n in cfg.nodes:
            if n not in live:
                continue
            for use in df.uses_in_node(n):
                v = use.id
                if v not in df.locals:
                    continue
                reads += 1
                ub = df.unbound.get(v)
                if ub is None or ub not in df.reaching(n, v):
                    continue
                # bound by an assignment expression evaluated earlier in the same statement / test
                root_ = n.ast.iter if n.kind == "iter" else (n.ast.context_expr if n.kind == "with" else n.ast)
                if root_ is not None and walrus_binds_before(root_, use):
                    continue
                # a capture of the case pattern read in the guard of the same case: the pattern is matched first
                if n.kind == "case" and n.ast.guard is not None and any(x is use for x in ast.walk(n.ast.guard)) and any(
                        d.var == v and d.kind == "match" for d in df.node_defs.get(n, [])):
                    continue
                # candidate: flow-insensitively maybe unbound; look for a feasible path
                if pf is None:
                    pf = PathFinder(cfg, df)

                def defines(m, v=v):
                    return any(d.var == v and d.kind not in ("del", "unbound", "substore", "attrstore", "mutcall") for d in df.node_defs.get(m, []))

                def edge_ok(a, b, label, defines=defines):
                    # an assignment completes only on non-exceptional edges
                    return not (defines(a) and label != "exc")

                path = pf.find_path(cfg.entry, lambda m, n=n: m is n, edge_ok=edge_ok)
                ok = path is None
                res.add(
                    f,
                    use,
                    f"local `{v}` is assigned on every feasible path to this read",
                    ok,
                    "" if ok else f"`{v}` may be unbound here (UnboundLocalError)",
                    [] if ok else describe_path(f, path),
                    construct=f"read of `{v}` in `{norm_stmt(n.stmt if n.stmt is not None else use)[:100]}`",
                )
    res.add(None, None, f"{reads} reads of locals in {nfuncs} functions checked by reaching definitions", True,
            construct="all-local-reads", where="src/ropt", fname="<package>")
    res.notes.append(f"{reads} local reads in {nfuncs} functions; closures' free variables are out of scope")
    res.floor = 1
    return res


# --------------------------------------------------------------------- C14.2
_PYSCALAR_ATTRS = {"size", "ndim", "nbytes", "itemsize"}


_SCALAR_PARAMS: dict = {}


def is_pyscalar(t: Term) -> bool:
    k = t[0]
    if k == "param":
        # a parameter annotated `int` / `float` (filled by check_division's caller for the repo at hand)
        return bool(_SCALAR_PARAMS.get((t[1], t[2])))
    if k == "const":
        return isinstance(t[1], (int, float)) and not isinstance(t[1], bool)
    if k == "attr":
        return t[2] in _PYSCALAR_ATTRS
    if k == "call":
        fn = t[1]
        if fn[0] == "builtin" and fn[1] in ("len", "int", "float", "round", "abs", "max", "min", "sum"):
            if fn[1] in ("abs", "max", "min", "sum"):
                return all(is_pyscalar(a) for a in t[2]) and bool(t[2])
            return True
        if fn == ("global", "numpy.count_nonzero") and not any(k2 == "axis" for k2, _ in t[3]):
            return True
        if fn[0] == "global" and fn[1] in ("math.floor", "math.ceil"):
            return True
        return False
    if k == "binop":
        return is_pyscalar(t[2]) and is_pyscalar(t[3])
    if k == "aug":
        return is_pyscalar(t[2]) and is_pyscalar(t[3])
    if k == "unary":
        return is_pyscalar(t[2])
    if k == "sub":
        return t[1][0] == "attr" and t[1][2] == "shape"
    if k == "phi":
        return all(is_pyscalar(a) for a in t[1])
    if k == "ifexp":
        return is_pyscalar(t[2]) and is_pyscalar(t[3])
    return False


def base_offset(t: Term) -> tuple[Term, float]:
    """t == base + offset with wrappers int()/float() stripped."""
    while t[0] == "call" and t[1][0] == "builtin" and t[1][1] in ("int", "float") and len(t[2]) == 1:
        t = t[2][0]
    if t[0] in ("binop", "aug") and t[1] in ("+", "-"):
        l, r = t[2], t[3]
        if r[0] == "const" and isinstance(r[1], (int, float)):
            b, o = base_offset(l)
            return b, o + (r[1] if t[1] == "+" else -r[1])
        if l[0] == "const" and isinstance(l[1], (int, float)) and t[1] == "+":
            b, o = base_offset(r)
            return b, o + l[1]
    return t, 0.0


def _nrm(t: Term) -> Term:
    from ..pattern import norm

    return norm(t)


def _cmp_excludes(op: str, const: float, polarity: bool, zero_at: float, flipped: bool) -> bool:
    """Does `base <op> const` (taken with ``polarity``) exclude base == zero_at?
    ``flipped`` means the comparison was written `const <op> base`."""
    if flipped:
        op = {"<": ">", "<=": ">=", ">": "<", ">=": "<=", "==": "==", "!=": "!="}.get(op, op)
    if not polarity:
        op = {"<": ">=", "<=": ">", ">": "<=", ">=": "<", "==": "!=", "!=": "=="}.get(op, op)
    z = zero_at
    if op == ">=":
        return const > z
    if op == ">":
        return const >= z
    if op == "<":
        return const <= z
    if op == "<=":
        return const < z
    if op == "!=":
        return const == z
    if op == "==":
        return const != z
    return False


def _guard_edges(ctx: Ctx, f: Func, base: Term, zero_at: float, _depth: int = 0):
    """(node, label) pairs that establish base != zero_at: branches of a test on the
    base, and the normal return of a call of a checking helper (a package function that
    raises on every path on which its corresponding argument term equals zero_at)."""
    from ..callgraph import _is_bound_call, bind_args

    cfg = cfg_of(ctx.repo, f)
    out = set()
    for n in cfg.nodes:
        if n.ast is None:
            continue
        if n.kind == "test":
            for pol, label in ((True, "true"), (False, "false")):
                if _test_excludes(ctx, f, n.ast, pol, base, zero_at):
                    out.add((n, label))
        elif n.kind == "stmt" and _depth < 2 and isinstance(n.ast, ast.Expr) and isinstance(n.ast.value, ast.Call):
            call = n.ast.value
            for _c, callees, kind in [x for x in ctx.cg.all_callees(f) if x[0] is call]:
                if kind == "callback" or len(callees) != 1:
                    continue
                g = callees[0]
                if isinstance(g.node, ast.Lambda) or not any(isinstance(x, ast.Raise) for x in ast.walk(g.node)):
                    continue
                ct = ctx.X.at(f, call)
                mapping = bind_args(g, ct, bound=_is_bound_call(ct, g))
                inv = {v: ("param", g.qualname, k) for k, v in mapping.items() if v[0] != "const"}
                gbase = _subst_terms(base, inv)
                if not all(s_[1] == g.qualname for s_ in subterms(gbase) if s_[0] == "param") or not _only_params(gbase):
                    continue
                gcfg = cfg_of(ctx.repo, g)
                gdf = dataflow_of(ctx.repo, g)
                gguards = _guard_edges(ctx, g, gbase, zero_at, _depth + 1)
                if not gguards:
                    continue
                p_ = PathFinder(gcfg, gdf).find_path(gcfg.entry, lambda m, gcfg=gcfg: m is gcfg.exit, edge_ok=lambda a, b, lab, gg=gguards: (a, lab) not in gg)
                if p_ is None:
                    for lab in {lab for _s, lab in n.succ if lab != "exc"}:
                        out.add((n, lab))
    return out


def _subst_terms(t, mapping: dict):
    if not isinstance(t, tuple):
        return t
    if t in mapping:
        return mapping[t]
    return tuple(_subst_terms(x, mapping) for x in t)


def _test_excludes(ctx: Ctx, f: Func, test: ast.AST, pol: bool, base: Term, zero_at: float) -> bool:
    if isinstance(test, ast.UnaryOp) and isinstance(test.op, ast.Not):
        return _test_excludes(ctx, f, test.operand, not pol, base, zero_at)
    if isinstance(test, ast.BoolOp):
        if (isinstance(test.op, ast.And) and pol) or (isinstance(test.op, ast.Or) and not pol):
            return any(_test_excludes(ctx, f, v, pol, base, zero_at) for v in test.values)
        return False
    if isinstance(test, ast.Compare) and len(test.ops) == 1:
        from ..util import module_const

        def resolve(t):
            # module-level numeric constants (Final) count as literals
            if t[0] == "global":
                v = module_const(ctx.repo, t[1])
                if isinstance(v, (int, float)) and not isinstance(v, bool):
                    return ("const", v)
            return t

        l = base_offset(resolve(ctx.X.value_at(f, test.left)))
        r = base_offset(resolve(ctx.X.value_at(f, test.comparators[0])))
        l, r = (_nrm(l[0]), l[1]), (_nrm(r[0]), r[1])
        from ..terms import _CMP

        op = _CMP.get(type(test.ops[0]), "?")
        # base + lo  <op>  const
        if l[0] == base and r[0][0] == "const" and isinstance(r[0][1], (int, float)):
            return _cmp_excludes(op, r[0][1] + r[1] - l[1], pol, zero_at, False)
        if r[0] == base and l[0][0] == "const" and isinstance(l[0][1], (int, float)):
            return _cmp_excludes(op, l[0][1] + l[1] - r[1], pol, zero_at, True)
        return False
    # truthiness of the base itself (counts are non-negative integers)
    t = base_offset(ctx.X.value_at(f, test))
    if _nrm(t[0]) == base and t[1] == 0 and zero_at == 0:
        return pol
    return False


def _unguarded_path(ctx: Ctx, f: Func, target_node, base: Term, zero_at: float):
    df = dataflow_of(ctx.repo, f)
    cfg = df.cfg
    guards = _guard_edges(ctx, f, base, zero_at)
    pf = PathFinder(cfg, df)
    return pf.find_path(
        cfg.entry,
        lambda m: m is target_node,
        edge_ok=lambda a, b, lab: (a, lab) not in guards,
    )


def _only_params(t: Term) -> bool:
    for s in subterms(t):
        if s[0] in ("rec", "unknown", "deep", "unbound", "iter", "enumidx"):
            return False
    return True


def _subst_params(t, mapping: dict) -> Term:
    if not isinstance(t, tuple):
        return t
    if t and t[0] == "param" and t[2] in mapping:
        return mapping[t[2]]
    return tuple(_subst_params(x, mapping) for x in t)


def _note_scalar_params(ctx: Ctx, f: Func) -> None:
    if isinstance(f.node, ast.Lambda):
        return
    a = f.node.args
    for x in a.posonlyargs + a.args + a.kwonlyargs:
        if x.annotation is not None and ast.unparse(x.annotation) in ("int", "float"):
            _SCALAR_PARAMS[(f.qualname, x.arg)] = True


def check_division(ctx: Ctx, res: RuleResult, f: Func, node: ast.AST, divisor: ast.AST) -> None:
    from ..callgraph import bind_args, _is_bound_call

    _note_scalar_params(ctx, f)
    dterm = ctx.X.at(f, divisor)
    if not is_pyscalar(dterm):
        return
    base, off = base_offset(dterm)
    base = _nrm(base)
    if base[0] == "const":
        if base[1] + off != 0:
            return
        res.add(f, node, "divisor is non-zero", False, "constant zero divisor")
        return
    zero_at = -off if off else 0.0
    cfg = cfg_of(ctx.repo, f)
    nodes = cfg.node_containing(node)
    if not nodes:
        raise AnalysisError(f"no CFG node for division at {f.where(node)}")
    oblig = f"Python-scalar divisor `{show(dterm, 80)}` is guarded against zero on the same term on every path"
    path = _unguarded_path(ctx, f, nodes[0], base, zero_at)
    if path is None:
        res.add(f, node, oblig, True)
        return
    # no local guard: look up the call chains (at most three levels) while the base depends on parameters only
    def unguarded_chain(g: Func, gbase: Term, depth: int):
        """None when every caller chain passes a guard; else (caller, call, base there, path)."""
        callers_ = ctx.cg.callers(g)
        if not callers_ or not _only_params(gbase):
            return (g, None, gbase, None)
        for caller, call in callers_:
            cterm = ctx.X.at(caller, call)
            mapping = bind_args(g, cterm, bound=_is_bound_call(cterm, g))
            cbase = _nrm(_subst_params(gbase, mapping))
            cnodes = cfg_of(ctx.repo, caller).node_containing(call)
            if not cnodes:
                continue
            p2 = _unguarded_path(ctx, caller, cnodes[0], cbase, zero_at)
            if p2 is None:
                continue
            if depth < 3 and _only_params(cbase) and all(s_[1] == caller.qualname for s_ in subterms(cbase) if s_[0] == "param") and ctx.cg.callers(caller):
                up = unguarded_chain(caller, cbase, depth + 1)
                if up is None:
                    continue
                if up[1] is not None:
                    return up
            return (caller, call, cbase, p2)
        return None

    callers = ctx.cg.callers(f)
    if _only_params(base) and callers:
        bad = unguarded_chain(f, base, 1)
        if bad is None:
            res.add(f, node, oblig + " (guard found in every caller)", True)
            return
        caller, call, cbase, p2 = bad
        res.add(
            f, node, oblig, False,
            f"`{show(base, 90)}` can be {zero_at:g} here: no guard in this function, and caller "
            f"{caller.qualname} (line {call.lineno if call is not None else '?'}) reaches the call without a guard on `{show(cbase, 90)}` "
            "(ZeroDivisionError instead of an exit code)",
            describe_path(caller, p2) if p2 is not None else [],
        )
        return
    res.add(
        f, node, oblig, False,
        f"`{show(base, 90)}` can be {zero_at:g} here and no dominating guard on that term exists (ZeroDivisionError)",
        describe_path(f, path),
    )


@rule(P)
def c14_2(ctx: Ctx) -> RuleResult:
    res = RuleResult("C14.2", "DOM", "Python-scalar divisions are guarded against a zero divisor")
    mods = ctx.repo.modules if ctx.tier == "thorough" else {
        k: v for k, v in ctx.repo.modules.items()
        if k.startswith(("ropt.plugins.realization_filter", "ropt.plugins.function_estimator", "ropt.ensemble_evaluator", "ropt.optimization"))
    }
    ndiv = 0
    for f in ctx.repo.all_funcs():
        if f.module.name not in mods:
            continue
        for n in nodes_in(f, (ast.BinOp, ast.AugAssign)):
            if isinstance(n.op, (ast.Div, ast.FloorDiv, ast.Mod)):
                ndiv += 1
                check_division(ctx, res, f, n, n.right if isinstance(n, ast.BinOp) else n.value)
    res.notes.append(f"{ndiv} division expressions inspected; {len(res.instances)} have a Python-scalar divisor that is not a non-zero constant")
    res.floor = 2
    return res


# --------------------------------------------------------------------- C14.3
def step_run_methods(ctx: Ctx) -> list[Func]:
    out = ctx.repo.implementations("ropt.plugins.plan.base.PlanStep", "run")
    if not out:
        raise AnalysisError("no PlanStep.run implementations found")
    return out


class ExcFlow:
    """Which raise sites of exception class E can propagate out of a function."""

    def __init__(self, ctx: Ctx, exc: str, user_callbacks_raise: bool) -> None:
        self.ctx = ctx
        self.exc = exc
        self.user = user_callbacks_raise
        self.memo: dict[str, list] = {}
        self.active: set[str] = set()

    def _is_exc(self, q: str | None) -> bool:
        if q is None:
            return False
        cfg_dummy = None
        if q == self.exc:
            return True
        return q in self.ctx.repo.classes and self.ctx.repo.is_subclass(q, self.exc)

    def escaping(self, f: Func) -> list[tuple[Func, ast.AST, tuple]]:
        """[(site function, site node, call chain)] escaping from f."""
        if f.qualname in self.memo:
            return self.memo[f.qualname]
        if f.qualname in self.active:
            return []
        self.active.add(f.qualname)
        out: list[tuple[Func, ast.AST, tuple]] = []
        cfg = cfg_of(self.ctx.repo, f)
        try:
            for n in nodes_in(f, ast.Raise):
                q = cfg._exc_qual(n.exc) if n.exc is not None else None
                if n.exc is None:
                    # bare re-raise inside a handler for a matching class
                    h = parent(n)
                    while h is not None and not isinstance(h, ast.ExceptHandler):
                        h = parent(h)
                    if h is None or cfg._match(self.exc, cfg._handler_classes(h)) == "no":
                        continue
                elif not self._is_exc(q):
                    continue
                if catching_handler(self.ctx.repo, f, n, self.exc) is None:
                    out.append((f, n, ()))
            for call, callees, kind in self.ctx.cg.all_callees(f):
                for g in callees:
                    for (sf, sn, chain) in self.escaping(g):
                        if catching_handler(self.ctx.repo, f, call, self.exc) is None:
                            out.append((sf, sn, ((f, call),) + chain))
            if self.user:
                for fcall in self.ctx.cg.unresolved:
                    if fcall[0] is f and _is_user_callback(self.ctx, f, fcall[1]):
                        if catching_handler(self.ctx.repo, f, fcall[1], self.exc) is None:
                            out.append((f, fcall[1], ()))
        finally:
            self.active.discard(f.qualname)
        # dedupe by site, keep shortest chain
        best: dict[int, tuple] = {}
        for sf, sn, chain in out:
            if id(sn) not in best or len(chain) < len(best[id(sn)][2]):
                best[id(sn)] = (sf, sn, chain)
        res = list(best.values())
        self.memo[f.qualname] = res
        return res


def abort_capable_nodes(ctx: Ctx, f: Func) -> set:
    """CFG nodes of f that can actually raise OptimizationAborted: raise
    statements of that class, calls whose callees let one escape, and calls of
    user callbacks (evaluator, observers).  Exceptional edges of other nodes
    carry other exception classes and never reach an abort handler."""
    cache = ctx.__dict__.setdefault("_abort_nodes", {})
    if f.qualname in cache:
        return cache[f.qualname]
    cfg = cfg_of(ctx.repo, f)
    flow = ExcFlow(ctx, ABORT, user_callbacks_raise=True)
    out = set()
    for n in nodes_in(f, ast.Raise):
        q = cfg._exc_qual(n.exc) if n.exc is not None else None
        if n.exc is None or q is None or flow._is_exc(q):
            out.update(cfg.node_containing(n))
    for call, callees, _k in ctx.cg.all_callees(f):
        if any(flow.escaping(g) for g in callees):
            out.update(cfg.node_containing(call))
    for g, call in ctx.cg.unresolved:
        if g is f and _is_user_callback(ctx, f, call):
            out.update(cfg.node_containing(call))
    cache[f.qualname] = out
    return out


def abort_edges_only(ctx: Ctx, f: Func):
    """edge filter for path queries about aborts: exceptional edges are
    followed only from abort-capable nodes."""
    capable = abort_capable_nodes(ctx, f)
    return lambda a, b, lab: lab != "exc" or a in capable


def _is_user_callback(ctx: Ctx, f: Func, call: ast.Call) -> bool:
    """Calls of a callable parameter / stored user callable (evaluator,
    observers, results callbacks)."""
    t = ctx.X.at(f, call.func)
    return t[0] in ("param", "iter", "attr", "phi", "sub")


def reachable_raise_sites(ctx: Ctx, roots: list[Func], exc: str) -> list[tuple[Func, ast.Raise]]:
    out = []
    cg = ctx.cg
    seen: dict[str, Func] = {}
    work = list(roots)
    while work:
        f = work.pop()
        if f.qualname in seen:
            continue
        seen[f.qualname] = f
        for _call, cs, _k in cg.all_callees(f):
            work.extend(cs)
    for f in sorted(seen.values(), key=lambda f: f.qualname):
        cfg = cfg_of(ctx.repo, f)
        for n in nodes_in(f, ast.Raise):
            if n.exc is None:
                continue
            q = cfg._exc_qual(n.exc)
            if q == exc or (q in ctx.repo.classes and ctx.repo.is_subclass(q, exc)):
                out.append((f, n))
    return out


@rule(P)
def c14_3(ctx: Ctx) -> RuleResult:
    res = RuleResult("C14.3", "EXC", "OptimizationAborted raised under a step's run (package raise sites and the evaluator call) is converted to an exit code inside the step")
    flow = ExcFlow(ctx, ABORT, user_callbacks_raise=False)
    for run in step_run_methods(ctx):
        sites = reachable_raise_sites(ctx, [run], ABORT)
        esc = {id(sn): (sf, sn, chain) for sf, sn, chain in flow.escaping(run)}
        for sf, sn in sites:
            ok = id(sn) not in esc
            wit = []
            if not ok:
                wit = [f"{cf.qualname} line {c.lineno}: {norm_stmt(c)[:80]}" for cf, c in esc[id(sn)][2]]
            res.add(
                sf, sn,
                f"this raise is caught and converted (exit_code = exc.exit_code) on every call path from {run.qualname}",
                ok,
                "" if ok else f"OptimizationAborted escapes {run.qualname} as an exception instead of an exit code",
                wit,
                construct=f"{run.cls.name if run.cls else run.name}: {norm_stmt(sn)}",
            )
        # the evaluator (user callable) may raise OptimizationAborted(USER_ABORT) itself
        eflow = ExcFlow(ctx, ABORT, user_callbacks_raise=True)
        for sf, sn, chain in eflow.escaping(run):
            if isinstance(sn, ast.Call) and _is_evaluator_call(ctx, sf, sn):
                res.add(
                    sf, sn, f"an abort raised by the evaluator is converted inside {run.qualname}", False,
                    "the evaluator call is not inside a region converting OptimizationAborted",
                    [f"{cf.qualname} line {c.lineno}" for cf, c in chain],
                    construct=f"{run.cls.name if run.cls else run.name}: {norm_stmt(sn)}",
                )
    # conversion handlers must copy the code from the exception: the handlers on the call paths of the plan steps
    # (a separate process that maps an abort to its own exit status, like the external optimizer's child, is not one)
    runs_ = list(step_run_methods(ctx))
    scope = set(runs_) | set(ctx.cg.reachable(runs_, include_nested_values=True))
    for f in ctx.repo.all_funcs():
        if f not in scope:
            continue
        cfg = cfg_of(ctx.repo, f)
        for h in nodes_in(f, ast.ExceptHandler):
            classes = cfg._handler_classes(h)
            if classes and ABORT in classes:
                ok = False
                if h.name:
                    for n in ast.walk(h):
                        if isinstance(n, ast.Attribute) and n.attr == "exit_code" and isinstance(n.value, ast.Name) and n.value.id == h.name:
                            ok = True
                        if isinstance(n, ast.Raise):
                            ok = True
                res.add(f, h, "the handler takes the exit code from the caught exception (exc.exit_code)", ok,
                        "" if ok else "handler for OptimizationAborted does not read exc.exit_code",
                        construct=f"except OptimizationAborted in {f.name}")
    res.floor = 6
    return res


def _returns_constant_only(h: ast.ExceptHandler) -> bool:
    return all(isinstance(s, ast.Return) and isinstance(s.value, ast.Constant) for s in h.body)


def _is_evaluator_call(ctx: Ctx, f: Func, call: ast.Call) -> bool:
    t = ctx.X.at(f, call.func)
    if t[0] == "param":
        g = ctx.repo.funcs.get(t[1])
        if g is not None:
            for a in g.node.args.posonlyargs + g.node.args.args + g.node.args.kwonlyargs:
                if a.arg == t[2]:
                    return any(ty == ("cls", "ropt.evaluator._evaluator.Evaluator") for ty in ctx.cg.ann_types(a.annotation, g))
    return False


# --------------------------------------------------------------------- C14.4
def optimizer_callbacks(ctx: Ctx) -> list[Func]:
    """Functions passed as the optimizer callback to Optimizer plug-ins by the
    package's optimization driver (role-based discovery)."""
    out: list[Func] = []
    creates = ctx.repo.implementations("ropt.plugins.optimizer.base.OptimizerPlugin", "create")
    base = ctx.repo.funcs.get("ropt.plugins.optimizer.base.OptimizerPlugin.create")
    targets = creates + ([base] if base else [])
    for t in targets:
        for caller, call in ctx.cg.callers(t):
            if not caller.module.name.startswith("ropt.optimization"):
                continue
            term = ctx.X.at(caller, call)
            if len(term[2]) >= 2:
                for g in ctx.cg.resolve_fn(term[2][1], caller):
                    if g not in out:
                        out.append(g)
    if not out:
        raise AnalysisError("optimizer callback of the optimization driver not found")
    return out


def ensemble_calculate(ctx: Ctx) -> Func:
    return ctx.repo.func("ropt.ensemble_evaluator._ensemble_evaluator.EnsembleEvaluator.calculate")


def calls_reaching(ctx: Ctx, f: Func, target: Func, depth: int = 3) -> list[ast.Call]:
    """Call sites in f whose callee is target or reaches it within depth."""
    out = []
    for call, cs, _k in ctx.cg.all_callees(f):
        for g in cs:
            if g is target or (depth > 0 and g is not f and calls_reaching(ctx, g, target, depth - 1)):
                out.append(call)
                break
    return out


def _raises_code(ctx: Ctx, f: Func, code: str) -> list[ast.Raise]:
    out = []
    for n in nodes_in(f, ast.Raise):
        if n.exc is None:
            continue
        t = ctx.X.at(f, n.exc)
        if contains(t, lambda s: s[0] == "global" and s[1] == f"ropt.enums.OptimizerExitCode.{code}"):
            out.append(n)
    return out


@rule(P)
def c14_4(ctx: Ctx) -> RuleResult:
    res = RuleResult("C14.4", "DOM", "max_functions: the stopping check dominates every evaluation, uses `completed >= max`, and the counter counts delivered function results")
    calc = ensemble_calculate(ctx)
    for cb in optimizer_callbacks(ctx):
        cfg = cfg_of(ctx.repo, cb)
        df = dataflow_of(ctx.repo, cb)
        pf = PathFinder(cfg, df)
        # check functions: callees that raise MAX_FUNCTIONS_REACHED
        check_calls = []
        check_funcs = []
        for call, cs, _k in ctx.cg.all_callees(cb):
            for g in cs:
                if _raises_code(ctx, g, "MAX_FUNCTIONS_REACHED"):
                    check_calls.append(call)
                    check_funcs.append(g)
        inline_raises = _raises_code(ctx, cb, "MAX_FUNCTIONS_REACHED")
        check_nodes = set()
        for c in check_calls:
            check_nodes.update(cfg.node_containing(c))
        for r_ in inline_raises:
            # the test guarding an inline raise
            for n in cfg.node_containing(r_):
                for p_, lab in n.pred:
                    check_nodes.add(p_)
        evals = calls_reaching(ctx, cb, calc)
        if not evals:
            raise AnalysisError(f"no evaluation call found in {cb.qualname}")
        for ev in evals:
            ok = True
            wit: list[str] = []
            for n in cfg.node_containing(ev):
                path = pf.find_path(cfg.entry, lambda m, n=n: m is n, blocked=lambda m: m in check_nodes)
                if path is not None:
                    ok = False
                    wit = describe_path(cb, path)
            res.add(cb, ev, "the max_functions stopping check is executed on every path before this evaluation", ok,
                    "" if ok else "an evaluation is reachable without passing the max_functions check (budget can be exceeded)", wit)
        # comparator of the check and the counter
        for g in set(check_funcs) | ({cb} if inline_raises else set()):
            for r_ in _raises_code(ctx, g, "MAX_FUNCTIONS_REACHED"):
                ok, why, counter = _budget_condition(ctx, g, r_)
                res.add(g, r_, "MAX_FUNCTIONS_REACHED is raised iff max_functions is set and completed >= max_functions", ok, why)
                if counter is not None:
                    _check_counter(ctx, res, cb, counter)
    res.floor = 3
    return res


def _budget_condition(ctx: Ctx, g: Func, raise_stmt: ast.AST):
    """The condition under which the raise executes must contain `counter - max >= 0` (any
    spelling: `counter >= max`, `max - counter <= 0`, `not counter < max`, early return when
    below ...), max derived from `optimizer.max_functions`, counter an attribute of self."""
    from ..util import bool_nnf, linear_cmp, nnf_literals, path_condition

    pc = path_condition(ctx, g, raise_stmt)
    if not pc:
        return False, "no comparison of a counter with optimizer.max_functions controls this raise", None
    guard = bool_nnf(("bool", "and", tuple(c if p else ("unary", "not", c) for c, p in pc)))
    conj = [(it[1], it[2]) for it in (guard[1] if guard[0] == "and" else [guard]) if it[0] == "lit"]
    is_max = lambda x: contains(x, lambda y: y[0] == "attr" and y[2] == "max_functions")  # noqa: E731
    for atom, pol in conj:
        lc = linear_cmp(atom, pol)
        if lc is None:
            continue
        coeffs, const, op = lc
        mx = [a for a in coeffs if is_max(a)]
        others = [a for a in coeffs if not is_max(a)]
        if len(mx) != 1 or len(others) != 1:
            continue
        counter = others[0]
        km, kc = coeffs[mx[0]], coeffs[counter]
        if op == ">=" and kc > 0 and km == -kc and const == 0:
            return True, "", counter
        if op == ">=" and kc > 0 and km == -kc:
            return False, f"the raise happens when `counter - max_functions >= {-const / kc:g}`; the budget requires `counter >= max_functions` (one evaluation too many or too few)", counter
        return False, f"comparator is `{show(atom, 60)}` ({'taken' if pol else 'negated'}); the budget requires `counter >= max_functions`", counter
    return False, "no comparison of a counter with optimizer.max_functions controls this raise", None


def _check_counter(ctx: Ctx, res: RuleResult, cb: Func, counter: Term) -> None:
    """The counter field is incremented in the callback by the number of
    function results, under the `return_functions` condition."""
    from ..terms import attr_chain

    # the counter as read at the test may already carry this call's increment (`self.n += k` just before the test)
    while counter[0] == "aug":
        counter = counter[2]
    _root, names = attr_chain(counter)
    if not names:
        return
    fieldname = names[-1]
    # the callback and the private single-use methods it is cut into
    from ..util import enclosing_ifs_ctx, unique_caller

    pieces = [cb]
    for h in ctx.cg.reachable([cb], include_nested_values=False):
        if h is not cb and h.cls is cb.cls and h.name.startswith("_"):
            uc = unique_caller(ctx, h)
            if uc is not None and (uc[0] is cb or uc[0] in pieces):
                pieces.append(h)
    incs = []
    for h in pieces:
        for n in nodes_in(h, ast.AugAssign):
            if isinstance(n.target, ast.Attribute) and n.target.attr == fieldname and isinstance(n.op, ast.Add):
                incs.append((h, n))
    if not incs:
        res.add(cb, cb.node, f"`{fieldname}` is incremented by the number of delivered function results", False,
                f"no `self.{fieldname} += ...` in the optimizer callback: the budget is never consumed",
                construct=f"increment of {fieldname}")
        return
    cb0 = cb
    for cb, n in incs:
        t = ctx.X.at(cb, n.value)
        ok = t[0] == "call" and t[1] == ("builtin", "len")
        detail = ""
        if ok:
            # the counted list is built from FunctionResults items only
            ok = contains(t, lambda s: s[0] == "global" and s[1].endswith("FunctionResults"))
            if not ok and isinstance(n.value, ast.Call) and n.value.args and isinstance(n.value.args[0], ast.Name):
                # a list filled in a loop: every append happens under isinstance(item, FunctionResults)
                from ..util import bool_nnf, nnf_literals, path_condition

                lname = n.value.args[0].id
                apps = [c for c in calls_in(cb) if isinstance(c.func, ast.Attribute) and c.func.attr in ("append", "extend") and isinstance(c.func.value, ast.Name) and c.func.value.id == lname]

                def under_isinstance(c):
                    st = c
                    while parent(st) is not None and not isinstance(st, ast.stmt):
                        st = parent(st)
                    pc = path_condition(ctx, cb, st)
                    if not pc:
                        return False
                    g_ = bool_nnf(("bool", "and", tuple(x if p else ("unary", "not", x) for x, p in pc)))
                    conj = [(it[1], it[2]) for it in (g_[1] if g_[0] == "and" else [g_]) if it[0] == "lit"]
                    return any(p and a[0] == "call" and a[1] == ("builtin", "isinstance") and len(a[2]) == 2 and a[2][1][0] == "global" and a[2][1][1].endswith("FunctionResults") for a, p in conj)

                ok = bool(apps) and all(under_isinstance(c) for c in apps)
            if not ok:
                detail = "the counted collection is not restricted to FunctionResults"
        else:
            detail = f"increment is `{show(t, 80)}`, not the number of function results"
        # control dependence on return_functions
        dep = any(any(isinstance(x, ast.Name) and x.id == "return_functions" for x in ast.walk(cur.test)) for _gf, cur in enclosing_ifs_ctx(ctx, cb, n))
        if ok and not dep:
            ok, detail = False, "increment is not conditional on `return_functions`"
        res.add(cb, n, f"`{fieldname}` grows by len(<function results>) exactly where functions were returned", ok, detail)


# --------------------------------------------------------------------- C14.5
@rule(P)
def c14_5(ctx: Ctx) -> RuleResult:
    res = RuleResult("C14.5", "DOM", "the results of a failing evaluation are signalled before TOO_FEW_REALIZATIONS is raised")
    calc = ensemble_calculate(ctx)
    for cb in optimizer_callbacks(ctx):
        for g in [cb] + [x for _c, cs, _k in ctx.cg.all_callees(cb) for x in cs]:
            direct = [c for c, cs, _k in ctx.cg.all_callees(g) if calc in cs]
            if not direct:
                continue
            cfg = cfg_of(ctx.repo, g)
            df = dataflow_of(ctx.repo, g)
            pf = PathFinder(cfg, df)
            raises = [n for n in nodes_in(g, ast.Raise) if n.exc is not None and _derives_too_few(ctx, g, n)]
            # signal calls that pass the results of the calculate call
            signal_nodes = set()
            signal_tests = set()
            for call in calls_in(g):
                t = ctx.X.at(g, call)
                if t[0] != "call":
                    continue
                args = list(t[2]) + [v for _, v in t[3]]
                if any(_is_calc_result(ctx, g, a, calc) for a in args) and _is_signal_callable(t[1]):
                    signal_nodes.update(cfg.node_containing(call))
                    # `if self._signal_evaluation:` guards: a missing callback is fine
                    cur = parent(call)
                    while cur is not None and cur is not g.node:
                        if isinstance(cur, ast.If) and ast.unparse(cur.test) == ast.unparse(call.func):
                            signal_tests.update(cfg.node_containing(cur.test))
                        cur = parent(cur)
            for r_ in raises:
                for c in direct:
                    for cn in cfg.node_containing(c):
                        for rn in cfg.node_containing(r_):
                            path = pf.find_path(
                                cn, lambda m, rn=rn: m is rn,
                                blocked=lambda m: m in signal_nodes,
                                edge_ok=lambda a, b, lab: not (a in signal_tests and lab == "false"),
                            )
                            ok = path is None
                            res.add(g, r_, "every path from the evaluation to this raise passes the results signal", ok,
                                    "" if ok else "TOO_FEW_REALIZATIONS can be raised before the results were delivered to handlers",
                                    [] if ok else describe_path(g, path))
    # steps that evaluate directly (the evaluator step): the results event follows the evaluation on every path that
    # ends the step normally, also when the step itself turns the failure into TOO_FEW_REALIZATIONS (shared with C15.1)
    from .c15 import c15_1

    for i in c15_1(ctx).instances:
        if "FINISHED_EVALUATION after calculate" in i.construct:
            i.rule = "C14.5"
            i.obligation = "the results of the (possibly failing) evaluation are delivered before the step ends: " + i.obligation
            res.instances.append(i)
    res.floor = 2
    return res


def _derives_too_few(ctx: Ctx, g: Func, r_: ast.Raise) -> bool:
    t = ctx.X.at(g, r_.exc)
    if any(s[0] == "global" and s[1] == "ropt.enums.OptimizerExitCode.TOO_FEW_REALIZATIONS" for s in ctx.X.closure(t)):
        return True
    # the code may be computed by a helper (its return values are followed)
    args = [a for a in t[2]] + [v for _k, v in t[3]] if t[0] == "call" else [t]
    return any(s[0] == "global" and s[1] == "ropt.enums.OptimizerExitCode.TOO_FEW_REALIZATIONS"
               for a in args for _g, s in deep_subterms(ctx, g, a, 3, prune=lambda _f, x: () if x[0] == "param" else None))


def _is_calc_result(ctx: Ctx, g: Func, a: Term, calc: Func) -> bool:
    if a[0] != "call":
        return False
    return calc in ctx.cg.resolve_fn(a[1], g)


def _is_signal_callable(fn: Term) -> bool:
    return fn[0] in ("attr", "param", "phi")


# --------------------------------------------------------------------- C14.6
# broad handlers that legitimately do not re-raise: (module, function) -> reason
BROAD_HANDLER_EXCEPTIONS = {
    ("ropt.plugins.optimizer.external", "_PluginOptimizer.run"): (
        "child side of the external optimizer: the error text is sent to the parent, which raises it (C20.4), and the child exits with status 1"
    ),
}


def broad_handlers(ctx: Ctx):
    for f in ctx.repo.all_funcs():
        cfg = cfg_of(ctx.repo, f)
        for h in nodes_in(f, ast.ExceptHandler):
            classes = cfg._handler_classes(h)
            if classes is None or any(c in ("Exception", "BaseException") for c in classes):
                yield f, h


@rule(P)
def c14_6(ctx: Ctx) -> RuleResult:
    res = RuleResult("C14.6", "EXC", "a broad exception handler never lets the function return normally with the exception dropped")
    for f, h in broad_handlers(ctx):
        short = f.qualname[len(f.module.name) + 1:]
        key = (f.module.name, short)
        if key in BROAD_HANDLER_EXCEPTIONS:
            res.add(f, h, "broad handler (listed exception: " + BROAD_HANDLER_EXCEPTIONS[key] + ")", True,
                    construct=f"except {ast.unparse(h.type) if h.type else ''} in {short}")
            continue
        cfg = cfg_of(ctx.repo, f)
        df = dataflow_of(ctx.repo, f)
        pf = PathFinder(cfg, df)
        ok = True
        wit: list[str] = []
        for hn in cfg.nodes_for(h):
            path = pf.find_path(hn, lambda m: m is cfg.exit)
            if path is not None:
                ok = False
                wit = describe_path(f, path)
        res.add(
            f, h,
            "after this handler the function cannot return normally: the caught exception is re-raised on every feasible path",
            ok,
            "" if ok else "the caught exception can be dropped: a normal return is reachable from the handler",
            wit,
            construct=f"except {ast.unparse(h.type) if h.type else ''} in {short}",
        )
    # a `raise` / `return` / `break` inside a finally clause replaces whatever exception
    # is in flight (including a user abort): package-wide there must be none
    n_fin = 0
    for f in ctx.repo.all_funcs():
        for t in nodes_in(f, ast.Try):
            if not t.finalbody:
                continue
            n_fin += 1
            bad = [x for s_ in t.finalbody for x in ast.walk(s_) if isinstance(x, (ast.Raise, ast.Return, ast.Break, ast.Continue))]
            ok = not bad
            res.add(f, bad[0] if bad else t, "the finally clause does not raise / return / break (it cannot replace an exception in flight)", ok,
                    "" if ok else f"`{norm_stmt(bad[0])[:70]}` inside `finally` replaces an exception that is propagating (e.g. the user's abort or an evaluator error) with another outcome",
                    construct=f"{f.name}: finally clause")
    res.notes.append(f"{n_fin} finally clauses inspected")
    res.floor = 2
    return res


# --------------------------------------------------------------------- C14.7
@rule(P)
def c14_7(ctx: Ctx) -> RuleResult:
    """TOO_FEW_REALIZATIONS exactly when a filter leaves no positive weight: failed
    realizations are never selected, and the positive-weight guard dominates every
    return of the filter (shared with C04.4 / C04.6)."""
    from .c04 import c04_6
    from .c04 import ranking_of_successes as c04_4

    res = RuleResult("C14.7", "DOM", "filters report TOO_FEW_REALIZATIONS when failures leave no positively weighted realization (failed ones are never selected; guard before every return)")
    for sub in (c04_4, c04_6):
        for i in sub(ctx).instances:
            i.rule = "C14.7"
            res.instances.append(i)
    res.floor = 4
    return res


# --------------------------------------------------------------------- C14.8
def _optional_params(f: Func) -> list[str]:
    node = f.node
    if isinstance(node, ast.Lambda):
        return []
    out = []
    for a in list(node.args.posonlyargs) + list(node.args.args) + list(node.args.kwonlyargs):
        ann = a.annotation
        if ann is None:
            continue
        if isinstance(ann, ast.Constant) and isinstance(ann.value, str):
            try:
                ann = ast.parse(ann.value, mode="eval").body
            except SyntaxError:
                continue
        top = []
        stack = [ann]
        while stack:
            x = stack.pop()
            if isinstance(x, ast.BinOp) and isinstance(x.op, ast.BitOr):
                stack += [x.left, x.right]
            elif isinstance(x, ast.Subscript) and dotted(x.value) in ("Optional", "typing.Optional"):
                top.append(ast.Constant(value=None))
            else:
                top.append(x)
        if any(isinstance(x, ast.Constant) and x.value is None for x in top):
            out.append(a.arg)
    return out


@rule(P)
def c14_8(ctx: Ctx) -> RuleResult:
    res = RuleResult("C14.8", "DOM", "a parameter declared `... | None` is used as an arithmetic operand, subscripted or dereferenced only where it cannot be None (package-wide)")
    nfuncs = nsites = 0
    for f in ctx.repo.all_funcs():
        opts = _optional_params(f)
        if not opts:
            continue
        nfuncs += 1
        df = None
        for p in opts:
            sites = []
            for n in walk_scope(f.node):
                if not (isinstance(n, ast.Name) and n.id == p and isinstance(n.ctx, ast.Load)):
                    continue
                par = parent(n)
                kind = None
                if isinstance(par, ast.BinOp) and not isinstance(par.op, (ast.BitOr, ast.BitAnd)):
                    kind = "arithmetic operand"
                elif isinstance(par, ast.UnaryOp) and isinstance(par.op, (ast.USub, ast.Invert)):
                    kind = "arithmetic operand"
                elif isinstance(par, ast.Subscript) and par.value is n:
                    kind = "subscripted"
                elif isinstance(par, ast.Attribute) and par.value is n:
                    kind = "dereferenced"
                if kind is None:
                    continue
                # short-circuit guards inside the expression: `p is not None and p[0]`, `x if p is None else p.y`
                guarded = False
                child, cur = n, par
                while cur is not None and not isinstance(cur, ast.stmt):
                    if isinstance(cur, ast.BoolOp):
                        idx = next((i for i, v in enumerate(cur.values) if v is child), None)
                        if idx:
                            for v in cur.values[:idx]:
                                for fact, val in cond_facts(v, isinstance(cur.op, ast.And)):
                                    if fact[0] == "isnone" and fact[1] == p and val is False:
                                        guarded = True
                    if isinstance(cur, ast.IfExp) and child is not cur.test:
                        for fact, val in cond_facts(cur.test, child is cur.body):
                            if fact[0] == "isnone" and fact[1] == p and val is False:
                                guarded = True
                    if isinstance(cur, (ast.ListComp, ast.SetComp, ast.GeneratorExp, ast.DictComp, ast.Lambda)):
                        guarded = True  # evaluated in another scope / per element: not decided here
                    child, cur = cur, parent(cur)
                if not guarded:
                    sites.append((n, kind))
            if not sites:
                continue
            if df is None:
                df = dataflow_of(ctx.repo, f)
            cfg = df.cfg
            pf = PathFinder(cfg, df)
            redefs = {nd for nd in cfg.nodes if any(d.var == p for d in df.node_defs.get(nd, []))}
            for n, kind in sites:
                nsites += 1
                targets = set(cfg.node_containing(n))
                if not targets:
                    continue
                path = pf.find_path(cfg.entry, lambda x, targets=targets: x in targets, blocked=lambda x, redefs=redefs, targets=targets: x in redefs and x not in targets,
                                    start_facts=[(("isnone", p, frozenset([p])), True)])
                ok = path is None
                res.add(f, n, f"`{p}` ({kind}) cannot be None here", ok,
                        "" if ok else f"`{p}` may be None when `{norm_stmt(cfg_stmt(n))[:70]}` runs ({"; ".join(describe_path(f, path, 6))[:140]}): a TypeError/AttributeError instead of a documented outcome",
                        construct=f"{f.qualname.rsplit('.', 2)[-2] if f.cls else ''}{'.' if f.cls else ''}{f.name}: {p} {kind} `{ast.unparse(parent(n))[:40]}`")
    res.notes.append(f"{nfuncs} functions with optional parameters, {nsites} use sites")
    res.floor = 20
    return res


def cfg_stmt(n: ast.AST) -> ast.AST:
    while parent(n) is not None and not isinstance(n, ast.stmt):
        n = parent(n)
    return n


# --------------------------------------------------------------------- C14.9
@rule(P)
def c14_9(ctx: Ctx) -> RuleResult:
    """Shared with C03.5: the optimizer decides on TOO_FEW_REALIZATIONS for NaN-intolerant methods from
    `result.realizations.failed_realizations`; it must be the mask the values were computed with."""
    from .c03 import c03_5

    from .c03 import c03_2

    r = c03_5(ctx)
    r.instances = [i for i in r.instances if "failed_realizations" in i.construct or "flags" in i.construct]
    # ... and the gates that decide when a result is withheld (-> TOO_FEW_REALIZATIONS): C03.2
    r.instances += list(c03_2(ctx).instances)
    for i in r.instances:
        i.rule = "C14.9"
    r.rule, r.title, r.floor = "C14.9", "results are withheld exactly below the thresholds, and the failure flags reported with a result (read by the all-failed test of the optimizer) are the flags it was computed with", 3
    return r


# --------------------------------------------------------------------- C14.10
@rule(P)
def c14_10(ctx: Ctx) -> RuleResult:
    """The SVD-based solver raises (argmin of an empty sequence) on a system without rows.  Sibling agreement: the
    per-realization estimate calls it only where some perturbation succeeded; every other call site must be guarded
    by `any(<its row selector>)` as well - with realization_min_success = 0 all rows can be dropped."""
    from ..util import bool_nnf, context_chain, enclosing_ifs_ctx, path_condition
    from .c02 import _bool_selectors, solver
    from ..callgraph import positional_args

    res = RuleResult("C14.10", "DOM", "the least-squares solver is never handed an empty system: every call is guarded by any(<row selector>)")
    X = ctx.X
    s = solver(ctx)
    for f, c in ctx.cg.callers(s):
        sels = []
        for g_, t_ in context_chain(ctx, f, X.at(f, c)):
            mr = positional_args(s, t_)[:2]
            if len(mr) == 2 and mr[0] is not None and mr[0][0] == "sub":
                # the selector as every level of the (single) caller chain names it
                sels += [x for x in _bool_selectors(mr[0][2]) if x not in sels]
        st_ = c
        while parent(st_) is not None and not isinstance(st_, ast.stmt):
            st_ = parent(st_)
        # conditions at the call: in its own function and, through single call sites, in its callers
        lits = []
        cur_f, cur_n = f, st_
        for _ in range(4):
            for t_, pol in path_condition(ctx, cur_f, cur_n):
                g_ = bool_nnf(t_ if pol else ("unary", "not", t_))
                lits.extend(x for x in (g_[1] if g_[0] == "and" else [g_]) if x[0] == "lit")
            from ..util import unique_caller

            uc = unique_caller(ctx, cur_f)
            if uc is None:
                break
            cur_f, cn = uc
            cur_n = cn
            while parent(cur_n) is not None and not isinstance(cur_n, ast.stmt):
                cur_n = parent(cur_n)
        guarded = False
        for it in lits:
            a = norm(it[1])
            if it[2] and a[0] == "call" and a[1] in (("global", "numpy.any"), ("builtin", "any")) and a[2]:
                # any(<selector>) or any(<a conjunct of the selector>)
                arg = a[2][0]
                if not sels or any(norm(sel) == arg or contains(norm(sel), lambda y, arg=arg: y == arg) or contains(arg, lambda y, sel=sel: y == norm(sel)) for sel in sels):
                    guarded = True
            if it[2] and a[0] == "cmp" and a[1] in ("<", "!=") and C0 in (a[2], a[3]) and contains(a, lambda y: y[0] == "call" and y[1] in (("global", "numpy.count_nonzero"), ("global", "numpy.sum"))):
                guarded = True
            # the size of the assembled system itself: `vector.size == 0` / `len(matrix) == 0` excluded, `matrix.shape[0] > 0` ...
            raw = [x for x in positional_args(s, X.at(f, c))[:2] if x is not None]
            sizes = [norm(("attr", x, "size")) for x in raw] + [norm(("call", ("builtin", "len"), (x,), ())) for x in raw] + \
                    [norm(("sub", ("attr", x, "shape"), ("const", 0))) for x in raw]
            if a[0] == "cmp" and C0 in (a[2], a[3]):
                other_ = a[3] if a[2] == C0 else a[2]
                if other_ in sizes and ((a[1] == "==" and not it[2]) or (a[1] == "!=" and it[2]) or (a[1] == "<" and a[2] == C0 and it[2]) or (a[1] == "<=" and a[3] == C0 and not it[2])):
                    guarded = True
            if it[2] and a in sizes:
                guarded = True
        res.add(f, c, "the solver is called only where at least one row (successful perturbation of an active realization) is left", guarded,
                "" if guarded else "the system can be empty (all realizations failed with realization_min_success = 0, or all perturbations failed): the solver raises ValueError (argmin of an empty sequence) instead of the run ending with TOO_FEW_REALIZATIONS",
                construct=f"{f.name}: non-empty system")
    res.floor = 2
    return res


C0 = ("const", 0)


# --------------------------------------------------------------------- C14.11
@rule(P)
def c14_11(ctx: Ctx) -> RuleResult:
    """Shared with C13.4: delivering the results of a failing evaluation passes them through transform_from_optimizer;
    a family of differences that is absent in such a result must not be touched."""
    from .c13 import c13_4

    r = c13_4(ctx)
    r.instances = [i for i in r.instances if "differences present" in i.construct]
    for i in r.instances:
        i.rule = "C14.11"
    r.rule, r.title, r.floor = "C14.11", "back-transforming a result without some family of constraint differences (failing evaluation) raises nothing", 3
    return r


@rule(P)
def c14_12(ctx: Ctx) -> RuleResult:
    """Shared with C03.1: failure detection reads objective column 0 only, so a NaN anywhere in a
    realization's objectives or constraints has to be propagated to the whole row first."""
    from .c03 import c03_1

    r = c03_1(ctx)
    for i in r.instances:
        i.rule = "C14.12"
    r.rule, r.title = "C14.12", "too-few-realizations is decided on every failure: a NaN in any objective or constraint marks the realization as failed"
    return r


@rule(P)
def c14_13(ctx: Ctx) -> RuleResult:
    """Shared with C07.5: the ensemble-level function cache (consumed under an exact point test, stored whenever
    the functions-only path ran, cleared before a combined evaluation)."""
    from .c07 import c07_5

    r = c07_5(ctx)
    for i in r.instances:
        i.rule = "C14.13"
    r.rule, r.title = "C14.13", "function evaluations stay within the budget: a function result already computed for the current point is kept (also after tolerated failures) and never evaluated again"
    return r


@rule(P)
def c14_14(ctx: Ctx) -> RuleResult:
    """Shared with C15.5: a nested optimization without a result ends the step with a documented exit code."""
    from .c15 import c15_5

    r = c15_5(ctx)
    for i in r.instances:
        i.rule = "C14.14"
    r.rule, r.title = "C14.14", "a nested optimization that yields no result ends the step with NESTED_OPTIMIZER_FAILED / USER_ABORT, never with an internal exception"
    return r

