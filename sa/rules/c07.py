"""C07 - values handed to the optimizer match the ensemble for any request order.

  C07.1 DOM   every read of point-cache state in a callable handed to SciPy is
              dominated by the point validation
  C07.2 TABLE the invalidation is complete (every cache field, the normalised
              constraints, all three disjuncts, tight tolerances)
  C07.3 EFFECT stored key / function / gradient are fresh copies
  C07.4 ABS   request/evaluation protocol over all reachable abstract states
  C07.5 DOM   ensemble-level function cache is used only under its own point guard
"""

from __future__ import annotations

import ast

from ..absint import TOP, Arr, Bound, Hooks, Interp, ListRef, Obj, Pt, State, Sym, join
from ..cfg import cfg_of
from ..core import META, Ctx, RuleResult, rule
from ..dataflow import dataflow_of
from ..model import AnalysisError, Cls, Func, norm_stmt, parent
from ..paths import PathFinder, describe_path
from ..pattern import norm
from ..terms import Term, alts, attr_chain, contains, root_of, show, subterms
from ..util import bool_nnf, guard_leaves, nnf_literals, path_condition, calls_in, module_const, nodes_in

P = "C07"
OPT_BASE = "ropt.plugins.optimizer.base.Optimizer"
SEPARATION = 1e-3  # the quantifier's point separation: 1e-3 * (1 + |x|)

META[P] = {
    "explanation": (
        "The callables handed to scipy.optimize are found through callback edges of the call graph. Dominance of the point validation over every "
        "cache read is decided on their CFGs; completeness of the invalidation by a field table; and the request/evaluation protocol by abstractly "
        "interpreting the plug-in's own method bodies over {None, point, tagged array, config atom} and exhaustively enumerating every reachable "
        "abstract cache state under every request (callable x point) - all request orders, not the ones SciPy happens to produce."
    ),
    "not_decided": ["the numeric values themselves (C01-C03)", "which request orders SciPy actually produces (all are covered)"],
    "assumptions": ["requests are non-empty vectors / batches; two pool points are either identical or separated by more than 1e-3(1+|x|)"],
}


# ------------------------------------------------------------------ anchors
class Anchors:
    def __init__(self, ctx: Ctx) -> None:
        self.ctx = ctx
        found = []
        for c in ctx.repo.subclasses(OPT_BASE):
            start = c.methods.get("start")
            if start is None:
                continue
            cbs = []
            for call, cs, kind in ctx.cg.all_callees(start):
                if kind == "callback":
                    fn = ctx.X.at(start, call.func)
                    if fn[0] == "global" and fn[1].startswith("scipy.optimize."):
                        for g in cs:
                            if g not in cbs:
                                cbs.append(g)
            if cbs:
                found.append((c, start, cbs))
        if not found:
            raise AnalysisError("no Optimizer.start passing callables to scipy.optimize found")
        self.cls, self.start, self.entries = found[0]
        self.validator, self.val_if = self._find_validator()
        self.cache_fields = self._cache_fields()
        self.nc_field, self.nc_cls = self._nc()
        self.nc_reset = self._nc_reset()
        self.nc_fields = self._nc_fields()

    def _find_validator(self) -> tuple[Func, ast.If]:
        """The method comparing its variables parameter with a stored key and storing a new
        key (together with resets of cached state) when they differ.  Sets ``key_field`` and
        ``reset_region`` (the statement list holding the key store)."""
        best = None
        X = self.ctx.X
        for m in self.cls.methods.values():
            if not m.positional:
                continue
            selfname = m.positional[0]
            for n in nodes_in(m, ast.If):
                t = X.value_at(m, n.test)
                keys = []

                def is_key_cmp(s, m=m, keys=keys):
                    if s[0] == "call" and s[1][0] == "global" and s[1][1] in ("numpy.allclose", "numpy.array_equal", "numpy.array_equiv", "numpy.isclose", "numpy.equal"):
                        args = s[2]
                    elif s[0] == "cmp" and s[1] in ("==", "!="):
                        args = (s[2], s[3])
                    else:
                        return False
                    ks = [a for a in args if a[0] == "attr" and root_of(a)[0] == "param" and root_of(a)[2] == m.positional[0]]
                    if len(args) >= 2 and any(a[0] == "param" and a[2] != m.positional[0] for a in args) and ks:
                        keys.append(ks[0][2])
                        return True
                    return False

                if not contains(t, is_key_cmp):
                    continue
                # the store of the new key: self.<key> = ...
                for st in nodes_in(m, ast.Assign):
                    for tg in st.targets:
                        if isinstance(tg, ast.Attribute) and isinstance(tg.value, ast.Name) and tg.value.id == selfname and tg.attr in keys:
                            region = None
                            par = parent(st)
                            for fld in ("body", "orelse", "finalbody"):
                                lst = getattr(par, fld, None)
                                if isinstance(lst, list) and any(x is st for x in lst):
                                    region = lst
                            if region is not None:
                                best = (m, n, tg.attr, region, st)
        if best is None:
            raise AnalysisError("point validation (allclose against a stored key + resets) not found in the optimizer plug-in")
        self.key_field, self.reset_region, self.key_store = best[2], best[3], best[4]
        return best[0], best[1]

    def _cache_fields(self) -> set[str]:
        """Per-point state of the optimizer object: attributes that ``start``
        resets to None (the plug-in's own definition of per-run cache state)
        plus attributes assigned from evaluation results in the compute path."""
        out = set()
        selfname = self.start.positional[0]
        for n in nodes_in(self.start, ast.Assign):
            if isinstance(n.value, ast.Constant) and n.value.value is None:
                for t in n.targets:
                    if isinstance(t, ast.Attribute) and isinstance(t.value, ast.Name) and t.value.id == selfname:
                        out.add(t.attr)
        for m in self.cls.methods.values():
            if m.name in ("__init__", "start"):
                continue
            for n in nodes_in(m, ast.Assign):
                for t in n.targets:
                    if isinstance(t, ast.Attribute) and isinstance(t.value, ast.Name) and m.positional and t.value.id == m.positional[0]:
                        if not (isinstance(n.value, ast.Constant) and n.value.value is None):
                            if m is not None and self._reached_from_entries(m):
                                out.add(t.attr)
        if not out:
            raise AnalysisError("no per-point cache fields found")
        return out

    def _reached_from_entries(self, m: Func) -> bool:
        return m in self.ctx.cg.reachable(self.entries, include_nested_values=False)

    def _nc(self):
        """Field holding the normalised-constraints object and its class."""
        for name in sorted({t.attr for m in self.cls.methods.values() for n in nodes_in(m, ast.Assign) for t in n.targets if isinstance(t, ast.Attribute)}):
            for ty in self.ctx.cg.field_types(self.cls, name):
                if ty[0] == "cls" and ty[1] in self.ctx.repo.classes and ty[1].startswith("ropt.plugins.optimizer") and ty[1] != self.cls.qualname:
                    c = self.ctx.repo.classes[ty[1]]
                    if "reset" in c.methods:
                        return name, c
        return None, None

    def _nc_reset(self) -> Func | None:
        return self.nc_cls.methods.get("reset") if self.nc_cls is not None else None

    def _nc_fields(self) -> set[str]:
        """Fields of the normalised-constraints object written by its set_* methods."""
        out = set()
        if self.nc_cls is None:
            return out
        for m in self.nc_cls.methods.values():
            if m.name.startswith("set_"):
                for n in nodes_in(m, ast.Assign):
                    for t in n.targets:
                        if isinstance(t, ast.Attribute) and isinstance(t.value, ast.Name) and t.value.id == m.positional[0]:
                            out.add(t.attr)
        return out

    def nc_property_field(self, name: str) -> str | None:
        if self.nc_cls is None:
            return None
        m = self.nc_cls.methods.get(name)
        if m is not None and m.is_property:
            rt = self.ctx.X.return_term(m)
            if rt[0] == "attr" and rt[2] in self.nc_fields:
                return rt[2]
        if name in self.nc_fields:
            return name
        return None


def anchors(ctx: Ctx) -> Anchors:
    a = ctx.__dict__.get("_c07_anchors")
    if a is None:
        a = Anchors(ctx)
        ctx.__dict__["_c07_anchors"] = a
    return a


def cache_reads(ctx: Ctx, A: Anchors, f: Func) -> list[tuple[ast.AST, str]]:
    """Reads of per-point cache state in f: self.<cache field> and
    self.<nc>.<property of a set_* field>."""
    out = []
    if not f.positional and f.outer is None:
        return out
    for n in nodes_in(f, ast.Attribute):
        if not isinstance(n.ctx, ast.Load):
            continue
        t = ctx.X.at(f, n) if False else None
        # syntactic: <self>.<field> or <self>.<nc>.<prop>
        v = n.value
        if isinstance(v, ast.Name) and _is_self(ctx, f, v.id) and n.attr in A.cache_fields:
            # skip when this is the target of the comparison key read inside the validator test? no: still a read
            out.append((n, n.attr))
        elif (
            isinstance(v, ast.Attribute) and isinstance(v.value, ast.Name) and _is_self(ctx, f, v.value.id)
            and A.nc_field is not None and v.attr == A.nc_field and A.nc_property_field(n.attr) is not None
        ):
            out.append((n, f"{A.nc_field}.{n.attr}"))
        elif isinstance(v, ast.Name) and not _is_self(ctx, f, v.id) and A.nc_field is not None and A.nc_property_field(n.attr) is not None:
            # a local alias of the normalised-constraints object: `nc = self.<nc>; nc.<prop>`
            bt = ctx.X.at(f, v)

            def is_nc(t):
                while t[0] in ("mut", "setattr", "update"):
                    t = t[1]
                if t[0] == "phi":
                    return any(is_nc(a) for a in t[1])
                return t[0] == "attr" and t[2] == A.nc_field and t[1][0] == "param"

            if is_nc(bt):
                out.append((n, f"{A.nc_field}.{n.attr}"))
    return out


def _is_self(ctx: Ctx, f: Func, name: str) -> bool:
    g: Func | None = f
    while g is not None:
        if g.cls is not None and g.positional and g.positional[0] == name and g.outer is None:
            return True
        if g.positional and name in g.positional and g.outer is not None:
            return False
        g = g.outer
    return False


# --------------------------------------------------------------------- C07.1
def _reaches(ctx: Ctx, f: Func, target: Func, seen: set | None = None) -> bool:
    seen = seen or set()
    if f is target:
        return True
    if f.qualname in seen:
        return False
    seen.add(f.qualname)
    return any(_reaches(ctx, g, target, seen) for _c, cs, _k in ctx.cg.all_callees(f) for g in cs)


@rule(P)
def c07_1(ctx: Ctx) -> RuleResult:
    res = RuleResult("C07.1", "DOM", "the point validation dominates every read of per-point cache state in the callables handed to SciPy")
    A = anchors(ctx)
    V = A.validator
    todo, seen = list(A.entries), {}
    while todo:
        f = todo.pop()
        if f.qualname in seen:
            continue
        seen[f.qualname] = f
        if f is V:
            continue
        for _c, cs, _k in ctx.cg.all_callees(f):
            for g in cs:
                if (g.cls is A.cls or g.outer is not None) and g.name not in ("__init__",):
                    todo.append(g)
    n_reads = 0
    for f in sorted(seen.values(), key=lambda f: f.qualname):
        reads = cache_reads(ctx, A, f)
        if not reads:
            continue
        cfg = cfg_of(ctx.repo, f)
        pf = PathFinder(cfg, dataflow_of(ctx.repo, f))
        if f is V:
            vnodes = set(cfg.node_containing(A.val_if.test))
        else:
            vnodes = set()
            for call, cs, _k in ctx.cg.all_callees(f):
                if any(_reaches(ctx, g, V) for g in cs):
                    vnodes.update(cfg.node_containing(call))
        first_bad = None
        for n, what in sorted(reads, key=lambda p: (p[0].lineno, p[0].col_offset)):
            n_reads += 1
            nodes = cfg.node_containing(n)
            bad_path = None
            for cn in nodes:
                if cn in vnodes:
                    # the validation test itself reads the key; a read inside the
                    # validating call's own arguments is before the validation
                    if f is V:
                        continue
                path = pf.find_path(cfg.entry, lambda m, cn=cn: m is cn, blocked=lambda m: m in vnodes and m is not cn)
                if path is not None and not (f is V and cn in vnodes):
                    bad_path = path
            ok = bad_path is None
            if not ok and f not in A.entries and f is not V:
                # a private piece of the entry callables: the validation may have happened in every caller before the call
                if _validated_in_callers(ctx, A, seen, f, 0):
                    ok = True
            if ok or first_bad is None:
                res.add(
                    f, n, f"read of `{what}` is preceded on every path by the point validation ({V.name})", ok,
                    "" if ok else f"`{what}` is read before the point was compared with the cached key: whichever callable SciPy invokes first at a new point gets the previous point's value",
                    [] if ok else describe_path(f, bad_path),
                    construct=f"{f.name}: read of {what}" + ("" if ok else " (first unvalidated read)"),
                )
                if not ok:
                    first_bad = n
    res.notes.append(f"entry callables: {sorted(e.qualname.rsplit('.', 1)[-1] for e in A.entries)}; validator: {V.qualname}; cache fields: {sorted(A.cache_fields)} + {A.nc_field}.{sorted(A.nc_fields)}; {n_reads} reads")
    res.floor = 6
    return res


def _validated_in_callers(ctx: Ctx, A: Anchors, seen: dict, f: Func, depth: int) -> bool:
    """Every call of ``f`` from the callables handed to SciPy (and their private pieces) happens after the point
    validation: in the calling function the validating call precedes the call of ``f`` on every path, or the caller is
    itself a private piece whose every call is validated."""
    V = A.validator
    sites = [(g, c) for g, c in ctx.cg.callers(f) if g.qualname in seen and g is not f]
    if not sites or depth > 3:
        return False
    for g, c in sites:
        cfg = cfg_of(ctx.repo, g)
        pf = PathFinder(cfg, dataflow_of(ctx.repo, g))
        vnodes = set()
        for call, cs, _k in ctx.cg.all_callees(g):
            if any(_reaches(ctx, h, V) for h in cs):
                vnodes.update(cfg.node_containing(call))
        unvalidated = False
        for cn in cfg.node_containing(c):
            if cn in vnodes:
                continue
            if pf.find_path(cfg.entry, lambda m, cn=cn: m is cn, blocked=lambda m: m in vnodes) is not None:
                unvalidated = True
        if unvalidated:
            if g in A.entries or g is V or not _validated_in_callers(ctx, A, seen, g, depth + 1):
                return False
    return True


# --------------------------------------------------------------------- C07.2
@rule(P)
def c07_2(ctx: Ctx) -> RuleResult:
    res = RuleResult("C07.2", "TABLE", "the invalidation branch resets every cache field and the normalised constraints; its guard has all three disjuncts; tolerances are tight")
    A = anchors(ctx)
    V, node = A.validator, A.val_if
    selfname = V.positional[0]
    reset_fields = set()
    for s in A.reset_region:
        for x in ast.walk(s):
            if isinstance(x, ast.Assign):
                for t in x.targets:
                    if isinstance(t, ast.Attribute) and isinstance(t.value, ast.Name) and t.value.id == selfname:
                        reset_fields.add(t.attr)
    # the condition under which the new key is stored (and the caches reset): enclosing tests and
    # negated early exits, as one boolean formula in negation normal form
    pc = path_condition(ctx, V, A.key_store)
    guard = bool_nnf(("bool", "and", tuple(c if p else ("unary", "not", c) for c, p in pc))) if pc else ("lit", ("const", True), True)
    t = ("bool", "and", tuple(c for c, _p in pc)) if pc else ("const", True)
    key_fields = {s[2] for s in subterms(t) if s[0] == "attr" and s[1][0] == "param" and s[1][2] == selfname and s[2] in A.cache_fields}
    for fld in sorted(A.cache_fields):
        ok = fld in reset_fields
        res.add(V, node, f"cache field `{fld}` is reset when the point changes", ok,
                "" if ok else f"`{fld}` survives a change of point: a value computed for the previous point can be served for the new one",
                construct=f"invalidation resets {fld}")
    # normalised constraints
    if A.nc_field is not None:
        calls_reset = any(
            isinstance(x, ast.Call) and isinstance(x.func, ast.Attribute) and x.func.attr == "reset" and A.nc_field in ast.unparse(x.func.value)
            for s in A.reset_region for x in ast.walk(s)
        )
        res.add(V, node, "the normalised-constraint cache is reset when the point changes", calls_reset,
                "" if calls_reset else "normalised constraint values/Jacobians of the previous point survive", construct="invalidation resets normalised constraints")
        if A.nc_reset is not None:
            rs = set()
            for n in nodes_in(A.nc_reset, ast.Assign):
                if isinstance(n.value, ast.Constant) and n.value.value is None:
                    for tt in n.targets:
                        if isinstance(tt, ast.Attribute):
                            rs.add(tt.attr)
            for fld in sorted(A.nc_fields):
                ok = fld in rs
                res.add(A.nc_reset, A.nc_reset.node, f"reset() clears `{fld}`", ok, "" if ok else f"reset() leaves `{fld}` set", construct=f"nc.reset clears {fld}")
    # guard disjuncts: the formula must be a disjunction of literals
    lits = nnf_literals(guard) if guard[0] in ("or", "lit") else []
    is_or = guard[0] in ("or", "lit") and all(it[0] == "lit" for it in (guard[1] if guard[0] == "or" else [guard]))
    CMPS = ("numpy.allclose", "numpy.array_equal", "numpy.array_equiv")
    has_none = is_or and any(p and a[0] == "cmp" and a[1] == "is" and a[3] == ("const", None) and a[2][0] == "attr" for a, p in lits)
    has_shape = is_or and any((not p) and a[0] == "cmp" and a[1] == "==" and "shape" in show(a) for a, p in lits)
    cmp_calls = [s for a, _p in nnf_literals(guard) for s in subterms(a) if s[0] == "call" and s[1][0] == "global" and s[1][1] in CMPS]
    has_close = is_or and any((not p) and a in cmp_calls for a, p in lits)
    if not has_close and is_or:
        # element-wise spellings: `not (isclose(a, b)).all()` / `(a != b).any()`; every
        # element of the request (all rows of a batch) must take part: one `all` over
        # everything, never an `any` over rows of matches
        for a, p in lits:
            if (not p) and a[0] == "call" and a[1] == ("global", "numpy.all") and not a[3] and a[2] and a[2][0][0] in ("call", "cmp") and not contains(a[2][0], lambda s: s[0] == "call" and s[1] in (("global", "numpy.any"), ("global", "numpy.all"))):
                has_close = True
            if p and a[0] == "call" and a[1] == ("global", "numpy.any") and not a[3] and a[2] and a[2][0][0] == "cmp" and a[2][0][1] == "!=":
                has_close = True
    res.add(V, node, "guard disjunct: no key stored yet (`key is None`)", has_none, "" if has_none else "missing `is None` disjunct", construct="guard: key is None")
    res.add(V, node, "guard disjunct: shape of the request differs from the key's shape", has_shape,
            "" if has_shape else "a batch of another size would be compared by broadcasting (or raise)", construct="guard: shape differs")
    res.add(V, node, "guard disjunct: `not allclose(variables, key)` - the whole request (every row of a batch) equals the key", has_close,
            "" if has_close else "the value comparison does not require *all* elements of the request to match the key (e.g. `.all(axis=-1).any()`): a batch sharing one member with the cached batch is served the cached values of the other members",
            construct="guard: not allclose")
    for c in cmp_calls:
        tol_ok, why = _tolerances_ok(c)
        res.add(V, node, f"comparison tolerances stay below the point separation {SEPARATION:g}", tol_ok, why, construct="guard: tolerances")
    res.floor = 8
    return res


def _tolerances_ok(call: Term) -> tuple[bool, str]:
    if call[1][1] != "numpy.allclose":
        return True, ""
    vals = {"rtol": 1e-5, "atol": 1e-8}
    for i, name in ((2, "rtol"), (3, "atol")):
        if len(call[2]) > i and call[2][i][0] == "const":
            vals[name] = call[2][i][1]
    for k, v in call[3]:
        if k in vals:
            if v[0] != "const":
                return False, f"{k} is not a literal"
            vals[k] = v[1]
    for k, v in vals.items():
        if not isinstance(v, (int, float)) or v >= SEPARATION:
            return False, f"{k}={v} does not separate distinct pool points (needs < {SEPARATION:g})"
    return True, ""


# --------------------------------------------------------------------- C07.3
def _is_fresh(ctx: Ctx, t: Term, depth: int = 0) -> bool:
    if depth > 8:
        return False
    if t[0] == "phi":
        return all(_is_fresh(ctx, a, depth + 1) for a in t[1])
    if t[0] == "const":
        return True
    if t[0] == "call":
        fn = t[1]
        if fn[0] == "phi" and all(a[0] == "attr" and a[2] in ("copy", "flatten", "astype") for a in fn[1]):
            return True
        if fn[0] == "attr" and fn[2] in ("copy", "flatten", "astype", "tolist"):
            return True
        if fn[0] == "global" and fn[1] in ("numpy.array", "numpy.copy", "numpy.where", "numpy.concatenate", "numpy.vstack", "numpy.hstack", "numpy.append", "numpy.zeros", "numpy.empty", "numpy.nan_to_num"):
            if fn[1] == "numpy.array" and any(k == "copy" and v == ("const", False) for k, v in t[3]):
                return False
            return True
    if t[0] == "binop":
        return True
    return False


@rule(P)
def c07_3(ctx: Ctx) -> RuleResult:
    res = RuleResult("C07.3", "EFFECT", "the stored key and the stored function/gradient are fresh copies (SciPy reuses x in place)")
    A = anchors(ctx)
    n = 0
    for m in A.cls.methods.values():
        if m.name in ("__init__",):
            continue
        for a in nodes_in(m, ast.Assign):
            for tt in a.targets:
                if isinstance(tt, ast.Attribute) and isinstance(tt.value, ast.Name) and m.positional and tt.value.id == m.positional[0] and tt.attr in A.cache_fields:
                    if isinstance(a.value, ast.Constant):
                        continue
                    n += 1
                    vt = ctx.X.at(m, a.value)
                    ok = _is_fresh(ctx, vt)
                    res.add(m, a, f"value stored in `{tt.attr}` is a fresh array", ok,
                            "" if ok else f"`{show(vt, 80)}` aliases an array owned by the caller (SciPy mutates x in place; the cache key/values would change under it)",
                            construct=f"{m.name}: store {tt.attr}")
    res.floor = 3
    return res


# --------------------------------------------------------------------- C07.4
class ProtoHooks(Hooks):
    def __init__(self, ctx: Ctx, A: Anchors) -> None:
        self.ctx = ctx
        self.A = A
        self.failed_asserts: list = []

    def ndim(self, pt, st):
        return TOP

    def size(self, pt, st):
        return 1  # non-empty requests (precondition recorded in assumptions)

    def method_call(self, interp, f, self_obj, args, kwargs, st, depth):
        # methods with loops over unknown-length tables: summarise field stores
        if self.A.nc_cls is not None and f.cls is self.A.nc_cls and f.name.startswith("set_") and isinstance(self_obj, Obj):
            s2 = st.copy()
            cache = self.__dict__.setdefault("_stored_cache", {})
            stored = cache.get(f.qualname)
            if stored is None:
                stored = set()
                for n in nodes_in(f, ast.Assign):
                    for t in n.targets:
                        base = t
                        while isinstance(base, ast.Subscript):
                            base = base.value
                        if isinstance(base, ast.Attribute) and isinstance(base.value, ast.Name) and base.value.id == f.positional[0]:
                            stored.add(base.attr)
                cache[f.qualname] = stored
            for fld in stored:
                s2.heap.setdefault(self_obj.name, {})[fld] = join(*args, *kwargs.values())
            return [(s2, None)]
        return None

    def external_call(self, interp, text, args, kwargs, st, func, node):
        short = text.rsplit(".", 1)[-1]
        # the evaluation callback: a call that carries return_functions= / return_gradients= (the
        # OptimizerCallback protocol), whatever the field holding it is called
        if "return_functions" in kwargs and "return_gradients" in kwargs and not text.startswith(("numpy.", "scipy.")):
            rf, rg = kwargs.get("return_functions"), kwargs.get("return_gradients")
            outs = []
            for s1, bf in interp.truth(rf, st, "return_functions"):
                for s2, bg in interp.truth(rg, s1, "return_gradients"):
                    pt = args[0] if args and isinstance(args[0], Pt) else Pt("?")
                    s3 = s2.copy()
                    s3.events = s3.events + ((pt.name, bool(bf), bool(bg)),)
                    fv = Arr(frozenset([("F", pt.name)])) if bf else Arr(frozenset(["empty"]))
                    gv = Arr(frozenset([("G", pt.name)])) if bg else Arr(frozenset(["empty"]))
                    outs.append((s3, (fv, gv)))
            return outs
        if text in ("numpy.allclose", "numpy.array_equal", "numpy.array_equiv"):
            a, b = args[0], args[1]
            if isinstance(a, Pt) and isinstance(b, Pt):
                return [(st, a.name == b.name)]
            return [(st, TOP)]
        if text in ("numpy.isclose", "numpy.equal", "numpy.not_equal"):
            return [(st, TOP)]  # element-wise result: its reductions are not modelled
        if text == "numpy.array" and not args:
            return [(st, Arr(frozenset(["empty"])))]
        if text == "numpy.array" and args and isinstance(args[0], ListRef) and not st.lists.get(args[0].id):
            return [(st, Arr(frozenset(["empty"])))]
        if text in ("numpy.concatenate", "numpy.vstack", "numpy.hstack") and args and isinstance(args[0], ListRef):
            return [(st, join(*st.lists.get(args[0].id, ())))]
        if text.startswith("numpy.") or short in ("float", "int", "len", "isinstance", "abs"):
            vals = [a for a in list(args) + list(kwargs.values())]
            return [(st, join(*vals))]
        if text == "functools.partial":
            return [(st, TOP)]
        return [(st, join(*args, *kwargs.values()))]

    def assertion_failed(self, node, func, st):
        self.failed_asserts.append((func, node, st))


def callable_roles(ctx: Ctx, A: Anchors) -> list[tuple[Func, str]]:
    """Role of every entry callable: 'F' when it is handed over as fun/func
    (objective or constraint value), 'G' when handed over as jac."""
    roles: dict[str, set[str]] = {}
    fmap = {e.qualname: e for e in A.entries}

    def note(value: ast.AST, owner: Func, role: str) -> None:
        t = ctx.X.at(owner, value)
        for a in subterms(t):
            if a[0] not in ("attr", "func", "global"):
                continue
            for g in ctx.cg.resolve_fn(a, owner):
                if g.qualname in fmap and not g.is_property:
                    roles.setdefault(g.qualname, set()).add(role)

    methods = list(A.cls.methods.values())
    for m in list(methods):
        methods += list(m.nested.values())
    for m in methods:
        for n in nodes_in(m, ast.Assign):
            # entry["jac"] = ...
            for tg in n.targets:
                if isinstance(tg, ast.Subscript) and isinstance(tg.slice, ast.Constant):
                    if tg.slice.value in ("fun", "func"):
                        note(n.value, m, "F")
                    elif tg.slice.value == "jac":
                        note(n.value, m, "G")
        for n in nodes_in(m, (ast.Call, ast.Dict)):
            if isinstance(n, ast.Call):
                for kw in n.keywords:
                    if kw.arg in ("fun", "func"):
                        note(kw.value, m, "F")
                    elif kw.arg == "jac":
                        note(kw.value, m, "G")
            else:
                for k, v in zip(n.keys, n.values):
                    if isinstance(k, ast.Constant) and k.value in ("fun", "func"):
                        note(v, m, "F")
                    elif isinstance(k, ast.Constant) and k.value == "jac":
                        note(v, m, "G")
    out = []
    for e in A.entries:
        r = roles.get(e.qualname)
        if not r or len(r) != 1:
            raise AnalysisError(f"cannot determine the SciPy role (fun/jac) of callable {e.qualname}: {r}")
        out.append((e, next(iter(r))))
    return out


def _bad_tags(val, p: str, want: str | None) -> str | None:
    """None if val is an acceptable answer for a request at point p."""
    if val is None:
        return "None is returned"
    if isinstance(val, Pt):
        return None if val.name == p else "a value of another point"
    if not isinstance(val, Arr):
        return f"an undetermined value ({val!r})"
    for t in val.tags:
        if t == "empty":
            return "an empty placeholder (quantity was not computed)"
        if isinstance(t, tuple) and len(t) == 2 and t[1] != p:
            return f"a value computed for point `{t[1]}` (stale cache)"
    if want is not None and not any(isinstance(t, tuple) and t[0] == want for t in val.tags):
        return f"no {('function' if want == 'F' else 'gradient')} value of this point"
    return None


@rule(P)
def c07_4(ctx: Ctx) -> RuleResult:
    res = RuleResult("C07.4", "ABS", "request/evaluation protocol over all reachable abstract cache states and all requests")
    A = anchors(ctx)
    hooks = ProtoHooks(ctx, A)
    interp = Interp(ctx.repo, hooks)
    # the gradient-free set: the set S with `jac=False if method in S`
    nograd_q = None
    for call in calls_in(A.start):
        for kw in call.keywords:
            if kw.arg == "jac" and isinstance(kw.value, ast.IfExp):
                t = ctx.X.value_at(A.start, kw.value.test)
                for s in subterms(t):
                    if s[0] == "cmp" and s[1] in ("in", "not in") and s[3][0] == "global":
                        nograd_q = s[3][1]
    if nograd_q is None:
        raise AnalysisError("cannot identify the gradient-free method set from the `jac=` argument of minimize")
    reqs = [(e, kind) for e, kind in callable_roles(ctx, A)]
    self_obj = Obj("self", A.cls.qualname)

    def initial_states():
        base = {f: None for f in A.cache_fields}
        outs = []
        if A.nc_field is not None:
            h1 = {"self": dict(base) | {A.nc_field: Obj("nc", A.nc_cls.qualname)}, "nc": {f: None for f in A.nc_fields}}
            outs.append(State(h1, {}))
            h2 = {"self": dict(base) | {A.nc_field: None}}
            outs.append(State(h2, {}))
        else:
            outs.append(State({"self": dict(base)}, {}))
        return outs

    nograd_atom = f"self._method in {nograd_q}"
    persistent = (nograd_q, "speculative", "split_evaluations")
    evaluator_combines = _evaluator_combines(ctx)
    seen: dict = {}
    work = []
    for s0 in initial_states():
        for ng0 in (True, False):
            s1 = s0.copy()
            s1.atoms[nograd_atom] = ng0
            seen[s1.key()] = s1
            work.append(s1)
    n_trans = 0
    violations: dict[str, tuple] = {}
    samples = []

    def nograd_of(st: State):
        for k, v in st.atoms.items():
            if k.endswith(f" in {nograd_q}"):
                return v
        return None

    def flag_of(st: State, suffix: str):
        for k, v in st.atoms.items():
            if k.endswith(suffix):
                return v
        return None

    while work:
        st = work.pop()
        for e, kind in reqs:
            uses_nc = e.cls is A.cls and e.outer is None and any(a in ("index",) for a in e.params)
            if e.outer is not None and not uses_nc:
                # a closure that only forwards to such a method (`def fun(x): return self._fun(x, index, lin_coef)`)
                nc_names = {m_.name for m_ in A.cls.methods.values() if "index" in m_.params}
                uses_nc = any(isinstance(x_, ast.Call) and isinstance(x_.func, ast.Attribute) and x_.func.attr in nc_names for x_ in ast.walk(e.node))
            if uses_nc and (A.nc_field is None or st.heap["self"].get(A.nc_field) is None):
                continue
            if kind == "G" and st.atoms.get(nograd_atom) is True:
                continue  # SciPy is not given / does not call gradient callables for gradient-free methods
            for p in ("x", "y"):
                s_in = st.copy()
                s_in.events = ()
                args = [self_obj, Pt(p)] if e.outer is None else [Pt(p)]
                kwargs = {}
                for extra in e.params[len(args):]:
                    kwargs[extra] = Sym(f"arg.{extra}") if extra != "index" else TOP
                if e.outer is not None:
                    # closures read `self` from the enclosing method
                    env_fix = {}
                    o_ = e.outer
                    while o_ is not None:
                        if o_.outer is None:
                            if o_.positional:
                                env_fix[o_.positional[0]] = self_obj
                            for extra in o_.positional[1:]:
                                env_fix.setdefault(extra, Sym(f"arg.{extra}") if extra != "index" else TOP)
                        else:
                            # parameters of intermediate closures factories (`_constraint_entry(type_, index)`)
                            for extra in o_.params:
                                env_fix.setdefault(extra, Sym(f"arg.{extra}") if extra != "index" else TOP)
                        o_ = o_.outer
                else:
                    env_fix = {}
                try:
                    outs = _call_with_env(interp, e, args, kwargs, env_fix, s_in)
                except AnalysisError:
                    raise
                for s_out, val in outs:
                    n_trans += 1
                    ng = nograd_of(s_out)
                    split = flag_of(s_out, "split_evaluations")
                    pre_key = st.heap["self"]
                    ctxt = f"{e.name}({p}) with atoms {{{', '.join(f'{k.split('.')[-1]}={v}' for k, v in sorted(s_out.atoms.items()))}}}"
                    if len(samples) < 6:
                        samples.append(f"{ctxt} -> events {list(s_out.events)}")
                    # (a) gradient evaluations for gradient-free methods
                    if ng is True and any(ev[2] for ev in s_out.events):
                        violations.setdefault("a", (e, "a gradient-free method causes a gradient evaluation (return_gradients=True)", ctxt, s_out.events))
                    # (b) split evaluations
                    if split is True and any(ev[1] and ev[2] for ev in s_out.events):
                        violations.setdefault("b", (e, "with split_evaluations one evaluation computes both functions and gradients", ctxt, s_out.events))
                    # (c) re-evaluation of a cached quantity
                    had_f = _valid_for(st, A, p, "F")
                    had_g = _valid_for(st, A, p, "G")
                    got_f, got_g = had_f, had_g
                    for (q, rf, rg) in s_out.events:
                        if q != p:
                            violations.setdefault("c", (e, f"an evaluation is requested at point `{q}` for a request at `{p}`", ctxt, s_out.events))
                        if rf and got_f:
                            violations.setdefault("c", (e, "functions already known for this point are evaluated again", ctxt, s_out.events))
                        if rg and got_g:
                            violations.setdefault("c", (e, "gradients already known for this point are evaluated again", ctxt, s_out.events))
                        # (e) split evaluations: the ensemble evaluator computes the functions in the *same* evaluation when it is
                        # asked for a gradient at a point it has no functions for (premise checked below): a gradient-only request
                        # must therefore follow a function evaluation at this point
                        # (a run in which the flag was never read behaves the same for both of its values: it stands for split=True too)
                        if split is not False and evaluator_combines and rg and not rf and not got_f:
                            violations.setdefault("e", (e, "with split_evaluations a gradient is requested at a point whose functions were never evaluated: the ensemble "
                                                        "evaluator then computes functions and gradients in one evaluation (one batch with unperturbed and perturbed rows)",
                                                        ctxt, s_out.events))
                        got_f, got_g = got_f or rf, got_g or rg
                    # (d) the answer is the value at this point
                    bad = _bad_tags(val, p, kind if not uses_nc else None)
                    if bad is not None:
                        violations.setdefault("d", (e, f"the value returned for a request at `{p}` is {bad}", ctxt, s_out.events))
                    s_next = s_out.copy()
                    s_next.events = ()
                    s_next.lists = {}
                    # only the three configuration atoms persist between requests
                    s_next.atoms = {k: v for k, v in s_next.atoms.items() if any(x in k for x in persistent)}
                    k = s_next.key()
                    if k not in seen:
                        seen[k] = s_next
                        work.append(s_next)
        if len(seen) > 20000:
            raise AnalysisError("abstract state space larger than expected")
    labels = {
        "a": "a method that does not use gradients never causes gradient evaluations",
        "b": "with split_evaluations no single evaluation computes both functions and gradients",
        "c": "a quantity already computed for the current point is never evaluated again, and evaluations happen at the requested point",
        "d": "every returned value is the value at the requested point (never None, a placeholder, or a stale value)",
        "e": "with split_evaluations a gradient is only requested at a point whose functions have been evaluated (separately)",
    }
    if not evaluator_combines:
        labels.pop("e")
        res.notes.append("clause (e) not armed: EnsembleEvaluator.calculate has no combined computation for a gradient-only request")
    for k, text in labels.items():
        if k in violations:
            e, why, ctxt, events = violations[k]
            res.add(e, e.node, text, False, why, [f"scenario: {ctxt}", f"optimizer-callback invocations (point, functions, gradients): {list(events)}"],
                    construct=f"protocol ({k})")
        else:
            res.add(A.validator, A.validator.node, text, True, construct=f"protocol ({k})")
    for func, node, st in hooks.failed_asserts[:1]:
        res.add(func, node, "no assertion of the plug-in fails on a reachable abstract state", False,
                f"`{norm_stmt(node)}` fails (AssertionError instead of a value)", construct="protocol (assert)")
    res.exhaustive = True
    res.notes.append(f"{len(seen)} reachable abstract states, {n_trans} transitions, {len(reqs)} callables x 2 points; samples: {samples[:3]}")
    res.floor = 4
    return res


def _evaluator_combines(ctx: Ctx) -> bool:
    """Premise of clause (e): `EnsembleEvaluator.calculate` answers a gradient-only request for which it holds no cached
    function values by a computation other than the cached-gradient one - i.e. there is a computation that is reached
    without `compute_functions` being true and without the cache test having succeeded."""
    from ..util import bool_nnf, path_condition, stmt_of

    calc = ctx.repo.funcs.get("ropt.ensemble_evaluator._ensemble_evaluator.EnsembleEvaluator.calculate")
    if calc is None:
        raise AnalysisError("EnsembleEvaluator.calculate not found")
    sites = []
    for call, cs, _k in ctx.cg.all_callees(calc):
        if not any(g.cls is calc.cls for g in cs):
            continue
        st = stmt_of(call)
        if not isinstance(st, ast.Return):
            continue
        pc = path_condition(ctx, calc, st)
        lits = []
        if pc:
            g_ = bool_nnf(("bool", "and", tuple(c_ if p_ else ("unary", "not", c_) for c_, p_ in pc)))
            lits = [(it[1], it[2]) for it in (g_[1] if g_[0] == "and" else [g_]) if it[0] == "lit"]
        needs_functions = any(a == ("param", calc.qualname, "compute_functions") and pol for a, pol in lits)
        cache_hit = any(pol is False and a[0] == "cmp" and a[1] == "is" and a[3] == ("const", None) and a[2][0] == "attr" for a, pol in lits)
        sites.append((needs_functions, cache_hit))
    if not sites:
        raise AnalysisError("EnsembleEvaluator.calculate: no computation sites found")
    return any(not nf and not ch for nf, ch in sites)


def _valid_for(st: State, A: Anchors, p: str, kind: str) -> bool:
    """Does the pre-state hold a valid value of `kind` for point p?"""
    h = st.heap["self"]
    key = None
    for f, v in h.items():
        if isinstance(v, Pt):
            key = v.name
    if key != p:
        return False
    for f, v in h.items():
        if isinstance(v, Arr) and any(isinstance(t, tuple) and t == (kind, p) for t in v.tags):
            return True
    return False


def _call_with_env(interp: Interp, f: Func, args, kwargs, env_fix: dict, st: State):
    if not env_fix:
        return interp.call_func(f, args, kwargs, st, 0)
    # closure: bind parameters, then add the enclosing self
    a = f.node.args
    pos = [x.arg for x in a.posonlyargs + a.args]
    env = dict(env_fix)
    for pname, v in zip(pos, args):
        env[pname] = v
    env.update(kwargs)
    outs = []
    for s, flow, val, _env in interp.exec_block(f.body, env, st, f, 0):
        outs.append((s, val if flow == "return" else None))
    return outs


# --------------------------------------------------------------------- C07.5
@rule(P)
def c07_5(ctx: Ctx) -> RuleResult:
    res = RuleResult("C07.5", "DOM", "the ensemble-level function cache is consumed only under its own point guard and written only by the functions-only path")
    ee = ctx.repo.cls("ropt.ensemble_evaluator._ensemble_evaluator.EnsembleEvaluator")
    init = ee.methods.get("__init__")
    if init is None:
        raise AnalysisError("EnsembleEvaluator.__init__ not found")
    # mutable per-instance state: fields initialised to None in __init__ and written elsewhere
    none_init = set()
    for n in nodes_in(init, (ast.Assign, ast.AnnAssign)):
        val = n.value
        targets = n.targets if isinstance(n, ast.Assign) else [n.target]
        if isinstance(val, ast.Constant) and val.value is None:
            for t in targets:
                if isinstance(t, ast.Attribute):
                    none_init.add(t.attr)
    state_fields = set()
    writers: dict[str, list] = {}
    for m in ee.methods.values():
        for n in nodes_in(m, (ast.Assign, ast.AnnAssign, ast.AugAssign)):
            targets = n.targets if isinstance(n, ast.Assign) else [n.target]
            for t in targets:
                if isinstance(t, ast.Attribute) and isinstance(t.value, ast.Name) and m.positional and t.value.id == m.positional[0]:
                    writers.setdefault(t.attr, []).append((m, n))
                    if m is not init:
                        state_fields.add(t.attr)
    if not state_fields:
        raise AnalysisError("EnsembleEvaluator has no cross-call state (anchor vanished)")
    calc = ee.methods["calculate"]
    for fld in sorted(state_fields):
        # readers other than the guard itself
        for m in ee.methods.values():
            reads = [n for n in nodes_in(m, ast.Attribute) if n.attr == fld and isinstance(n.ctx, ast.Load) and isinstance(n.value, ast.Name)]
            if not reads or m is calc or m is init:
                continue
            if ctx.X.inlinable(m) and not any(isinstance(x, (ast.Assign, ast.AugAssign)) and any(isinstance(t_, ast.Attribute) for t_ in (x.targets if isinstance(x, ast.Assign) else [x.target])) for x in ast.walk(m.node)):
                # a transparent helper (e.g. the point test itself): its reads are seen at its call sites
                rt_ = ctx.X.guarded_return(m)
                if all(leaf[0] == "const" or leaf[0] == "call" and leaf[1] in (("builtin", "bool"), ("global", "numpy.allclose"), ("global", "numpy.array_equal")) for _c, leaf in guard_leaves(rt_, strip_wrappers=False)):
                    continue
            if any(w is m for w, _n in writers.get(fld, [])) and not _reads_before_write(ctx, m, fld):
                continue
            # every call site of m must be guarded
            for caller, call in ctx.cg.callers(m):
                ok, why = _guarded_by_point_check(ctx, caller, call, fld)
                res.add(caller, call, f"`{m.name}` (which trusts `{fld}`) is called only where `{fld}` was checked to belong to the current point", ok, why,
                        construct=f"{caller.name}: call {m.name} guarded by point check on {fld}")
        # who writes
        for m, n in writers.get(fld, []):
            val = getattr(n, "value", None)
            is_none = isinstance(val, ast.Constant) and val.value is None
            if m is init:
                ok = is_none
                why = "" if ok else "cache is not empty after construction"
            elif is_none:
                ok, why = True, ""
            else:
                # a non-None write: must be the result computed in this call for this call's variables
                vt = ctx.X.at(m, val)
                own = any(s[0] == "call" and s[1][0] == "attr" and any(g.cls is ee for g in ctx.cg.resolve_fn(s[1], m)) for s in ctx.X.closure(vt)) or contains(vt, lambda s: s[0] == "comp")
                gradient_path = any(isinstance(c.func, ast.Attribute) and c.func.attr in ("_perturb_variables",) for c in calls_in(m)) or any(
                    "perturb" in ast.unparse(c.func) for c in calls_in(m))
                ok = own and not gradient_path
                why = "" if ok else f"`{fld}` is written on a path that also evaluates perturbations, or from a value not computed in this call"
                if ok:
                    # ... and whenever that path ran: a result with some failed realizations is still the result of this point
                    from .common import conds_at

                    gate = [a for a in conds_at(ctx, m, n) if contains(a, lambda s_: s_[0] == "attr" and "failed" in s_[2])]
                    alts_ = [a for a in (vt[1] if vt[0] == "phi" else [vt])]
                    if vt[0] == "ifexp":
                        gate += [vt[1]] if contains(vt[1], lambda s_: s_[0] == "attr" and "failed" in s_[2]) else []
                    if gate:
                        ok = False
                        why = (f"`{fld}` is stored only when `{show(gate[0], 60)}` says no realization failed: after a partially failed (but sufficient) function evaluation a gradient "
                               "request at the same point evaluates the functions again (one combined evaluation, extra function evaluations that are not counted)")
            res.add(m, n, f"`{fld}` is written only with None or with the function result just computed by the functions-only path", ok, why,
                    construct=f"{m.name}: write {fld}")
        # the combined path clears the cache before evaluating both
        cfg = cfg_of(ctx.repo, calc)
        clears = set()
        for m, n in writers.get(fld, []):
            if m is calc and isinstance(getattr(n, "value", None), ast.Constant) and n.value.value is None:
                clears.update(cfg.node_containing(n))
        for callee in ee.methods.values():
            if callee is calc:
                continue
            evaluates_both = any("function_and_gradient" in ast.unparse(c.func) for c in calls_in(callee))
            if not evaluates_both:
                continue
            for call in calls_in(calc):
                if callee in ctx.cg.callees_of_call(calc, call):
                    ok = all(any(cfg.dominates(c, n) for c in clears) for n in cfg.node_containing(call)) and bool(clears)
                    res.add(calc, call, f"`{fld}` is cleared before the combined function+gradient evaluation", ok,
                            "" if ok else "a stale function result can survive a combined evaluation at another point", construct=f"calculate: clear {fld} before {callee.name}")
    res.floor = 4
    return res


def _reads_before_write(ctx: Ctx, m: Func, fld: str) -> bool:
    return True


def _guarded_by_point_check(ctx: Ctx, caller: Func, call: ast.Call, fld: str) -> tuple[bool, str]:
    """The call executes only where `<fld> is not None` and `allclose(<fld>...variables, <requested variables>)`
    hold: both must be conjuncts of the condition under which the call is reached (enclosing tests,
    negated early exits; helpers seen through)."""
    stmt = call
    while parent(stmt) is not None and not isinstance(stmt, ast.stmt):
        stmt = parent(stmt)
    pc = path_condition(ctx, caller, stmt)
    # a conditional expression around the call itself
    cur, child = parent(call), call
    while cur is not None and cur is not stmt:
        if isinstance(cur, ast.IfExp) and child is not cur.test:
            pc.append((ctx.X.value_at(caller, cur.test), child is cur.body))
        child, cur = cur, parent(cur)
    if not pc:
        return False, "call is not guarded by a comparison of the cached point with the requested point: gradients would be combined with function values of another point"
    guard = bool_nnf(("bool", "and", tuple(c if p else ("unary", "not", c) for c, p in pc)))
    conj = [it for it in (guard[1] if guard[0] == "and" else [guard]) if it[0] == "lit"]
    lits = [(it[1], it[2]) for it in conj]
    not_none = any((not p) and a[0] == "cmp" and a[1] == "is" and a[3] == ("const", None) and a[2][0] == "attr" and a[2][2] == fld for a, p in lits)
    cmp = [a for a, p in lits if p and a[0] == "call" and a[1][0] == "global" and a[1][1] in ("numpy.allclose", "numpy.array_equal")]
    good_cmp = None
    for c in cmp:
        a_fld = any(contains(a, lambda s: s[0] == "attr" and s[2] == fld) and contains(a, lambda s: s[0] == "attr" and s[2] == "variables") for a in c[2])
        a_var = any(a[0] == "param" for a in c[2])
        if a_fld and a_var:
            good_cmp = c
    if good_cmp is not None and not_none:
        ok_, why_ = _tolerances_ok(good_cmp)
        if ok_ and good_cmp[1][1] == "numpy.allclose":
            # the cached functions are differenced against perturbed values (perturbation sizes are configurable and
            # may be tiny): the cached point has to be *the* requested point, up to representation only
            vals = {"rtol": 1e-5, "atol": 1e-8}
            for i, name in ((2, "rtol"), (3, "atol")):
                if len(good_cmp[2]) > i and good_cmp[2][i][0] == "const":
                    vals[name] = good_cmp[2][i][1]
            for k, v in good_cmp[3]:
                if k in vals and v[0] == "const":
                    vals[k] = v[1]
            if vals["rtol"] != 0 or vals["atol"] > 1e-12:
                return False, (f"the cached function result is reused for any point within rtol={vals['rtol']:g}, atol={vals['atol']:g} of the cached one: a gradient requested at a "
                               "nearby but different point differences the perturbed values against function values of another point (error ~ slope * distance / perturbation size)")
        return ok_, why_
    if not_none or cmp or any(contains(a, lambda s: s[0] == "attr" and s[2] == fld) for a, _p in nnf_literals(guard)):
        return False, f"the guard does not compare `{fld}.evaluations.variables` with the requested variables"
    return False, "call is not guarded by a comparison of the cached point with the requested point: gradients would be combined with function values of another point"




@rule(P)
def c07_6(ctx: Ctx) -> RuleResult:
    """Shared with C03.5: the combined (speculative) evaluation and the split one compute a gradient with the
    same failure flags and weights, so the value for x does not depend on which request came first."""
    from .c03 import c03_5

    r = c03_5(ctx)
    for i in r.instances:
        i.rule = "C07.6"
    r.rule, r.title = "C07.6", "combined and separate function/gradient evaluations use the same failure flags and weights for the gradient"
    return r
