"""C01 - ensemble function values are the normalised weighted estimate over realizations.

  C01.1 FLOW weight source: weights reaching the estimator derive only from the
             configured realization weights or a filter's result
  C01.2 FLOW failed realizations zeroed, remaining weights divided by their own sum
  C01.3 COH  estimator / function / weights-row / result index coherence; filter rows
  C01.4 TERM weighted objective = sum(objective weights * objectives); all-failed -> NaN
  C01.5 TERM estimator definitions (mean, stddev with Bessel factor over positive weights)
  C01.6 COH  reported weights and failure flags are the ones used
"""

from __future__ import annotations

import ast

from ..core import META, Ctx, RuleResult, rule
from ..model import AnalysisError, Func, norm_stmt, parent
from ..pattern import C, G, V, add, call, div, match, mul, neg, norm
from ..prov import content_sources
from ..terms import Term, alts, contains, ends_with_attrs, root_of, show, subterms
from ..util import calls_in, deep_subterms, guard_leaves, nodes_in
from .common import EST, FILT, check_weights_pipeline, dispatch_table, estimator_sinks, none_contradictions, weights_arg

P = "C01"

META[P] = {
    "explanation": (
        "The data path from the evaluator's arrays to Functions is decided structurally: content provenance of the weights argument of every call that "
        "resolves to FunctionEstimator.calculate_function (through four call levels, including the initial fill of the per-function weight matrices), "
        "the zero-failed / renormalise pipeline as a normalised term, index coherence of the per-function loop, and the estimator and weighted-objective "
        "formulas as reference terms."
    ),
    "not_decided": ["equality 'up to rounding'", "nan_to_num subtleties for infinite evaluator outputs"],
}


# --------------------------------------------------------------------- C01.1/2
def _check_sources(ctx: Ctx, res: RuleResult, f: Func, callnode: ast.Call, inner: Term, what: str) -> None:
    srcs = content_sources(ctx, f, inner, stop_methods={"get_realization_weights"})
    bad = []
    n_ok = 0
    for s in srcs:
        if s.kind == "attr" and ends_with_attrs(s.term, "realizations", "weights"):
            n_ok += 1
        elif s.kind == "call:get_realization_weights":
            n_ok += 1
        elif s.kind == "attr" and (ends_with_attrs(s.term, "realizations", "objective_weights") or ends_with_attrs(s.term, "realizations", "constraint_weights")):
            # the weight matrices *reported* with the cached function result of the
            # same point (split evaluations): their own provenance is decided at the
            # function sink (C01.1) and "reported == used" by C01.6
            n_ok += 1
        elif s.kind in ("bool",):
            continue
        else:
            bad.append(s)
    if not bad:
        res.add(f, callnode, f"{what}: weights derive only from config.realizations.weights or RealizationFilter.get_realization_weights ({n_ok} sources)", True,
                construct=f"{f.name}: weight sources of {norm_stmt(callnode)[:50]}")
        return
    for s in bad:
        trail = " <- ".join(f"{q.rsplit('.', 1)[-1]}:{ln}" for q, ln in s.trail) or s.func.name
        res.add(
            f, callnode,
            f"{what}: weights derive only from the configured realization weights or the mapped filter's weights", False,
            f"`{show(s.term, 80)}` ({s.kind}, in {s.func.qualname.rsplit('.', 1)[-1]}) can reach the estimator as a realization weight: "
            "functions that are not mapped to a filter are weighted by it instead of the configured weights",
            [f"flow: {trail}"],
            construct=f"{f.name}: weight source {show(s.term, 60)} in {s.func.name}",
        )


@rule(P)
def c01_1(ctx: Ctx) -> RuleResult:
    res = RuleResult("C01.1", "FLOW", "weights in force: only configured weights or the mapped filter's weights reach calculate_function")
    for f, c in estimator_sinks(ctx, "calculate_function"):
        wt = weights_arg(ctx, f, c, 1)
        ok, why, inner = check_weights_pipeline(ctx, f, wt)
        from .common import pipeline_frame

        f_src, wt_src = pipeline_frame(ctx, f, wt)
        if inner is None:
            inner = wt_src
        _check_sources(ctx, res, f_src, c, inner, "function values")
    return res


@rule(P)
def c01_2(ctx: Ctx) -> RuleResult:
    res = RuleResult("C01.2", "FLOW", "failed realizations get zero weight and the remaining weights are renormalised to sum one")
    for f, c in estimator_sinks(ctx, "calculate_function"):
        wt = weights_arg(ctx, f, c, 1)
        ok, why, _inner = check_weights_pipeline(ctx, f, wt)
        res.add(f, c, "weights == W / W.sum() with W = where(failed_realizations, 0, weights in force)", ok, why,
                construct=f"{f.name}: weights pipeline of {norm_stmt(c)[:50]}")
    return res


# --------------------------------------------------------------------- C01.3
def _loop_index_info(ctx: Ctx, f: Func, idx: Term, stmt: ast.AST | None = None):
    """The function index ranges over the positions where `MAP == K` holds, K a position of the estimator list:
    -> (MAP, K) or None.  Spellings: `for i in np.where(MAP == k)[0]` / flatnonzero, or
    `for i, selected in enumerate(MAP == k)` under `if selected`."""
    n = idx
    mask = None
    if n[0] == "iter":
        src = n[1]
        # np.where(mask)[0]  /  np.flatnonzero(mask)
        if src[0] == "sub" and src[2] == ("const", 0) and src[1][0] == "call" and src[1][1] in (("global", "numpy.where"), ("global", "numpy.nonzero")) and len(src[1][2]) == 1:
            mask = src[1][2][0]
        elif src[0] == "call" and src[1] == ("global", "numpy.flatnonzero") and src[2]:
            mask = src[2][0]
    elif n[0] == "enumidx" and stmt is not None:
        # positions of an enumerated mask, the element tested in the path condition
        from ..util import bool_nnf, path_condition

        elem = ("iter", n[1], n[2])
        for t_, pol in path_condition(ctx, f, stmt):
            g_ = bool_nnf(t_ if pol else ("unary", "not", t_))
            for it in (g_[1] if g_[0] == "and" else [g_]):
                if it[0] == "lit" and it[2] and it[1] == elem:
                    mask = n[1]
    if mask is None:
        return None
    for s in subterms(mask) if mask[0] != "cmp" else [mask]:
        if s[0] == "cmp" and s[1] == "==":
            for a, b in ((s[2], s[3]), (s[3], s[2])):
                if b[0] == "enumidx" or (b[0] == "iter" and b[1][0] == "call" and b[1][1] == ("builtin", "range")):
                    return a, b
    return None


def _element_at(recv: Term, k: Term):
    """recv is element `k` of a list L: `for k, e in enumerate(L)` (recv = each(L), k = index(L)) or `L[k]` -> L"""
    if recv[0] == "iter" and k[0] == "enumidx" and recv[1] == k[1] and recv[2] == k[2]:
        return recv[1]
    if recv[0] == "sub" and recv[2] == k:
        # k ranges over range(len(L))
        if k[0] == "iter" and k[1][0] == "call" and k[1][1] == ("builtin", "range") and len(k[1][2]) == 1 and k[1][2][0] == ("call", ("builtin", "len"), (recv[1],), ()):
            return recv[1]
    return None


def _conds_at(ctx: Ctx, f: Func, node: ast.AST) -> dict:
    """{atom: polarity} known to hold where `node` is evaluated (enclosing ifs / conditional expressions and the
    path condition of its statement); `a and b` known true contributes both atoms."""
    from ..util import _enclosing_conds, _pc_literals, norm_cond, stmt_of

    st = stmt_of(node)
    items = list(_enclosing_conds(ctx, f, node)) + (list(_pc_literals(ctx, f, st)) if st is not None else [])
    out: dict = {}
    for a, p in items:
        if a[0] == "bool" and a[1] == "and" and p:
            for x in a[2]:
                a2, p2 = norm_cond(x)
                out.setdefault(a2, p2)
        elif a[0] == "bool" and a[1] == "or" and not p:
            for x in a[2]:
                a2, p2 = norm_cond(x)
                out.setdefault(a2, not p2)
        else:
            out.setdefault(a, p)
    return out


def _weights_selection(ctx: Ctx, res: RuleResult, f: Func, c: ast.Call, rows: list) -> None:
    """Contradiction rule: a row of the per-function weight matrix is never read where the matrix is known to be
    absent, and the configured weights are never chosen where the matrix is known to be present."""
    X = ctx.X
    mats = {s[1] for s in rows}
    for m in mats:
        isnone = ("cmp", "is", m, ("const", None))
        n_sites = 0
        for node in ast.walk(f.node):
            if isinstance(node, ast.Subscript) and isinstance(node.value, ast.Name) and isinstance(node.ctx, ast.Load) and X.at(f, node.value) == m:
                n_sites += 1
                known = _conds_at(ctx, f, node).get(isnone)
                ok = known is not True
                res.add(f, node, "a row of the per-function weight matrix is read only where the matrix is present", ok,
                        "" if ok else f"`{norm_stmt(node)}` is evaluated where `{show(m, 40)} is None` holds: the filter's weights are ignored (and the absent matrix is subscripted)",
                        construct=f"{f.name}: weights selection (matrix row)")
            elif isinstance(node, ast.Attribute) and node.attr == "weights" and isinstance(node.ctx, ast.Load):
                t = X.at(f, node)
                if ends_with_attrs(t, "realizations", "weights"):
                    n_sites += 1
                    known = _conds_at(ctx, f, node).get(isnone)
                    ok = known is not False
                    res.add(f, node, "the configured realization weights are chosen only where no per-function matrix is present", ok,
                            "" if ok else f"`{norm_stmt(node)}` is chosen where `{show(m, 40)}` is present: functions mapped to a filter are weighted by the configured weights instead of the filter's",
                            construct=f"{f.name}: weights selection (configured)")


def _default_map(ctx: Ctx, res: RuleResult, f: Func, c: ast.Call, emap: Term, vals: Term) -> None:
    """`function_estimators is None` means estimator 0 for every function: the default map is np.zeros over the
    function axis and is installed exactly when the map is absent."""
    X = ctx.X
    dflt = [a for a in alts(emap) if a[0] == "call" and a[1][0] == "global" and a[1][1].startswith("numpy.")]
    params = [a for a in alts(emap) if a[0] == "param"]
    if not dflt or not params:
        return
    for d in dflt:
        ok = d[1][1] in ("numpy.zeros", "numpy.zeros_like")
        res.add(f, c, "an absent estimator map defaults to index 0 (the first estimator) for every function", ok,
                "" if ok else f"the default map is `{show(d, 60)}`: with one estimator no function is computed at all (uninitialised results)",
                construct=f"{f.name}: default estimator map value")
        if ok and d[1][1] == "numpy.zeros" and d[2] and vals[0] == "sub":
            shp = d[2][0]
            base = vals[1]
            nd = len(vals[2][1]) if vals[2][0] == "tuple" else 1
            want = {("sub", ("attr", base, "shape"), ("const", -1))}
            if any(x == ("const", Ellipsis) for x in (vals[2][1] if vals[2][0] == "tuple" else ())) or nd == 2:
                want.add(("sub", ("attr", base, "shape"), ("const", 1)))
            from ..pattern import norm as _norm

            ok2 = shp in want or _norm(shp) in {_norm(w) for w in want}
            if shp[0] == "sub" and shp[1] == ("attr", base, "shape") and shp[2][0] == "const" and isinstance(shp[2][1], int):
                res.add(f, c, "the default estimator map has one entry per function (the last axis of the values)", ok2,
                        "" if ok2 else f"the default map has `{show(shp, 40)}` entries, the realization axis: functions beyond it are never computed",
                        construct=f"{f.name}: default estimator map size")
    for pm in params:
        isnone = ("cmp", "is", pm, ("const", None))
        for node in ast.walk(f.node):
            if isinstance(node, (ast.Assign, ast.AnnAssign)) and isinstance(node.value, ast.Call):
                tg = node.targets[0] if isinstance(node, ast.Assign) else node.target
                if isinstance(tg, ast.Name) and tg.id == pm[2] and X.at(f, node.value) in dflt:
                    known = _conds_at(ctx, f, node).get(isnone)
                    ok = known is not False
                    res.add(f, node, "the default estimator map replaces the configured one only when none is configured", ok,
                            "" if ok else f"`{norm_stmt(node)[:60]}` runs where `{pm[2]}` is present: every function is computed by the first estimator, whatever the configured map says",
                            construct=f"{f.name}: default estimator map polarity")


@rule(P)
def c01_3(ctx: Ctx) -> RuleResult:
    res = RuleResult("C01.3", "COH", "function i is computed from column i, weights row i, by the estimator mapped to i, and stored at i; filter k's weights go to the rows mapped to k")
    X = ctx.X
    for f, c in estimator_sinks(ctx, "calculate_function"):
        t = X.at(f, c)
        vals = t[2][0] if t[2] else None
        recv = t[1][1] if t[1][0] == "attr" else None
        if vals is None or recv is None:
            raise AnalysisError("unexpected shape of the calculate_function call")
        # function column index
        col = None
        if vals[0] == "sub":
            idxs = vals[2][1] if vals[2][0] == "tuple" else (vals[2],)
            col = idxs[-1]
        st_c = c
        while parent(st_c) is not None and not isinstance(st_c, ast.stmt):
            st_c = parent(st_c)
        info = _loop_index_info(ctx, f, col, st_c) if col is not None else None
        ok = info is not None
        res.add(f, c, "the values argument is column `idx` of the realization x function matrix, idx ranging over the functions mapped to this estimator", ok,
                "" if ok else f"values argument is `{show(vals, 80)}`", construct=f"{f.name}: values column")
        if not ok:
            continue
        emap, kpos = info
        # receiver is the estimator at the position the mask compares with (same enumerate, or list[k])
        elist = _element_at(recv, kpos)
        ok = elist is not None
        res.add(f, c, "the estimator object is the one enumerated together with the estimator index", ok,
                "" if ok else f"receiver `{show(recv, 60)}` is not paired with the index used in the mask", construct=f"{f.name}: estimator pairing")
        # the map is the estimator-index map (parameter fed from *.function_estimators)
        src_attrs = {s[2] for _g, s in deep_subterms(ctx, f, emap) if s[0] == "attr"}
        ok = "function_estimators" in src_attrs and "realization_filters" not in src_attrs
        res.add(f, c, "the index map compared with the estimator index is `function_estimators`", ok,
                "" if ok else f"mask compares `{show(emap, 60)}` (sources {sorted(src_attrs)[:6]})", construct=f"{f.name}: estimator map")
        # weights row index
        wt = weights_arg(ctx, f, c, 1)
        rows = [s for s in subterms(wt) if s[0] == "sub" and s[1][0] == "param" and "weight" in s[1][2]]
        ok = bool(rows) and all((s[2][1][0] if s[2][0] == "tuple" else s[2]) == col for s in rows)
        res.add(f, c, "the per-function weights row is row `idx` of the weight matrix", ok,
                "" if ok else f"weights row index differs from the function index: {[show(s, 60) for s in rows]}", construct=f"{f.name}: weights row")
        # which weights are in force: the matrix row exactly when a matrix was handed in, the configured weights exactly when not
        _weights_selection(ctx, res, f, c, rows)
        # an absent estimator map means "estimator 0 for every function"
        _default_map(ctx, res, f, c, emap, vals)
        # result store index
        st = parent(c)
        while st is not None and not isinstance(st, ast.stmt):
            st = parent(st)
        ok = False
        if isinstance(st, ast.Assign) and isinstance(st.targets[0], ast.Subscript):
            ti = X.at(f, st.targets[0].slice)
            ok = ti == col
        res.add(f, c, "the result is stored at position `idx`", ok, "" if ok else "result is stored at another index", construct=f"{f.name}: result index")
    # objective/constraint wrappers pass the right map
    for f, c in estimator_sinks(ctx, "calculate_function"):
        for caller, call in ctx.cg.callers(f):
            ct = X.at(caller, call)
            from ..callgraph import bind_args

            b = bind_args(f, ct, bound=False)
            em = b.get(f.positional[2]) if len(f.positional) > 2 else None
            vals = b.get(f.positional[3]) if len(f.positional) > 3 else None
            if em is None or vals is None:
                continue
            role = "objectives" if ends_with_attrs(em, "objectives", "function_estimators") else ("nonlinear_constraints" if ends_with_attrs(em, "nonlinear_constraints", "function_estimators") else None)
            vname = vals[2] if vals[0] == "param" else show(vals, 30)
            ok = role is not None and (("constraint" in vname) == (role == "nonlinear_constraints"))
            res.add(caller, call, "objective values use the objectives' estimator map, constraint values the constraints' map", ok,
                    "" if ok else f"`{vname}` is estimated with map `{show(em, 70)}`", construct=f"{caller.name}: estimator map role")
    # filter rows
    filt_sites = []
    impls = ctx.repo.implementations(FILT, "get_realization_weights") + [ctx.repo.funcs.get(f"{FILT}.get_realization_weights")]
    from ..util import call_sites_to

    for f, c in call_sites_to(ctx, [i for i in impls if i is not None]):
        if f.module.name.startswith("ropt.plugins"):
            continue
        filt_sites.append((f, c))
    if not filt_sites:
        raise AnalysisError("no call of RealizationFilter.get_realization_weights found")
    for f, c in filt_sites:
        t = X.at(f, c)
        recv = t[1][1]
        # the filter ranks the objectives given as objectives and the constraints given as constraints
        fargs = list(t[2]) + [v for _k, v in t[3]]
        kws = {k: v for k, v in t[3]}
        roles = [("objectives", kws.get("objectives", t[2][0] if len(t[2]) > 0 else None)), ("constraints", kws.get("constraints", t[2][1] if len(t[2]) > 1 else None))]
        for want, at in roles:
            if at is None:
                continue
            names = {s_[2] for a_ in alts(at) for s_ in subterms(a_) if s_[0] == "attr"} & {"objectives", "constraints"}
            if not names:
                continue
            ok = names == {want}
            res.add(f, c, f"the filter receives the evaluator's {want} in the `{want}` role", ok,
                    "" if ok else f"the `{want}` argument of get_realization_weights is `{show(at, 60)}`: the filter ranks the wrong family of functions",
                    construct=f"{f.name}: filter input {want}")
        # every configured filter is visited: the loop over the filters is never left early
        lp = parent(c)
        while lp is not None and not isinstance(lp, (ast.For, ast.While)):
            lp = parent(lp)
        if lp is not None:
            early = [n for n in ast.walk(lp) if isinstance(n, (ast.Break, ast.Return))]
            ok = not early and not lp.orelse
            res.add(f, lp, "the loop over the realization filters visits every filter (skips use `continue`, never `break`/`return`)", ok,
                    "" if ok else f"`{norm_stmt(early[0]) if early else 'else'}` leaves the loop: filters after an unused one are never applied to the rows mapped to them",
                    construct=f"{f.name}: rows of all filters visited")
            it = X.at(f, lp.iter)
            # the filter object is element k of the list of filters: `for k, flt in enumerate(L)`, or `L[k]` with k over range(len(L))
            if recv[0] == "iter":
                flist, kpos = recv[1], ("enumidx", recv[1], recv[2])
            elif recv[0] == "sub" and _element_at(recv, recv[2]) is not None:
                flist, kpos = recv[1], recv[2]
            else:
                flist, kpos = None, None

            def enumerates_all(t_):
                return (t_[0] == "call" and t_[1] == ("builtin", "enumerate") and t_[2] and t_[2][0] == flist) or (
                    t_[0] == "call" and t_[1] == ("builtin", "range") and len(t_[2]) == 1 and t_[2][0] == ("call", ("builtin", "len"), (flist,), ()))

            # directly, or through a comprehension over the enumeration (its filter is checked as a skip condition below)
            ok = flist is not None and (enumerates_all(it) or (it[0] == "comp" and len(it[3]) == 1 and enumerates_all(it[3][0][1])))
            res.add(f, lp, "the loop enumerates the full list of filter objects (index k pairs with filter k)", ok,
                    "" if ok else f"loop iterates `{show(it, 60)}`", construct=f"{f.name}: rows enumerate all filters")
        # stores of the result
        var = None
        p_ = parent(c)
        if isinstance(p_, ast.Assign) and isinstance(p_.targets[0], ast.Name):
            var = p_.targets[0].id
        stores = _filter_stores(ctx, f, var)
        if len(stores) < 2:
            res.add(f, c, "the filter's weights are stored into the objective and the constraint weight matrices", False,
                    f"{len(stores)} store(s) of the filter result found", construct=f"{f.name}: filter stores")
            continue
        if lp is not None:
            _filter_loop_clauses(ctx, res, f, c, lp, stores)
        for rec in stores:
            st, tgt, row = rec.node, rec.tgt, rec.row
            cmps = [s for s in subterms(row) if s[0] == "cmp" and s[1] == "=="]
            ok_pair = lp is not None and kpos is not None and any(s[3] == kpos or s[2] == kpos for s in cmps)
            want = "nonlinear_constraints" if "constraint" in tgt else "objectives"
            ok_map = any(ends_with_attrs(s[2], want, "realization_filters") or any(ends_with_attrs(a, want, "realization_filters") for a in alts(s[2])) or
                         any(ends_with_attrs(x, want, "realization_filters") for x in subterms(s[2]) if x[0] == "attr") for s in cmps)
            other = "objectives" if want == "nonlinear_constraints" else "nonlinear_constraints"
            wrong = any(any(ends_with_attrs(x, other, "realization_filters") for x in subterms(s[2]) if x[0] == "attr") for s in cmps)
            ok = ok_pair and ok_map and not wrong
            res.add(f, st, f"rows of `{tgt}` where {want}.realization_filters == k receive the weights of filter k (same enumerate)", ok,
                    "" if ok else ("filter object and filter index are not paired" if not ok_pair else f"rows are selected with the wrong map for `{tgt}`"),
                    construct=f"{f.name}: rows of {tgt}")
    done_nc = set()
    for f, _c in list(estimator_sinks(ctx, "calculate_function")) + filt_sites:
        if f.qualname not in done_nc:
            done_nc.add(f.qualname)
            none_contradictions(ctx, res, f, "weights in force")
    res.floor = 8
    return res


class _FStore:
    """One place where the weights returned by a filter are written into rows of a weight matrix:
    `M[rows, :] = weights` in the loop itself, or the same store inside a private helper the weights are handed to
    (then `rows` and `M` are the caller's arguments)."""

    def __init__(self, node, tgt, row, base, helper=None, helper_param=None):
        self.node, self.tgt, self.row, self.base, self.helper, self.helper_param = node, tgt, row, base, helper, helper_param


def _filter_stores(ctx: Ctx, f: Func, var: str | None) -> list:
    from ..callgraph import _is_bound_call, bind_args
    from ..terms import _subst

    X = ctx.X
    out = []
    if var is None:
        return out
    for n in nodes_in(f, ast.Assign):
        if isinstance(n.targets[0], ast.Subscript) and isinstance(n.value, ast.Name) and n.value.id == var:
            it = X.at(f, n.targets[0].slice)
            base = n.targets[0].value
            out.append(_FStore(n, ast.unparse(base), it[1][0] if it[0] == "tuple" else it, base.id if isinstance(base, ast.Name) else None))
    # out-of-place form: `M = np.where(rows[:, newaxis], weights, <M so far>)`
    for n in nodes_in(f, ast.Assign):
        if len(n.targets) == 1 and isinstance(n.targets[0], ast.Name) and isinstance(n.value, ast.Call) and len(n.value.args) == 3 \
                and isinstance(n.value.args[1], ast.Name) and n.value.args[1].id == var:
            vt = X.at(f, n.value)
            if vt[0] == "call" and vt[1] == ("global", "numpy.where"):
                cond = vt[2][0]
                # the row mask, broadcast over the realizations: mask[:, newaxis] / expand_dims(mask, 1) / mask.reshape(-1, 1)
                while True:
                    if cond[0] == "sub" and cond[2][0] == "tuple" and any(e_ in (("global", "numpy.newaxis"), ("const", None)) for e_ in cond[2][1]):
                        cond = cond[1]
                    elif cond[0] == "call" and cond[1] == ("global", "numpy.expand_dims") and cond[2]:
                        cond = cond[2][0]
                    elif cond[0] == "call" and cond[1][0] == "attr" and cond[1][2] == "reshape":
                        cond = cond[1][1]
                    else:
                        break
                rec = _FStore(n, n.targets[0].id, cond, n.targets[0].id)
                rec.where_base = n.value.args[2]
                out.append(rec)
    for cl in calls_in(f):
        argnodes = list(cl.args) + [k.value for k in cl.keywords]
        if not any(isinstance(a, ast.Name) and a.id == var for a in argnodes):
            continue
        for g in ctx.cg.callees_of_call(f, cl):
            if not g.name.startswith("_") or g.module is not f.module or isinstance(g.node, ast.Lambda):
                continue
            ct = X.at(f, cl)
            bound = bind_args(g, ct, bound=_is_bound_call(ct, g))
            # AST view of the binding (parameter name -> caller's argument node)
            pnames = [a.arg for a in g.node.args.args]
            if g.cls is not None and pnames and not g.is_static:
                pnames = pnames[1:]
            anodes = dict(zip(pnames, cl.args))
            anodes.update({k.arg: k.value for k in cl.keywords if k.arg})
            wparams = [p_ for p_, a_ in anodes.items() if isinstance(a_, ast.Name) and a_.id == var]
            mapping = {("param", g.qualname, p_): t_ for p_, t_ in bound.items() if t_ is not None}
            for n in nodes_in(g, ast.Assign):
                tg = n.targets[0]
                if isinstance(tg, ast.Subscript) and isinstance(n.value, ast.Name) and n.value.id in wparams and isinstance(tg.value, ast.Name) and tg.value.id in anodes:
                    it = _subst(X.at(g, tg.slice), mapping)
                    marg = anodes[tg.value.id]
                    st_ = cl
                    while parent(st_) is not None and not isinstance(st_, ast.stmt):
                        st_ = parent(st_)
                    out.append(_FStore(st_, ast.unparse(marg), it[1][0] if it[0] == "tuple" else it, marg.id if isinstance(marg, ast.Name) else None, g, tg.value.id))
    return out


def _filter_loop_clauses(ctx: Ctx, res: RuleResult, f, c, lp, stores) -> None:
    """Two clauses about the loop that hands every filter's weights to the rows mapped to it:
    (a) filter k is consulted whenever some row of some matrix is mapped to k - the condition under
        which the call executes is implied by `mask is not None and any(mask)` for the row mask of every store;
    (b) the matrices accumulate over the filters - a matrix that receives rows is (re)created inside the
        loop only while it is still None."""
    from ..util import bool_nnf, path_condition

    X = ctx.X
    # (a) the condition under which get_realization_weights runs in an iteration
    raw = list(path_condition(ctx, f, c))

    def strip_not(t, pol):
        while t[0] == "unary" and t[1] == "not":
            t, pol = t[2], not pol
        return t, pol

    raw = [strip_not(t, pol) for t, pol in raw]
    # `if not any(table): return` before the loop, `if table[k]:` inside it: the first is implied by the second
    tables = [t[1] for t, pol in raw if pol and t[0] == "sub"]
    raw = [(t, pol) for t, pol in raw if not (pol and t[0] == "call" and t[1] in (("builtin", "any"), ("global", "numpy.any")) and t[2] and t[2][0] in tables)]
    pc = []
    for t, pol in raw:
        pc.append(t if pol else ("unary", "not", t))
    conj = []
    for t in pc:
        g = bool_nnf(t)
        conj.extend(g[1] if g[0] == "and" else [g])
    # `if not <the sequence the loop iterates>: return` before the loop: implied by the body running at all
    loop_iter = X.at(f, lp.iter)
    conj = [k for k in conj if not (k[0] == "lit" and k[2] and norm(k[1]) == norm(loop_iter))]

    def lit_about(lit, m) -> bool:
        if lit[0] != "lit":
            return False
        a, pol = lit[1], lit[2]
        if a[0] == "cmp" and a[1] in ("is", "is not") and ("const", None) in (a[2], a[3]):
            other = a[3] if a[2] == ("const", None) else a[2]
            # the mask itself, or the index map it is computed from (`map == k` has no true entry when map is None)
            return (norm(other) == m or contains(m, lambda y: y == norm(other))) and (pol == (a[1] == "is not"))
        if a[0] == "call" and a[1] in (("global", "numpy.any"), ("builtin", "any")) and a[2] and norm(a[2][0]) == m:
            return pol
        if a[0] == "call" and a[1][0] == "attr" and a[1][2] == "any" and norm(a[1][1]) == m:
            return pol
        return False

    for rec in stores:
        tgt = rec.tgt
        m = norm(rec.row)
        bad = None
        for k in conj:
            disj = k[1] if k[0] == "or" else [k]
            sat = False
            for d in disj:
                lits = d[1] if d[0] == "and" else [d]
                if lits and all(lit_about(x, m) for x in lits):
                    sat = True
                    break
            if not sat:
                bad = k
                break
        ok = bad is None
        res.add(f, c, f"the filter is consulted whenever a row of `{tgt}` is mapped to it (it is skipped only when the row mask is None or empty)", ok,
                "" if ok else f"the filter is skipped under a condition that does not depend on the rows of `{tgt}` mapped to it: these rows keep the configured weights",
                construct=f"{f.name}: rows of {tgt}: skip condition")
    # (b) accumulation
    def guarded_by_none(n: ast.AST, name: str, stop=None) -> bool:
        stop = lp if stop is None else stop
        def is_none_test(t, want_none: bool) -> bool:
            if isinstance(t, ast.BoolOp) and isinstance(t.op, ast.And) and want_none:
                return any(is_none_test(v, True) for v in t.values)
            if isinstance(t, ast.UnaryOp) and isinstance(t.op, ast.Not):
                return is_none_test(t.operand, not want_none)
            return (isinstance(t, ast.Compare) and len(t.ops) == 1 and isinstance(t.left, ast.Name) and t.left.id == name
                    and isinstance(t.comparators[0], ast.Constant) and t.comparators[0].value is None
                    and isinstance(t.ops[0], ast.Is if want_none else ast.IsNot))
        child, cur = n, parent(n)
        while cur is not None and cur is not stop:
            if isinstance(cur, ast.If):
                if any(child is s for s in cur.body) and is_none_test(cur.test, True):
                    return True
                if any(child is s for s in cur.orelse) and is_none_test(cur.test, False):
                    return True
            child, cur = cur, parent(cur)
        v = n.value
        if isinstance(v, ast.IfExp):
            keep_body = isinstance(v.body, ast.Name) and v.body.id == name
            keep_else = isinstance(v.orelse, ast.Name) and v.orelse.id == name
            if keep_else and is_none_test(v.test, True) or keep_body and is_none_test(v.test, False):
                return True
        return False

    def hands_back(n, rec) -> bool:
        """`M = helper(M, ...)`: the helper stores into the matrix it is given (created only while None) and returns it"""
        g = rec.helper
        if g is None or not isinstance(n.value, ast.Call) or g not in ctx.cg.callees_of_call(f, n.value):
            return False
        rets = [r_ for r_ in nodes_in(g, ast.Return)]
        if not rets or not all(isinstance(r_.value, ast.Name) and r_.value.id == rec.helper_param for r_ in rets):
            return False
        for n2 in nodes_in(g, (ast.Assign, ast.AnnAssign)):
            tg2 = n2.targets if isinstance(n2, ast.Assign) else [n2.target]
            if n2.value is not None and any(isinstance(t_, ast.Name) and t_.id == rec.helper_param for t_ in tg2):
                if not guarded_by_none(n2, rec.helper_param, g.node):
                    return False
        return True

    seen_b = set()
    for rec in stores:
        if rec.base is None:
            continue
        for n in ast.walk(lp):
            if isinstance(n, (ast.Assign, ast.AnnAssign)) and n.value is not None and (id(n), rec.base) not in seen_b:
                tg = n.targets if isinstance(n, ast.Assign) else [n.target]
                if any(isinstance(t_, ast.Name) and t_.id == rec.base for t_ in tg):
                    seen_b.add((id(n), rec.base))
                    wb = getattr(rec, "where_base", None)
                    if wb is not None and n is rec.node:
                        # out-of-place store: the rows that are not written come from the matrix as it was (or, while it
                        # is still None, from the default) - the fall-back operand has to mention the matrix itself
                        e_ = wb
                        if isinstance(e_, ast.Name) and e_.id != rec.base:
                            defs_ = [a_ for a_ in ast.walk(f.node) if isinstance(a_, ast.Assign) and len(a_.targets) == 1 and isinstance(a_.targets[0], ast.Name)
                                     and a_.targets[0].id == e_.id]
                            if len(defs_) == 1 and any(a_ is x for x in ast.walk(lp) for a_ in defs_):
                                e_ = defs_[0].value
                        ok = any(isinstance(x, ast.Name) and x.id == rec.base and isinstance(x.ctx, ast.Load) for x in ast.walk(e_))
                        res.add(f, n, f"`{rec.base}` is created inside the filter loop only while it is still None (rows written for earlier filters are kept)", ok,
                                "" if ok else f"`{norm_stmt(n)[:70]}` rebuilds `{rec.base}` from a value that does not contain the rows written for earlier filters: they are lost",
                                construct=f"{f.name}: rows of {rec.base}: accumulation")
                        continue
                    ok = guarded_by_none(n, rec.base) or hands_back(n, rec)
                    res.add(f, n, f"`{rec.base}` is created inside the filter loop only while it is still None (rows written for earlier filters are kept)", ok,
                            "" if ok else f"`{norm_stmt(n)[:70]}` re-creates `{rec.base}` for every filter: the rows written for lower-indexed filters are lost",
                            construct=f"{f.name}: rows of {rec.base}: accumulation")


# --------------------------------------------------------------------- C01.4
@rule(P)
def c01_4(ctx: Ctx) -> RuleResult:
    res = RuleResult("C01.4", "TERM", "weighted objective = sum(config.objectives.weights * estimated objectives); NaN everywhere when all realizations failed")
    X = ctx.X
    create = ctx.repo.func("ropt.results._functions.Functions.create")
    sites = [(f, c) for f, c in ctx.cg.callers(create) if f.module.name.startswith("ropt.ensemble_evaluator")]
    if not sites:
        raise AnalysisError("Functions.create call in the ensemble evaluator not found")
    by_func: dict = {}
    for f, c in sites:
        by_func.setdefault(f.qualname, (f, []))[1].append(c)
    for f, calls_ in by_func.values():
        W = V("w", lambda x: ends_with_attrs(x, "objectives", "weights"))
        O = V("o")
        ref1 = call("numpy.array", call("numpy.sum", mul(W, O)))
        ref2 = call("numpy.array", call("numpy.dot", W, O))
        ref3 = call("numpy.array", call("numpy.dot", O, W))
        nan_forms = (call("numpy.array", G("numpy.nan")), G("numpy.nan"), call("numpy.array", G("numpy.NaN")), call("numpy.float64", G("numpy.nan")))
        good, nan_alt, other = [], None, []
        obs = []
        first = calls_[0]
        for c in calls_:
            kw = dict(X.at(f, c)[3])
            wo, ob = kw.get("weighted_objective"), kw.get("objectives")
            if wo is None or ob is None:
                raise AnalysisError("Functions.create is not called with weighted_objective= and objectives=")
            obs.append(ob)
            for a in (norm(a) for a in alts(wo)):
                m = match(a, ref1) or match(a, ref2) or match(a, ref3) or match(a, ref1[2][0]) or match(a, ref2[2][0])
                if m is not None:
                    good.append((a, m, ob, c))
                elif a in nan_forms:
                    nan_alt = a
                else:
                    other.append(a)
        ok = bool(good) and not other
        why = ""
        if not good:
            why = "the weighted objective is never sum(objective weights * objectives)"
        elif other:
            why = f"unexpected alternative `{show(other[0], 80)}`"
        if ok:
            for a, m, ob, c in good:
                # the objectives multiplied are the objectives reported
                o = m["o"]
                oalts = [norm(a2) for a2 in alts(ob)]
                if o not in oalts:
                    ok, why = False, "the objectives that are weighted are not the objectives that are reported"
                    break
                est = [s for _g, s in deep_subterms(ctx, f, o, 3) if s[0] == "call" and s[1][0] == "attr" and s[1][2] == "calculate_function"]
                if not est:
                    ok, why = False, "the weighted objectives do not come from the function estimators"
                    break
        res.add(f, good[0][3] if good else first, "weighted_objective == sum(config.objectives.weights * estimated objectives)", ok, why, construct=f"{f.name}: weighted objective")
        # all-failed branch
        guard_ok = False
        for n in nodes_in(f, ast.If):
            tt = norm(X.value_at(f, n.test))
            while tt[0] == "unary" and tt[1] in ("not", "~"):
                tt = tt[2]  # `if not all(failed): <values> else: <NaN>` is the same guard
            if tt[0] == "call" and tt[1] == G("numpy.all") and any(s[0] == "param" and "failed" in s[2] for s in subterms(tt)):
                guard_ok = True
        nan_sources = nan_alt is not None
        if nan_sources:
            for ob in obs:
                for a in alts(ob):
                    if a[0] == "mut" or (a[0] == "call" and a[1][0] == "global" and a[1][1].startswith("numpy.") and a[1][1].split(".")[-1] in ("empty", "full")):
                        srcs = content_sources(ctx, f, a)
                        if not srcs or not all(s.term == G("numpy.nan") for s in srcs if s.kind != "bool"):
                            nan_sources = False
        ok = guard_ok and nan_sources
        res.add(f, first, "when every realization failed, objectives, constraints and weighted objective are NaN (no value is invented)", ok,
                "" if ok else "the all-failed branch does not report NaN for every function value", construct=f"{f.name}: all-failed NaN")
    return res


# --------------------------------------------------------------------- C01.5
@rule(P)
def c01_5(ctx: Ctx) -> RuleResult:
    res = RuleResult("C01.5", "TERM", "estimator definitions: mean = dot(values, weights); stddev = sqrt(N/(N-1) * dot((values - mean)^2, weights)), N = count of positive weights")
    X = ctx.X
    for impl in ctx.repo.implementations(EST, "calculate_function"):
        c = impl.cls
        rt = X.return_term(impl)
        methods = dispatch_table(ctx, impl)
        for name in ("mean", "stddev"):
            if name not in methods:
                res.add(impl, impl.node, f"estimator method `{name}` is dispatched to an implementation", False, "dispatch not found", construct=f"{c.name}: dispatch {name}")
        F, Wt = V("f"), V("w")
        if "mean" in methods:
            h = methods["mean"]
            t = norm(X.return_term(h))
            vals_p = ("param", h.qualname, [p for p in h.positional if p not in ("self",)][0])
            w_p = ("param", h.qualname, [p for p in h.positional if p not in ("self",)][1])
            fv = V("f", lambda x: x == vals_p or x == call("numpy.nan_to_num", vals_p))
            refs = [call("numpy.dot", fv, w_p), call("numpy.sum", mul(fv, w_p)), call("numpy.dot", w_p, fv)]
            ok = any(match(t, r) is not None for r in refs)
            res.add(h, h.node, "mean estimate == dot(values, weights)", ok, "" if ok else f"mean is `{show(t, 100)}`", construct=f"{c.name}: mean formula")
        if "stddev" in methods:
            h = methods["stddev"]
            parts = stddev_parts(ctx, h)
            if parts is None:
                res.add(h, h.node, "stddev == sqrt(Bessel * dot((values - mean)^2, weights))", False,
                        f"stddev is `{show(norm(X.return_term(h)), 140)}`", construct=f"{c.name}: stddev formula")
            else:
                where_f, nrm, mean, fp, wp = parts
                # N/(N-1) with N = float(count_nonzero(weights > 0))
                ok_b = any(match(nrm, div(cr, add(C(-1), cr))) is not None for cr in count_refs(wp))
                why_b = ""
                if not ok_b:
                    why_b = f"Bessel factor is `{show(nrm, 100)}`, not N/(N-1) with N = number of strictly positive weights"
                res.add(where_f, where_f.node, "Bessel factor == N/(N-1), N = count_nonzero(weights > 0)", ok_b, why_b, construct=f"{c.name}: Bessel factor")
                ok_m = match(mean, call("numpy.dot", fp, wp)) is not None or match(mean, call("numpy.sum", mul(fp, wp))) is not None
                res.add(where_f, where_f.node, "weighted mean == dot(values, weights)", ok_m, "" if ok_m else f"mean is `{show(mean, 80)}`", construct=f"{c.name}: stddev mean")
                res.add(where_f, where_f.node, "stddev == sqrt(Bessel * dot((values - mean)^2, weights))", True, construct=f"{c.name}: stddev formula")
                res.add(h, h.node, "the stddev estimator returns the stddev component of the helper", True, construct=f"{c.name}: stddev result")
    res.floor = 5
    return res


def count_refs(wp):
    """Accepted spellings of N = number of strictly positive weights."""
    pos = ("cmp", "<", C(0), wp)
    base = [call("numpy.count_nonzero", pos), call("numpy.sum", pos)]
    return [call(("builtin", "float"), b) for b in base] + base


def stddev_parts(ctx: Ctx, h: Func):
    """(function holding the formula, Bessel factor, mean, values, weights) of a stddev
    estimator whose result is sqrt(B * dot((F - M)^2, W)); None when it has another shape."""
    X = ctx.X
    rth = X.return_term(h)
    where_f = h
    ps = [p for p in h.positional if p != "self"]
    if len(ps) < 2:
        return None
    vals_p, w_p = ("param", h.qualname, ps[0]), ("param", h.qualname, ps[-1])
    # not inlined (a large helper): look into the helper returning the components
    it = rth
    if it[0] == "item" and it[1][0] == "call":
        hs = ctx.cg.resolve_fn(it[1][1], h)
        if len(hs) == 1:
            helper = hs[0]
            hrt = X.return_term(helper)
            if hrt[0] == "tuple" and isinstance(it[2], int) and -len(hrt[1]) <= it[2] < len(hrt[1]):
                rth = hrt[1][it[2]]
                where_f = helper
                hp = [p for p in helper.positional if p != "self"]
                vals_p, w_p = ("param", helper.qualname, hp[0]), ("param", helper.qualname, hp[-1])
    sd = norm(rth)
    fv = V("f", lambda x: x == vals_p or x == call("numpy.nan_to_num", vals_p))
    ref_sd = ("binop", "**", mul(V("b"), call("numpy.dot", ("binop", "**", add(fv, neg(V("m"))), C(2)), w_p)), C(0.5))
    m = match(sd, ref_sd)
    if m is None:
        return None
    means = [s_ for s_ in subterms(m["m"]) if s_[0] == "call" and s_[1] in (("global", "numpy.dot"), ("global", "numpy.sum"))]
    mean = means[0] if means else m["m"]
    # the deviation is taken from the mean broadcast over the realizations: M is mean or mean[..., newaxis]
    core = m["m"]
    while core[0] == "sub":
        core = core[1]
    if core != mean:
        return None
    return where_f, m["b"], mean, m["f"], w_p


# --------------------------------------------------------------------- C01.6
@rule(P)
def c01_6(ctx: Ctx) -> RuleResult:
    res = RuleResult("C01.6", "COH", "the weight matrices and failure flags reported in Realizations are the ones the functions were computed with")
    X = ctx.X
    real = ctx.repo.cls("ropt.results._realizations.Realizations")
    ee = ctx.repo.cls("ropt.ensemble_evaluator._ensemble_evaluator.EnsembleEvaluator")
    n = 0
    for m in ee.methods.values():
        # pairs: a FunctionResults(...) construction with realizations=Realizations(...) and functions=<var>
        for call_ in calls_in(m):
            t = X.at(m, call_.func)
            if t != ("global", "ropt.results._function_results.FunctionResults"):
                continue
            ct = X.at(m, call_)
            kw = dict(ct[3])
            r, fn = kw.get("realizations"), kw.get("functions")
            if r is None or fn is None or r[0] != "call":
                continue
            rk = dict(r[3])
            if fn[0] == "item":
                # `failed, functions = self._gate(...)`: the value computed inside the private helper
                fn = X.force_inline(fn, m, effects=True)
            used = [a for _c, a in guard_leaves(fn, strip_wrappers=False) if a[0] == "call"]
            if not used:
                continue
            n += 1
            u = used[0]
            uargs = list(u[2]) + [v_ for _k, v_ in u[3]]
            from .common import values_agree

            for name in ("failed_realizations", "objective_weights", "constraint_weights"):
                ok = name in rk and (rk[name] in uargs or values_agree(ctx, m, rk[name], uargs))
                res.add(m, call_, f"Realizations.{name} is the value passed to the function computation of the same result", ok,
                        "" if ok else f"reported `{name}` (`{show(rk.get(name, ('const', None)), 50)}`) is not among the arguments the functions were computed with",
                        construct=f"{m.name}: reported {name}")
    if n == 0:
        raise AnalysisError("no FunctionResults construction with computed functions found")
    res.floor = 6
    return res


# --------------------------------------------------------------------- C01.7
@rule(P)
def c01_7(ctx: Ctx) -> RuleResult:
    """Failed = any NaN in the realization's row (shared with C03.1): a realization
    that fails only in a constraint column must still get zero weight."""
    from .c03 import c03_1

    r = c03_1(ctx)
    for i in r.instances:
        i.rule = "C01.7"
    r.rule, r.title = "C01.7", "every NaN in a realization's objectives or constraints marks the realization as failed (so that it gets zero weight)"
    return r


@rule(P)
def c01_8(ctx: Ctx) -> RuleResult:
    """Shared with C03.5: which realizations count as failed for the reported function values."""
    from .c03 import c03_5

    r = c03_5(ctx)
    r.instances = [i for i in r.instances if "function flags" in i.construct]
    for i in r.instances:
        i.rule = "C01.8"
    r.rule, r.title, r.floor = "C01.8", "the realizations given zero weight in the function values are those whose unperturbed evaluation failed (nothing else)", 1
    return r
