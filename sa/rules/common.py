"""Helpers shared by the numeric-kernel rules (C01-C03, C06, C09)."""

from __future__ import annotations

import ast

from ..core import Ctx
from ..model import AnalysisError, Func, norm_stmt
from ..pattern import norm
from ..prov import content_sources
from ..terms import Term, alts, contains, ends_with_attrs, root_of, show, subterms
from ..util import call_sites_to

EST = "ropt.plugins.function_estimator.base.FunctionEstimator"
FILT = "ropt.plugins.realization_filter.base.RealizationFilter"


def estimator_sinks(ctx: Ctx, method: str) -> list[tuple[Func, ast.Call]]:
    """Call sites (outside the estimator plug-ins themselves) that resolve to
    an implementation of FunctionEstimator.<method>."""
    impls = ctx.repo.implementations(EST, method)
    base = ctx.repo.funcs.get(f"{EST}.{method}")
    targets = impls + ([base] if base is not None else [])
    if not targets:
        raise AnalysisError(f"FunctionEstimator.{method} not found")
    sites = [(f, c) for f, c in call_sites_to(ctx, targets) if not f.module.name.startswith("ropt.plugins.function_estimator")]
    if not sites:
        raise AnalysisError(f"no call of FunctionEstimator.{method} found in the ensemble evaluator")
    return sites


def weights_arg(ctx: Ctx, f: Func, call: ast.Call, pos: int) -> Term:
    t = ctx.X.at(f, call)
    for k, v in t[3]:
        if k == "weights":
            return v
    if pos < len(t[2]):
        return t[2][pos]
    raise AnalysisError(f"weights argument not found at {f.where(call)}")


def split_normalised(t: Term):
    """If t == W / sum(W) (any spelling) return W, else None."""
    n = norm(t)
    for a in alts(n):
        pass
    # normal form: ('binop','/', W, call(numpy.sum,(W,)))
    if n[0] == "binop" and n[1] == "/":
        w, d = n[2], n[3]
        if d[0] == "call" and d[1] == ("global", "numpy.sum") and d[2] and d[2][0] == w:
            return w
    if n[0] == "call" and n[1][0] == "global" and n[1][1].endswith(".normalize") and n[2]:
        return n[2][0]
    return None


def split_zeroed(t: Term):
    """If t is 'X zeroed under condition C' return (C, X):
    np.where(C, 0, X) | X * ~C | np.where(~C, X, 0)."""
    n = norm(t)
    if n[0] == "call" and n[1] == ("global", "numpy.where") and len(n[2]) == 3:
        c, a, b = n[2]
        if a[0] == "const" and a[1] in (0, 0.0):
            return c, b
        if b[0] == "const" and b[1] in (0, 0.0) and c[0] == "unary" and c[1] == "~":
            return c[2], a
    if n[0] == "binop" and n[1] == "*":
        for x, y in ((n[2], n[3]), (n[3], n[2])):
            if x[0] == "unary" and x[1] == "~":
                return x[2], y
    return None


def derives_only_from_param(ctx: Ctx, f: Func, t: Term, pname: str) -> bool:
    ps = [s for s in subterms(t) if s[0] == "param"]
    return bool(ps) and all(p[2] == pname for p in ps)


def pipeline_frame(ctx: Ctx, f: Func, wt: Term) -> tuple[Func, Term]:
    """(function, term) in whose frame the weights pipeline is visible: the sink's own frame, or - when the weights
    argument is a bare parameter of a single-call-site private function - its caller's."""
    from ..util import contextual

    if wt[0] == "param" and wt[1] == f.qualname and split_normalised(wt) is None:
        wt2, f2 = contextual(ctx, f, wt)
        if f2 is not f:
            return f2, wt2
    return f, wt


def check_weights_pipeline(ctx: Ctx, f: Func, wt: Term) -> tuple[bool, str, Term | None]:
    """weights == normalise(zero_under_failed(X)); returns (ok, why, X).  When the weights are a parameter of a
    private function with a single call site (the pipeline was applied by the caller, or by a helper the caller uses),
    the decision is made in the caller's frame; `pipeline_frame(ctx, f, wt)` tells which."""
    f, wt = pipeline_frame(ctx, f, wt)
    w = split_normalised(wt)
    if w is None and wt[0] == "call":
        # the pipeline may live in a private helper (`weights = _normalize(weights, failed)`): look at its value
        try:
            wt2 = ctx.X.force_inline(wt, f, effects=True)
        except Exception:  # noqa: BLE001
            wt2 = wt
        if wt2 != wt:
            wt = wt2
            w = split_normalised(wt)
    if w is None:
        return False, f"weights `{show(wt, 110)}` are not divided by their own sum: they do not sum to one after failures / filtering", None
    z = split_zeroed(w)
    if z is None:
        return False, f"weights `{show(w, 110)}` are not zeroed on failed realizations before normalisation: failed (NaN) realizations keep weight", None
    cond, inner = z
    if not any(s[0] == "param" and "failed" in s[2] for s in subterms(cond)):
        return False, f"the zeroing condition `{show(cond, 60)}` is not the failed-realizations flag", None
    if cond[0] == "unary":
        return False, "weights are zeroed on the *successful* realizations (inverted polarity)", None
    return True, "", inner


def dispatch_table(ctx: Ctx, impl: Func) -> dict:
    """{constant: callee} for a method that selects an implementation by comparing a
    value with constants: ``if x == "k": return self.h(...)`` (any nesting, elif
    chains), ``match x: case "k": return self.h(...)`` (value and or-patterns),
    or a dict of callables indexed by the value."""
    X = ctx.X
    out: dict = {}

    def returned_callee(body):
        for s in body:
            for x in ast.walk(s):
                if isinstance(x, ast.Return) and isinstance(x.value, ast.Call):
                    rv = X.at(impl, x.value)
                    hs = ctx.cg.resolve_fn(rv[1], impl) if rv[0] == "call" else []
                    if hs:
                        return hs[0]
        return None

    for n in ast.walk(impl.node):
        if isinstance(n, ast.If):
            tt = norm(X.value_at(impl, n.test))
            keys = []
            for s in subterms(tt) if tt[0] == "bool" else [tt]:
                if s[0] == "cmp" and s[1] == "==" and (s[3][0] == "const" or s[2][0] == "const"):
                    keys.append(s[3][1] if s[3][0] == "const" else s[2][1])
                elif s[0] == "cmp" and s[1] == "in" and s[3][0] in ("tuple", "set", "list"):
                    keys += [e[1] for e in s[3][1] if e[0] == "const"]
            h = returned_callee(n.body) if keys else None
            if h is not None:
                for k in keys:
                    out.setdefault(k, h)
        elif isinstance(n, ast.Match):
            for case in n.cases:
                pats = case.pattern.patterns if isinstance(case.pattern, ast.MatchOr) else [case.pattern]
                keys = [p.value.value for p in pats if isinstance(p, ast.MatchValue) and isinstance(p.value, ast.Constant)]
                h = returned_callee(case.body) if keys and case.guard is None else None
                if h is not None:
                    for k in keys:
                        out.setdefault(k, h)
        elif isinstance(n, ast.Dict) and n.keys and all(isinstance(k, ast.Constant) for k in n.keys):
            for k, v in zip(n.keys, n.values):
                vt = X.at(impl, v)
                hs = ctx.cg.resolve_fn(vt, impl)
                if hs:
                    out.setdefault(k.value, hs[0])
    return out


def value_forms(ctx: Ctx, m: Func, v: Term) -> set:
    """The spellings of one value inside ``m``: as written, in normal form, and with private helpers looked into
    (components of tuple-returning helpers resolved) - `failed, functions = self._gate(...)` names the same flags as
    the `_get_failed_realizations(...)` call written inside the gate."""
    out = {v}
    try:
        out.add(norm(v))
        for eff in (False, True):
            out.add(norm(ctx.X.force_inline(v, m, effects=eff)))
    except Exception:  # noqa: BLE001
        pass
    return out


def values_agree(ctx: Ctx, m: Func, v: Term, candidates) -> bool:
    fv = value_forms(ctx, m, v)
    return any(fv & value_forms(ctx, m, c) for c in candidates)


def conds_at(ctx: Ctx, f: Func, node: ast.AST, _cache: dict | None = None) -> dict:
    """{atom: polarity} known to hold where `node` is evaluated: the enclosing `if` statements and conditional
    expressions plus the path condition of its statement; a conjunction known true contributes each conjunct, a
    disjunction known false the negation of each disjunct."""
    from ..util import _enclosing_conds, _pc_literals, norm_cond, stmt_of

    st = stmt_of(node)
    items = list(_enclosing_conds(ctx, f, node))
    # short-circuit operators: in `a and b` the operand b is evaluated only where a is true (in `a or b`: false)
    from ..model import parent as _parent

    child_, cur_ = node, _parent(node)
    while cur_ is not None and not isinstance(cur_, (ast.stmt, ast.FunctionDef, ast.Lambda)):
        if isinstance(cur_, ast.BoolOp):
            k_ = next((i_ for i_, v_ in enumerate(cur_.values) if v_ is child_), None)
            if k_:
                for v_ in cur_.values[:k_]:
                    try:
                        a_, p_ = norm_cond(ctx.X.value_at(f, v_))
                    except Exception:  # noqa: BLE001
                        continue
                    items.append((a_, p_ if isinstance(cur_.op, ast.And) else not p_))
        child_, cur_ = cur_, _parent(cur_)
    if st is not None:
        if _cache is not None and id(st) in _cache:
            items += _cache[id(st)]
        else:
            try:
                pcs = list(_pc_literals(ctx, f, st))
            except AnalysisError:
                pcs = []
            if _cache is not None:
                _cache[id(st)] = pcs
            items += pcs
    out: dict = {}

    def put(a, p):
        if a[0] == "bool" and a[1] == "and" and p:
            for x in a[2]:
                put(*norm_cond(x))
        elif a[0] == "bool" and a[1] == "or" and not p:
            for x in a[2]:
                a2, p2 = norm_cond(x)
                put(a2, not p2)
        else:
            out.setdefault(a, p)

    for a, p in items:
        put(a, p)
    return out


def none_contradictions(ctx: Ctx, res, f: Func, what: str) -> int:
    """Contradiction rule (Engler et al.): a value is never dereferenced (attribute, subscript), compared with `==`,
    used in arithmetic or used as an array index at a place where the conditions in force say it is None.  One
    obligation per function; every offending use is reported.  Returns the number of uses examined."""
    from ..util import norm_cond

    X = ctx.X
    cache: dict = {}
    n_uses = 0
    bad = []

    def known_none(use: ast.AST, at: ast.AST) -> bool:
        nonlocal n_uses
        if not isinstance(use, (ast.Name, ast.Attribute)):
            return False
        cs = conds_at(ctx, f, at, cache)
        if not cs:
            return False
        n_uses += 1
        try:
            t = X.at(f, use)
        except Exception:  # noqa: BLE001
            return False
        atom, pol = norm_cond(("cmp", "is", t, ("const", None)))
        return cs.get(atom) is pol

    for node in ast.walk(f.node):
        uses = []
        if isinstance(node, ast.Attribute) and isinstance(node.ctx, ast.Load):
            uses.append((node.value, "attribute `." + node.attr + "` of"))
        elif isinstance(node, ast.Subscript):
            uses.append((node.value, "subscript of"))
            idx = node.slice.elts if isinstance(node.slice, ast.Tuple) else [node.slice]
            for e in idx:
                uses.append((e, "array index"))
        elif isinstance(node, ast.Compare) and len(node.ops) == 1 and isinstance(node.ops[0], (ast.Eq, ast.NotEq, ast.Lt, ast.LtE, ast.Gt, ast.GtE)):
            uses.append((node.left, "comparison operand"))
            uses.append((node.comparators[0], "comparison operand"))
        elif isinstance(node, ast.BinOp):
            uses.append((node.left, "arithmetic operand"))
            uses.append((node.right, "arithmetic operand"))
        for use, how in uses:
            if known_none(use, node):
                bad.append((node, f"{how} `{ast.unparse(use)}`"))
    ok = not bad
    first = bad[0][0] if bad else f.node
    res.add(f, first, f"{what}: no value is used (dereferenced, compared, indexed with) where the conditions in force say it is None", ok,
            "" if ok else "; ".join(f"line {n.lineno}: {h} is evaluated where it is known to be None" for n, h in bad[:4])
            + ": the branches of a None test are swapped (the configured / filtered alternative is never taken, or the code raises)",
            construct=f"{f.name}: None-test polarity")
    return n_uses


def param_mutations(ctx: Ctx, f: Func) -> list[tuple[ast.AST, str, str]]:
    """In-place modifications of an array the caller handed in: `p op= x`, `p[...] = x`, `np.f(..., out=p)`,
    `p.sort()/fill()/resize()` where the only definition of `p` reaching the statement is the parameter itself.
    -> [(node, parameter, how)]"""
    X = ctx.X
    df = X.df(f)
    out = []
    params = set(f.params[1:] if f.cls is not None and not f.is_static and f.params else f.params)

    def only_param(name: str, at: ast.AST) -> bool:
        if name not in params:
            return False
        node = X.node_of(f, at)
        if node is None:
            return False
        defs = [d for d in df.reaching(node, name) if d.kind != "unbound"]
        return bool(defs) and all(d.kind == "param" for d in defs)

    for n in ast.walk(f.node):
        if isinstance(n, ast.AugAssign):
            t = n.target
            base = t
            while isinstance(base, (ast.Subscript, ast.Attribute)):
                base = base.value
            if isinstance(base, ast.Name) and not isinstance(t, ast.Attribute) and only_param(base.id, n):
                out.append((n, base.id, f"`{norm_stmt(n)[:50]}` operates in place"))
        elif isinstance(n, ast.Assign):
            for t in n.targets:
                if isinstance(t, ast.Subscript):
                    base = t.value
                    while isinstance(base, ast.Subscript):
                        base = base.value
                    if isinstance(base, ast.Name) and only_param(base.id, n):
                        out.append((n, base.id, f"`{norm_stmt(n)[:50]}` stores into it"))
        elif isinstance(n, ast.Call):
            for kw in n.keywords:
                if kw.arg == "out" and isinstance(kw.value, ast.Name) and only_param(kw.value.id, n):
                    out.append((n, kw.value.id, f"`{ast.unparse(n)[:50]}` writes its result into it"))
            if isinstance(n.func, ast.Attribute) and n.func.attr in ("sort", "fill", "resize", "partition", "put", "itemset", "setfield") and isinstance(n.func.value, ast.Name) \
                    and only_param(n.func.value.id, n):
                out.append((n, n.func.value.id, f"`{ast.unparse(n)[:50]}` modifies it"))
    return out


def value_filtered_mappings(f: Func) -> list[tuple[ast.AST, str]]:
    """Dict comprehensions / filter() calls in `f` that drop entries of a mapping depending on the entry's VALUE
    (`{k: v for k, v in d.items() if v}`, `... if v is not None`): options a user set explicitly (0, False, None)
    silently fall back to somebody's default.  -> [(node, text of the condition)]"""
    out = []
    for n in ast.walk(f.node):
        if isinstance(n, ast.DictComp):
            for g in n.generators:
                if not g.ifs:
                    continue
                it = g.iter
                if not (isinstance(it, ast.Call) and isinstance(it.func, ast.Attribute) and it.func.attr == "items"):
                    continue
                tgt = g.target
                vname = tgt.elts[1].id if isinstance(tgt, ast.Tuple) and len(tgt.elts) == 2 and isinstance(tgt.elts[1], ast.Name) else None
                if vname is None:
                    continue
                for cond in g.ifs:
                    if any(isinstance(x, ast.Name) and x.id == vname for x in ast.walk(cond)):
                        out.append((n, ast.unparse(cond)))
    return out
