"""C10 - perturbed variables honour magnitudes and boundary-type semantics.

  C10.1 ENUM  effect per boundary type (symbolic evaluation of the bound handler per
              BoundaryType member): NONE -> untouched, TRUNCATE_BOTH -> clip, MIRROR_BOTH -> mirror (+clip)
  C10.2 COH   mirror = 2*bound - v under the matching violation test, with the matching bound
  C10.3 TERM  perturbed = variables + magnitudes * samples, handed over with role-coherent
              bounds and boundary types
  C10.4 TERM  relative magnitude = (upper - lower) * m under RELATIVE; finite-bounds check first
"""

from __future__ import annotations

import ast

from ..cfg import cfg_of
from ..core import META, Ctx, RuleResult, rule
from ..model import AnalysisError, Func, dotted, norm_stmt, parent
from ..pattern import C, G, V, add, call, match, mul, neg, norm
from ..terms import Term, alts, contains, ends_with_attrs, phi, root_of, show, subterms
from ..util import calls_in, deep_subterms, nodes_in

P = "C10"
BT = "ropt.enums.BoundaryType"

META[P] = {
    "explanation": (
        "The bound handler's return term is partially evaluated for every member of BoundaryType (type tests become constants, np.where / logical_and "
        "are simplified, the nested mirror helper is inlined, loop-carried values are handled inductively); the residual term is the effect on an "
        "element of that type and is compared with the effect table. Mirror roles, the perturbation formula and the relative-magnitude scaling are "
        "reference terms."
    ),
    "not_decided": ["that MIRROR_REPEAT mirrorings suffice for large overshoots (the clip fallback keeps the bound clause)"],
}


def bound_handler(ctx: Ctx) -> Func:
    for f in ctx.repo.funcs_in("ropt.ensemble_evaluator._gradient"):
        if f.cls is None and any(s == ("global", f"{BT}.MIRROR_BOTH") or (s[0] == "global" and s[1].startswith(BT + ".")) for s in subterms(ctx.X.return_term(f))):
            return f
    raise AnalysisError("boundary-type handler not found")


def subst(t, mapping: dict):
    if not isinstance(t, tuple):
        return t
    if t in mapping:
        return mapping[t]
    return tuple(subst(x, mapping) for x in t)


class PartialEval:
    """Evaluate a term for elements of one boundary type."""

    def __init__(self, ctx: Ctx, f: Func, member: str) -> None:
        self.ctx, self.f, self.member = ctx, f, member
        self.active: set = set()
        self.env: dict = {}  # parameters of the package helpers being looked into -> argument values

    def ev(self, t: Term, depth: int = 0) -> Term:
        X = self.ctx.X
        if depth > 60 or not isinstance(t, tuple) or not t or not isinstance(t[0], str):
            return t
        k = t[0]
        E = lambda x: self.ev(x, depth + 1)  # noqa: E731
        if k == "cmp" and t[1] in ("==", "!="):
            l, r = E(t[2]), E(t[3])
            for a, b in ((l, r), (r, l)):
                if b[0] == "global" and b[1].startswith(BT + ".") and a[0] == "param":
                    eq = b[1] == f"{BT}.{self.member}"
                    return ("const", eq if t[1] == "==" else not eq)
            return ("cmp", t[1], l, r)
        if k == "call":
            fn = t[1]
            args = [E(a) for a in t[2]]
            kws = tuple((n, E(v)) for n, v in t[3])
            if fn == G("numpy.logical_and") or fn == G("numpy.bitwise_and"):
                if any(a == C(False) for a in args):
                    return C(False)
                rest = [a for a in args if a != C(True)]
                if not rest:
                    return C(True)
                if len(rest) == 1:
                    return rest[0]
                return ("call", fn, tuple(rest), kws)
            if fn == G("numpy.logical_or"):
                if any(a == C(True) for a in args):
                    return C(True)
                rest = [a for a in args if a != C(False)]
                if not rest:
                    return C(False)
                if len(rest) == 1:
                    return rest[0]
                return ("call", fn, tuple(rest), kws)
            if fn == G("numpy.logical_not") and args and args[0][0] == "const":
                return C(not args[0][1])
            if fn == G("numpy.where") and len(args) == 3:
                if args[0] == C(True):
                    return args[1]
                if args[0] == C(False):
                    return args[2]
                if args[1] == args[2]:
                    return args[1]
                return ("call", fn, tuple(args), kws)
            if fn[0] == "func":
                g = self.ctx.repo.funcs.get(fn[1])
                if g is not None and not isinstance(g.node, ast.Lambda):
                    rt = X.return_term(g)
                    mapping = {("param", g.qualname, p): a for p, a in zip(g.positional, args)}
                    return E(subst(rt, mapping))
            if fn[0] == "global" and fn[1] in self.ctx.repo.funcs and len(self.env) < 40:
                # a module-level helper of the package (its loops cannot be inlined as a value): evaluate its returned
                # value with the parameters bound to the arguments
                g = self.ctx.repo.funcs[fn[1]]
                if g.cls is None and not isinstance(g.node, ast.Lambda) and len(args) <= len(g.positional):
                    new_env = {("param", g.qualname, p): a for p, a in zip(g.positional, args)}
                    new_env.update({("param", g.qualname, n): v for n, v in kws})
                    old_env = self.env
                    self.env = {**old_env, **new_env}
                    try:
                        return E(X.return_term(g))
                    finally:
                        self.env = old_env
            return ("call", E(fn) if fn[0] not in ("global", "builtin", "func") else fn, tuple(args), kws)
        if k == "binop" and t[1] == "&":
            l, r = E(t[2]), E(t[3])
            if C(False) in (l, r):
                return C(False)
            if l == C(True):
                return r
            if r == C(True):
                return l
            return ("binop", "&", l, r)
        if k == "unary" and t[1] in ("~", "not"):
            x = E(t[2])
            if x[0] == "const" and isinstance(x[1], bool):
                return C(not x[1])
            return ("unary", t[1], x)
        if k == "phi":
            vals = []
            for a in t[1]:
                if a[0] == "rec":
                    key = tuple(a[3:5])
                    if key in self.active:
                        continue  # inductive: the loop-carried value equals the entry value if the body preserves it
                    self.active.add(key)
                    try:
                        vals.append(E(X.deref(a)))
                    finally:
                        self.active.discard(key)
                else:
                    vals.append(E(a))
            return phi(vals) if vals else t
        if k == "rec":
            key = tuple(t[3:5])
            if key in self.active or len(t) < 5:
                return t
            self.active.add(key)
            try:
                return E(X.deref(t))
            finally:
                self.active.discard(key)
        if k == "param" and t in self.env:
            return self.env[t]
        if k in ("const", "param", "global", "builtin", "func", "unknown"):
            return t
        return tuple(E(x) if isinstance(x, tuple) and x and isinstance(x[0], str) else (tuple(E(y) if isinstance(y, tuple) and y and isinstance(y[0], str) else y for y in x) if isinstance(x, tuple) else x) for x in t)


@rule(P)
def c10_1(ctx: Ctx) -> RuleResult:
    res = RuleResult("C10.1", "ENUM", "effect of the bound handler on an element, per BoundaryType member")
    X = ctx.X
    f = bound_handler(ctx)
    members = ctx.repo.enum_members(BT)
    if not members:
        raise AnalysisError("BoundaryType members not found")
    rt = X.return_term(f)
    vp, lo, up = (("param", f.qualname, p) for p in f.positional[:3])
    clip_ref = call("numpy.clip", V("x"), lo, up)
    for m in members:
        r = norm(PartialEval(ctx, f, m).ev(rt))
        mc = match(r, clip_ref)
        clipped = mc is not None
        inner = mc["x"] if clipped else r
        mirrored = contains(inner, lambda s: s[0] == "call" and s[1] == G("numpy.where"))
        effect = ("mirror+" if mirrored else "") + ("clip" if clipped else "") or ("identity" if inner == vp else "other")
        if m == "NONE":
            ok = r == vp
            why = "" if ok else f"an element of type NONE becomes `{show(r, 90)}`: it is {effect.replace('+', ' and ')}ped instead of left untouched"
        elif m.startswith("TRUNCATE"):
            ok = clipped and inner == vp
            why = "" if ok else f"an element of type {m} becomes `{show(r, 90)}` instead of clip(v, lower, upper)"
        elif m.startswith("MIRROR"):
            ok = clipped and mirrored
            why = "" if ok else f"an element of type {m} becomes `{show(r, 90)}`: it is not mirrored (or not kept inside the bounds afterwards)"
        else:
            ok, why = False, f"no effect is specified for boundary type {m}"
        res.add(f, f.node, f"{m}: " + {"NONE": "the value is returned unchanged", "TRUNCATE_BOTH": "the value is clipped to [lower, upper]", "MIRROR_BOTH": "the value is mirrored at the violated bound, then clipped as a fallback"}.get(m, "specified effect"),
                ok, why, construct=f"{f.name}: effect for {m}")
    res.exhaustive = True
    res.floor = 3
    return res


@rule(P)
def c10_2(ctx: Ctx) -> RuleResult:
    res = RuleResult("C10.2", "COH", "mirror == where(mask & violated, 2*bound - v, v); `v < lower` pairs with lower, `v > upper` with upper; only MIRROR_BOTH elements; clip(lower, upper) roles")
    X = ctx.X
    f = bound_handler(ctx)
    vp, lo, up, ty = (("param", f.qualname, p) for p in f.positional[:4])
    # every mirroring step in the value the handler returns (helpers seen through, loops followed)
    rt = X.force_inline(X.return_term(f), f)
    seen = set()
    steps = []
    from ..util import framed_closure

    from ..util import subst_params

    frames = {}
    for s_, mp_ in framed_closure(ctx, f, rt, with_frame=True):
        if s_[0] == "call" and s_[1][0] == "func":
            # a nested helper that was not inlined (e.g. recursive): look at its own return value
            continue
        n_ = norm(s_)
        if n_ in seen or n_[0] != "call" or n_[1] != G("numpy.where") or len(n_[2]) != 3:
            continue
        seen.add(n_)
        frames[n_] = mp_
        m = match(n_, call("numpy.where", V("c"), add(neg(V("v")), mul(C(2), V("b"))), V("v")))
        if m is None:
            # a where() that is not a mirroring step (e.g. the final selection by type) is not an instance
            a_ = n_[2][1]
            if a_[0] == "binop" and a_[1] in ("+", "*") and any(y[0] == "binop" and y[1] == "*" and C(2) in (y[2], y[3]) for y in (a_, a_[2], a_[3])):
                steps.append((n_, None))
            continue
        steps.append((n_, m))
    n = 0
    for n_, m in steps:
        if m is None:
            res.add(f, f.node, "mirror step == where(mask & violated, 2*bound - v, v)", False, f"mirror step is `{show(n_, 120)}`", construct=f"{f.name}: mirror step shape")
            continue
        conj = []

        def flat(c):
            if c[0] == "binop" and c[1] == "&":
                flat(c[2])
                flat(c[3])
            else:
                conj.append(c)

        flat(m["c"])
        # the violated test compares the value that is mirrored (the other `<` conjuncts belong to the mask)
        viol = [c for c in conj if c[0] == "cmp" and c[1] == "<" and ((c[2] == m["v"] and c[3] in (lo, up)) or (c[3] == m["v"] and c[2] in (lo, up)))]
        which = None
        if len(viol) == 1 and viol[0][2] == m["v"] and viol[0][3] == lo:
            which = ("lower", lo)
        elif len(viol) == 1 and viol[0][3] == m["v"] and viol[0][2] == up:
            which = ("upper", up)
        if which is None:
            res.add(f, f.node, "the violated-bound test of a mirror step is `v < lower` or `v > upper`", False, f"condition `{show(m['c'], 80)}`", construct=f"{f.name}: mirror condition {show(m['c'], 40)}")
            continue
        n += 1
        ok = m["b"] == which[1]
        res.add(f, f.node, "the violated-bound test and the bound used for mirroring are the same bound", ok,
                "" if ok else f"condition `{show(viol[0], 50)}` is mirrored at `{show(m['b'], 30)}`: values are reflected at the wrong bound", construct=f"{f.name}: mirror at {which[0]} bound")
        mk = [x for c in conj for x in (subst_params(y, frames.get(n_, {})) for y in X.closure(c)) if x[0] == "cmp" and x[1] == "==" and ((x[3][0] == "global" and x[3][1].startswith(BT + ".")) or (x[2][0] == "global" and x[2][1].startswith(BT + ".")))]
        ok = bool(mk) and all((x[3] == G(f"{BT}.MIRROR_BOTH") and x[2] == ty) or (x[2] == G(f"{BT}.MIRROR_BOTH") and x[3] == ty) for x in mk)
        res.add(f, f.node, "mirroring is restricted to elements of type MIRROR_BOTH", ok, "" if ok else "mirror mask is not the MIRROR_BOTH type test", construct=f"{f.name}: mask of mirror at {which[0]} bound")
    if n < 2:
        raise AnalysisError("mirror steps (where(mask & violated, 2*bound - v, v) for the lower and the upper bound) not found in the bound handler")
    # clip roles
    clips = [s for s in subterms(rt) if s[0] == "call" and s[1] == G("numpy.clip")]
    ok = bool(clips) and all(len(s[2]) == 3 and s[2][1] == lo and s[2][2] == up for s in clips)
    res.add(f, f.node, "clip(value, lower_bounds, upper_bounds) argument roles", ok, "" if ok else "clip bounds are swapped or foreign", construct=f"{f.name}: clip roles")
    res.floor = 5
    return res


@rule(P)
def c10_3(ctx: Ctx) -> RuleResult:
    res = RuleResult("C10.3", "TERM", "perturbed = variables + perturbation_magnitudes * samples, post-processed with (variables.lower_bounds, variables.upper_bounds, gradient.boundary_types)")
    X = ctx.X
    f = bound_handler(ctx)
    sites = ctx.cg.callers(f)
    if not sites:
        raise AnalysisError("bound handler is never called")
    for g, c in sites:
        t = X.at(g, c)
        from ..callgraph import positional_args

        # arguments in the order of the handler's parameters, passed by position or by keyword
        pa = positional_args(f, t)
        a = [norm(x) for x in pa] if all(x is not None for x in pa) else [norm(x) for x in t[2]]
        vpar = [("param", g.qualname, p) for p in g.params if p == "variables"]
        m = match(a[0], add(V("v"), mul(V("mag"), V("s")))) if a else None
        ok = m is not None and vpar and m["v"] == vpar[0]
        mag_ok = samp_ok = False
        if ok:
            cand = [(m["mag"], m["s"]), (m["s"], m["mag"])]
            for mg, sm in cand:
                if ends_with_attrs(mg, "gradient", "perturbation_magnitudes"):
                    mag_ok = True
                    samp_ok = any(s_[0] == "call" and s_[1][0] == "attr" and s_[1][2] == "generate_samples" for _h, s_ in deep_subterms(ctx, g, sm, 3))
        res.add(g, c, "the value handed to the bound handler is variables + config.gradient.perturbation_magnitudes * <sampler output>", bool(ok and mag_ok and samp_ok),
                "" if ok and mag_ok and samp_ok else f"perturbed value is `{show(a[0], 110) if a else '?'}`", construct=f"{g.name}: perturbation formula")
        roles = len(a) == 4 and ends_with_attrs(a[1], "variables", "lower_bounds") and ends_with_attrs(a[2], "variables", "upper_bounds") and ends_with_attrs(a[3], "gradient", "boundary_types")
        res.add(g, c, "bounds and boundary types are passed in their roles (lower, upper, types)", roles, "" if roles else f"arguments `{[show(x, 40) for x in a[1:]]}`", construct=f"{g.name}: handler arguments")
        # samples of several samplers are summed
        augs = [n for h_ in [g] + [x for x in ctx.cg.reachable([g], include_nested_values=False) if x.module is g.module and x.cls is None and x.name.startswith("_")]
                for n in nodes_in(h_, ast.AugAssign) if isinstance(n.op, ast.Add) and "generate_samples" in ast.unparse(n.value)]
        res.add(g, c, "contributions of several samplers are added", bool(augs), "" if augs else "sampler outputs are not summed", construct=f"{g.name}: sum of samplers")
        # each sampler is drawn from once: the indices that select sampler objects are the configured
        # non-negative entries (negative entries mark variables without a sampler and must never index the list)
        from ..util import bool_nnf, path_condition

        region_ = [g] + [x for x in ctx.cg.reachable([g], include_nested_values=False) if x.module is g.module and x.cls is None and x.name.startswith("_")]
        for h_ in region_:
            for cl in calls_in(h_):
                if not (isinstance(cl.func, ast.Attribute) and cl.func.attr == "generate_samples" and isinstance(cl.func.value, ast.Subscript)):
                    continue
                sub_ = cl.func.value
                if isinstance(sub_.slice, ast.Constant):
                    continue
                idx = X.at(h_, sub_.slice)
                filtered = False
                # the array the index *value* is taken from (positions computed on a filtered copy do not make
                # the entries of the unfiltered array non-negative)
                base_ = idx
                while base_[0] in ("iter", "sub", "item") and len(base_) > 1 and isinstance(base_[1], tuple):
                    base_ = base_[1]
                for _h2, y in deep_subterms(ctx, h_, base_, 4):
                    if y[0] == "call" and y[1] in (("global", "numpy.compress"), ("global", "numpy.extract")) and y[2] and contains(y[2][0], lambda z: z[0] == "cmp" and z[1] in (">=", ">", "<", "<=")):
                        filtered = True
                    if y[0] == "sub" and contains(y[2], lambda z: z[0] == "cmp" and z[1] in (">=", ">", "<", "<=")):
                        filtered = True
                st_ = cl
                while parent(st_) is not None and not isinstance(st_, ast.stmt):
                    st_ = parent(st_)
                guarded = False
                for t_, pol in path_condition(ctx, h_, st_):
                    gq = bool_nnf(t_ if pol else ("unary", "not", t_))
                    for it in (gq[1] if gq[0] == "and" else [gq]):
                        if it[0] != "lit" or it[1][0] != "cmp":
                            continue
                        _k, op, l_, r_ = it[1]
                        pos = it[2]
                        if (pos and ((op == ">=" and l_ == idx and r_ == C(0)) or (op == "<=" and l_ == C(0) and r_ == idx) or (op == ">" and l_ == idx and r_ == C(-1)))) or \
                                (not pos and ((op == "<" and l_ == idx and r_ == C(0)) or (op == ">" and l_ == C(0) and r_ == idx))):
                            guarded = True
                ok = filtered or guarded
                res.add(h_, cl, "the index that selects a sampler object comes from the non-negative entries of gradient.samplers (filtered with `>= 0` or used under `idx >= 0`)", ok,
                        "" if ok else f"`{ast.unparse(sub_)[:60]}` can be indexed with a negative entry (the marker of variables without a sampler): Python wraps it to the last sampler, which is then drawn twice",
                        construct=f"{h_.name}: sampler index `{ast.unparse(sub_.slice)[:40]}`")
    res.floor = 3
    return res


@rule(P)
def c10_4(ctx: Ctx) -> RuleResult:
    res = RuleResult("C10.4", "TERM", "relative magnitudes are scaled by (upper - lower) only where the type is RELATIVE, after checking those bounds are finite")
    X = ctx.X
    gc = ctx.repo.cls("ropt.config.enopt._gradient_config.GradientConfig")
    # the scaling may live in a method of GradientConfig or in a private function of its module that the methods call
    cands = list(gc.methods.values())
    for g_ in ctx.cg.reachable(list(gc.methods.values()), include_nested_values=False):
        if g_.module is gc.module and g_.cls is None and g_.name.startswith("_") and g_ not in cands:
            cands.append(g_)
    f = None
    for m in cands:
        if any(s == ("global", "ropt.enums.PerturbationType.RELATIVE") for s in subterms(X.return_term(m))) or "RELATIVE" in ast.unparse(m.node):
            if any(isinstance(n_, ast.Call) and dotted(n_.func) in ("np.where", "numpy.where") for n_ in ast.walk(m.node)):
                f = m
    if f is None:
        raise AnalysisError("relative-magnitude scaling not found in GradientConfig")
    wheres = []
    for n in nodes_in(f, ast.Call):
        t = norm(X.at(f, n))
        if t[0] == "call" and t[1] == G("numpy.where") and len(t[2]) == 3:
            wheres.append((n, t))
    rel = ("cmp", "==", V("types"), G("ropt.enums.PerturbationType.RELATIVE"))
    ok = False
    why = "no np.where(relative, range * m, m) found"
    site = f.node
    for n, t in wheres:
        c_, a_, b_ = t[2]
        mc = match(c_, rel) or match(c_, ("cmp", "==", G("ropt.enums.PerturbationType.RELATIVE"), V("types")))
        if mc is None:
            continue
        site = n
        mm = match(a_, mul(add(V("ub"), neg(V("lb"))), V("m")))
        if mm is None:
            why = f"relative branch is `{show(a_, 80)}`, not (upper - lower) * magnitude"
            continue
        roles = None
        for ub, lb, mg in ((mm["ub"], mm["lb"], mm["m"]),):
            roles = ends_with_attrs(ub, "upper_bounds") and ends_with_attrs(lb, "lower_bounds")
        # commutative match may have bound m to the range: try the other reading
        if not roles:
            mm2 = match(a_, mul(V("m"), add(V("ub"), neg(V("lb")))))
            if mm2 is not None:
                roles = ends_with_attrs(mm2["ub"], "upper_bounds") and ends_with_attrs(mm2["lb"], "lower_bounds")
                mm = mm2
        if not roles:
            why = f"range is `{show(a_, 80)}`: not upper_bounds - lower_bounds"
            continue
        if b_ != mm["m"]:
            why = "the non-relative branch does not keep the magnitude unchanged"
            continue
        # the fraction that is scaled is the configured magnitude itself
        m_src = [y for _h, y in deep_subterms(ctx, f, mm["m"], 3)]
        if not (any(y[0] == "attr" and y[2] == "perturbation_magnitudes" for y in m_src) and not any(y[0] == "call" and y[1][0] == "attr" and y[1][2].endswith("_to_optimizer") for y in m_src)):
            why = f"the fraction of the bound range is `{show(mm['m'], 80)}`, not the configured perturbation_magnitudes (it was transformed before the range scaling)"
            continue
        ok, why = True, ""
    res.add(f, site, "magnitudes == where(types == RELATIVE, (upper_bounds - lower_bounds) * m, m)", ok, why, construct=f"{f.name}: relative scaling")
    # finite-bounds validation dominates the scaling
    cfg = cfg_of(ctx.repo, f)
    checks = []
    for n in nodes_in(f, ast.If):
        if contains(X.value_at(f, n.test), lambda s_: s_[0] == "call" and s_[1] == G("numpy.isfinite")) and any(isinstance(x, ast.Raise) for s in n.body for x in ast.walk(s)):
            checks.append(n)
    ok = False
    if checks and site is not f.node:
        cn = {x for c_ in checks for x in cfg.node_containing(c_.test)}
        ok = all(any(cfg.dominates(c_, s) for c_ in cn) for s in cfg.node_containing(site))
        t = X.value_at(f, checks[0].test)
        ok = ok and contains(t, lambda s: s[0] == "attr" and s[2] == "lower_bounds") and contains(t, lambda s: s[0] == "attr" and s[2] == "upper_bounds")
    res.add(f, checks[0] if checks else f.node, "finite lower and upper bounds of the relative variables are required before scaling", ok,
            "" if ok else "relative magnitudes can be computed from infinite bounds (inf/NaN magnitudes)", construct=f"{f.name}: finite bounds check")
    return res


@rule(P)
def c10_5(ctx: Ctx) -> RuleResult:
    """The transform hooks that map magnitudes / variables / bounds between the domains are pure: GradientConfig hands
    `magnitudes_to_optimizer` the array that already holds the relative magnitudes and copies only the absolute entries
    back, so an in-place division scales the relative ones a second time (EFFECT rule, one obligation per method)."""
    from .common import param_mutations

    res = RuleResult("C10.5", "EFFECT", "transform methods never modify the arrays they are given (magnitudes, variables, bounds are mapped out of place)")
    n = 0
    for f in ctx.repo.all_funcs():
        if not f.module.name.startswith("ropt.transforms") or f.cls is None or isinstance(f.node, ast.Lambda):
            continue
        if not f.params or len(f.params) < 2 or f.name.startswith("__"):
            continue
        n += 1
        muts = param_mutations(ctx, f)
        ok = not muts
        res.add(f, muts[0][0] if muts else f.node, f"`{f.cls.name}.{f.name}` leaves its array arguments untouched", ok,
                "" if ok else f"parameter `{muts[0][1]}`: {muts[0][2]}: the caller's array changes under it (GradientConfig.fix_perturbations keeps using the array it passed in: "
                "relative magnitudes are divided by the scales twice)",
                construct=f"{f.cls.name}.{f.name}: pure")
    if n == 0:
        raise AnalysisError("no transform methods found under ropt.transforms")
    res.floor = 6
    return res
