"""C19 - plug-in lookup is deterministic, case-insensitive and side-effect free.

  C19.1 FLOW every key used on the registry is lower-cased; is_supported implementations lower-case
  C19.2 DOM  lookup structure: explicit path consults one plug-in; discovery honours the
             flag, registry order, first match; prioritised insertion first; duplicates
             and failures raise ConfigError; is_supported == lookup did not raise
  C19.3 WHO  registries are per-manager instance state
"""

from __future__ import annotations

import ast

from ..cfg import cfg_of
from ..core import META, Ctx, RuleResult, rule
from ..dataflow import dataflow_of
from ..model import AnalysisError, Func, dotted, norm_stmt, parent
from ..paths import PathFinder, describe_path
from ..terms import Term, contains, root_of, show, subterms
from ..util import calls_in, nodes_in

P = "C19"
MGR = "ropt.plugins._manager.PluginManager"

META[P] = {
    "explanation": (
        "Key provenance (every registry key derives from str.lower()), path structure of add_plugin / get_plugin / is_supported on their CFGs, and "
        "an isolation sweep showing the registry is per-instance state created by a dict literal in __init__."
    ),
    "not_decided": ["behaviour of third-party plug-ins' is_supported implementations"],
}


def _registry_field(ctx: Ctx):
    c = ctx.repo.cls(MGR)
    init = c.methods.get("__init__")
    if init is None:
        raise AnalysisError("PluginManager.__init__ not found")
    for n in nodes_in(init, (ast.Assign, ast.AnnAssign)):
        targets = n.targets if isinstance(n, ast.Assign) else [n.target]
        for t in targets:
            # a dict display, or a comprehension `{plugin_type: {} for plugin_type in ...}` / dict(...) building it
            if isinstance(t, ast.Attribute) and (isinstance(n.value, (ast.Dict, ast.DictComp)) or (
                    isinstance(n.value, ast.Call) and isinstance(n.value.func, ast.Name) and n.value.func.id == "dict")):
                return c, init, t.attr, n
    raise AnalysisError("registry dict of the plug-in manager not found")


def _strip_alts(t: Term):
    while t[0] in ("mut", "update", "setattr"):
        t = t[1]
    if t[0] == "phi":
        return [x for a in t[1] for x in _strip_alts(a)]
    return [t]


def _is_reg(ctx: Ctx, m: Func, e: ast.AST, reg: str) -> bool:
    """The expression denotes the registry attribute of the manager (possibly through a local)."""
    return any(a[0] == "attr" and a[2] == reg and a[1][0] == "param" for a in _strip_alts(ctx.X.at(m, e)))


def _is_subreg(ctx: Ctx, m: Func, e: ast.AST, reg: str) -> bool:
    """The expression denotes the per-type dict `registry[type]` (possibly through a local)."""
    for a in _strip_alts(ctx.X.at(m, e)):
        if a[0] == "sub" and any(b[0] == "attr" and b[2] == reg and b[1][0] == "param" for b in _strip_alts(a[1])):
            return True
    return False


def _norm(t: Term) -> Term:
    from ..pattern import norm

    return norm(t)


def _term_is_subreg(t: Term, reg: str) -> bool:
    for a in _strip_alts(t):
        if a[0] == "sub" and any(b[0] == "attr" and b[2] == reg and b[1][0] == "param" for b in _strip_alts(a[1])):
            return True
    return False


def _leaves(t: Term):
    from ..util import guard_leaves

    return list(guard_leaves(t, strip_wrappers=False))


def _is_lowered(ctx: Ctx, t: Term) -> bool:
    """t is `<x>.lower()` / casefold, or derived from one by indexing/splitting."""
    if t[0] == "phi":
        return all(_is_lowered(ctx, a) for a in t[1])
    if t[0] == "call" and t[1][0] == "attr" and t[1][2] in ("lower", "casefold") and not t[2]:
        return True
    if t[0] in ("sub", "item"):
        return _is_lowered(ctx, t[1])
    if t[0] == "call" and t[1][0] == "attr" and t[1][2] in ("split", "rpartition", "partition", "strip"):
        return _is_lowered(ctx, t[1][1])
    if t[0] == "iter":
        return _is_lowered(ctx, t[1])
    return False


@rule(P)
def c19_1(ctx: Ctx) -> RuleResult:
    res = RuleResult("C19.1", "FLOW", "registry keys and supported-method tests are case-insensitive (derive from str.lower())")
    c, init, reg, _n = _registry_field(ctx)
    X = ctx.X
    n_keys = 0
    for m in c.methods.values():
        if m is init:
            continue
        # keys: <sub-registry>[KEY], <sub-registry>.get(KEY), KEY in <sub-registry>, <registry>[type] = {KEY: plugin, ...}
        # (the sub-registry may be held in a local)
        for node in nodes_in(m, (ast.Subscript, ast.Call, ast.Compare, ast.Dict)):
            keys = []
            if isinstance(node, ast.Subscript) and _is_subreg(ctx, m, node.value, reg):
                keys.append(node.slice)
            elif isinstance(node, ast.Call) and isinstance(node.func, ast.Attribute) and node.func.attr in ("get", "pop", "setdefault") and node.args and _is_subreg(ctx, m, node.func.value, reg):
                keys.append(node.args[0])
            elif isinstance(node, ast.Compare) and len(node.ops) == 1 and isinstance(node.ops[0], (ast.In, ast.NotIn)) and _is_subreg(ctx, m, node.comparators[0], reg):
                keys.append(node.left)
            elif isinstance(node, ast.Dict):
                p_ = parent(node)
                if isinstance(p_, ast.Assign) and any(isinstance(t, ast.Subscript) and _is_reg(ctx, m, t.value, reg) for t in p_.targets):
                    keys += [k for k in node.keys if k is not None]
            for k in keys:
                n_keys += 1
                t = X.at(m, k)
                ok = _is_lowered(ctx, t)
                res.add(m, k, "the plug-in name used as registry key is lower-cased", ok,
                        "" if ok else f"key `{show(t, 60)}` is used with its original case: names differing in case do not find / do not collide with each other",
                        construct=f"{m.name}: key {ast.unparse(k)[:40]}")
        # a new per-type dict stored into the registry: the keys of every dict display in the stored *value*, wherever it is
        # built (a local, a helper that returns the re-ordered dict)
        for asg in nodes_in(m, ast.Assign):
            if not any(isinstance(t_, ast.Subscript) and _is_reg(ctx, m, t_.value, reg) for t_ in asg.targets):
                continue
            if isinstance(asg.value, ast.Dict):
                continue  # counted above, key by key
            vt = X.force_inline(X.at(m, asg.value), m, effects=True)
            seen_k = set()
            for s_ in X.closure(vt):
                if s_[0] != "dict":
                    continue
                for kt, _v in s_[1]:
                    if kt[0] == "star" or kt in seen_k:
                        continue
                    seen_k.add(kt)
                    n_keys += 1
                    ok = _is_lowered(ctx, kt)
                    res.add(m, asg, "the plug-in name used as registry key is lower-cased", ok,
                            "" if ok else f"key `{show(kt, 60)}` is used with its original case: names differing in case do not find / do not collide with each other",
                            construct=f"{m.name}: key {show(kt, 40)} of the stored dict")
    # module-level private helpers that are handed a per-type registry (`_lookup_named_plugin(self._plugins[t], name, m)`):
    # the same key uses, with the parameter standing for the sub-registry
    from ..callgraph import bind_args as _bind

    helpers: dict = {}
    for m in c.methods.values():
        for call_, cs, _k in ctx.cg.all_callees(m):
            for g in cs:
                if g.cls is None and g.outer is None and g.module is c.module and not isinstance(g.node, ast.Lambda):
                    ct_ = X.at(m, call_)
                    if ct_[0] != "call":
                        continue
                    for pn_, at_ in _bind(g, ct_, False).items():
                        if at_ is not None and _term_is_subreg(at_, reg):
                            helpers.setdefault(g.qualname, (g, set()))[1].add(pn_)
    for g, sub_ps in helpers.values():
        def is_sub_param(e_, g=g, sub_ps=sub_ps):
            return isinstance(e_, ast.Name) and e_.id in sub_ps and X.at(g, e_) == ("param", g.qualname, e_.id)

        for node in nodes_in(g, (ast.Subscript, ast.Call, ast.Compare)):
            keys = []
            if isinstance(node, ast.Subscript) and is_sub_param(node.value):
                keys.append(node.slice)
            elif isinstance(node, ast.Call) and isinstance(node.func, ast.Attribute) and node.func.attr in ("get", "pop", "setdefault") and node.args and is_sub_param(node.func.value):
                keys.append(node.args[0])
            elif isinstance(node, ast.Compare) and len(node.ops) == 1 and isinstance(node.ops[0], (ast.In, ast.NotIn)) and is_sub_param(node.comparators[0]):
                keys.append(node.left)
            for k in keys:
                n_keys += 1
                t = X.at(g, k)
                ok = _is_lowered(ctx, t)
                res.add(g, k, "the plug-in name used as registry key is lower-cased", ok,
                        "" if ok else f"key `{show(t, 60)}` is used with its original case: names differing in case do not find / do not collide with each other",
                        construct=f"{g.name}: key {ast.unparse(k)[:40]}")
    # is_supported implementations
    for f in ctx.repo.implementations("ropt.plugins.base.Plugin", "is_supported"):
        rt = X.return_term(f)
        pname = f.positional[1] if len(f.positional) > 1 else "method"
        uses = [s for s in subterms(rt) if s == ("param", f.qualname, pname)]
        lowered = [s for s in subterms(rt) if s[0] == "call" and s[1][0] == "attr" and s[1][2] in ("lower", "casefold") and s[1][1] == ("param", f.qualname, pname)]
        delegated = any(s[0] == "call" and s[1][0] == "attr" and s[1][2] == "is_supported" for s in subterms(rt))
        # every occurrence of the parameter is inside .lower() (or handed to another is_supported)
        ok = (bool(lowered) and len(uses) == len(lowered)) or delegated
        res.add(f, f.node, "is_supported compares the lower-cased method name (or delegates to a lookup that does)", ok,
                "" if ok else f"`{show(rt, 90)}` compares the method name case-sensitively", construct=f"{f.cls.name if f.cls else ''}.is_supported")
        if delegated:
            # a delegating implementation hands the name over as received: `plugin/method` is resolved by the lookup
            # it delegates to (only the named plug-in is consulted); cutting components off turns it into a discovery
            pterm = ("param", f.qualname, pname)
            for s_ in subterms(rt):
                if s_[0] == "call" and s_[1][0] == "attr" and s_[1][2] == "is_supported":
                    args = [a for a in list(s_[2]) + [v for _k, v in s_[3]] if contains(a, lambda y: y == pterm)]
                    ok2 = bool(args) and all(a == pterm or (a[0] == "call" and a[1][0] == "attr" and a[1][2] in ("lower", "casefold") and a[1][1] == pterm) for a in args)
                    res.add(f, f.node, "a delegating is_supported passes the method name on unchanged (the named-plug-in form is resolved by the lookup it delegates to)", ok2,
                            "" if ok2 else f"the lookup is asked for `{show(args[0], 70) if args else '?'}` instead of the requested name: `plugin/method` requests are answered by discovery",
                            construct=f"{f.cls.name if f.cls else ''}.is_supported: delegated name")
    if n_keys < 4 and all(i.ok for i in res.instances):
        raise AnalysisError(f"only {n_keys} registry key uses found")
    res.floor = 8
    return res


@rule(P)
def c19_2(ctx: Ctx) -> RuleResult:
    res = RuleResult("C19.2", "DOM", "lookup structure of add_plugin / get_plugin / is_supported")
    c, init, reg, _n = _registry_field(ctx)
    X = ctx.X
    add, get, sup = c.methods.get("add_plugin"), c.methods.get("get_plugin"), c.methods.get("is_supported")
    if add is None or get is None or sup is None:
        raise AnalysisError("add_plugin / get_plugin / is_supported not found")
    CONFIG_ERR = "ropt.exceptions.ConfigError"

    from ..util import bool_nnf, path_condition

    def lits_at(f_, stmt, extra=()):
        pc = list(path_condition(ctx, f_, stmt)) + list(extra)
        if not pc:
            return []
        g_ = bool_nnf(("bool", "and", tuple(c_ if p else ("unary", "not", c_) for c_, p in pc)))
        return [(it[1], it[2]) for it in (g_[1] if g_[0] == "and" else [g_]) if it[0] == "lit"]

    def stmt_of(n_):
        while parent(n_) is not None and not isinstance(n_, ast.stmt):
            n_ = parent(n_)
        return n_

    # ---- add_plugin: duplicate check raises before any store
    cfg = cfg_of(ctx.repo, add)
    pf = PathFinder(cfg, dataflow_of(ctx.repo, add))
    dup_tests = set()
    for n in nodes_in(add, ast.If):
        t = n.test
        if isinstance(t, ast.Compare) and len(t.ops) == 1 and isinstance(t.ops[0], ast.In) and _is_subreg(ctx, add, t.comparators[0], reg):
            if any(isinstance(x, ast.Raise) and CONFIG_ERR == cfg._exc_qual(x.exc) for s in n.body for x in ast.walk(s)):
                dup_tests.update(cfg.node_containing(t))
    item_stores, replace_stores = [], []
    for n in nodes_in(add, ast.Assign):
        for t in n.targets:
            if isinstance(t, ast.Subscript) and _is_subreg(ctx, add, t.value, reg):
                item_stores.append(n)
            elif isinstance(t, ast.Subscript) and _is_reg(ctx, add, t.value, reg):
                replace_stores.append(n)
    stores = item_stores + replace_stores
    def dup_says(lits):
        """True: the name is already registered; False: it is not; None: not tested on this path"""
        for a_, p_ in lits:
            if a_[0] == "cmp" and a_[1] in ("in", "not in") and _term_is_subreg(a_[3], reg):
                return p_ if a_[1] == "in" else not p_
        return None

    raises_dup = any(CONFIG_ERR == cfg._exc_qual(r_.exc) and dup_says(lits_at(add, r_)) is True for r_ in nodes_in(add, ast.Raise) if r_.exc is not None)
    for s_ in stores:
        # dominated by the raising test, or (the same thing written positively) reached only where the name is not registered
        ok = (bool(dup_tests) and all(any(cfg.dominates(d, sn) for d in dup_tests) for sn in cfg.node_containing(s_))) or \
            (raises_dup and dup_says(lits_at(add, s_)) is False)
        res.add(add, s_, "the duplicate-name test (raising ConfigError) precedes every registry store", ok,
                "" if ok else "a plug-in can be registered without the duplicate check: an existing name is silently replaced", construct=f"add_plugin: {norm_stmt(s_)[:60]}")
    # prioritised insertion: a new dict starting with the new name, then the old registry in its order;
    # normal registration appends (item store)
    ok = False
    why = "prioritised plug-ins are not placed before the existing ones (or existing order is lost)"
    prio_p = ("param", add.qualname, "prioritize") if "prioritize" in add.params else None

    def prio_pol(lits):
        for a, p in lits:
            if a == prio_p:
                return p
        return None

    plugin_p = ("param", add.qualname, add.positional[-1] if "plugin" not in add.params else "plugin")

    def _old(t):
        """the previous per-type dict, possibly copied (`dict(old)`, `old.copy()`, `old.items()`)"""
        while t[0] == "call" and ((t[1] == ("builtin", "dict") and len(t[2]) == 1) or (t[1][0] == "attr" and t[1][2] in ("copy", "items") and not t[2])):
            t = t[2][0] if t[1][0] == "builtin" else t[1][1]
        return _term_is_subreg(t, reg)

    def _only_new(t):
        return t[0] == "dict" and len(t[1]) == 1 and t[1][0][0][0] != "star" and t[1][0][1] == plugin_p and _is_lowered(ctx, t[1][0][0])

    def _new_then_old(t):
        """the value is a new dict: first the new name, then every entry of the previous dict in its order"""
        if t[0] == "dict" and len(t[1]) == 2 and _only_new(("dict", t[1][:1])) and t[1][1][0][0] == "star" and _old(t[1][1][1]):
            return True  # {new: plugin, **old}
        if t[0] == "mut" and t[2] == "update" and _only_new(t[1]) and t[3][0] == "call" and len(t[3][2]) == 1 and not t[3][3] and _old(t[3][2][0]):
            return True  # d = {new: plugin}; d.update(old)
        if t[0] == "binop" and t[1] == "|" and _only_new(t[2]) and _old(t[3]):
            return True  # {new: plugin} | old
        return False

    for rs_ in replace_stores:
        if prio_p is None or prio_pol(lits_at(add, rs_)) is not True:
            continue
        vt_ = X.force_inline(X.at(add, rs_.value), add, effects=True)
        if all(_new_then_old(a_) for a_ in (vt_[1] if vt_[0] == "phi" else [vt_])) and [i_ for i_ in item_stores if prio_pol(lits_at(add, i_)) is False]:
            ok = True
            continue
        d_ = rs_.value
        if not isinstance(d_, ast.Dict) or not d_.keys or d_.keys[0] is None:
            continue
        first_is_new = X.at(add, d_.values[0]) == ("param", add.qualname, add.positional[-1] if "plugin" not in add.params else "plugin") and _is_lowered(ctx, X.at(add, d_.keys[0]))
        rest_ok = False
        if len(d_.keys) == 2 and d_.keys[1] is None and _is_subreg(ctx, add, d_.values[1], reg):
            rest_ok = True  # {new: plugin, **old}
        elif len(d_.keys) == 1:
            # old = registry[type]  (before) ... registry[type] = {new: plugin} ... registry[type].update(old)  (after)
            saved = [a_ for a_ in nodes_in(add, ast.Assign) if a_.lineno < rs_.lineno and isinstance(a_.targets[0], ast.Name) and _is_subreg(ctx, add, a_.value, reg)]
            upd = [c_ for c_ in calls_in(add) if isinstance(c_.func, ast.Attribute) and c_.func.attr == "update" and c_.lineno > rs_.lineno and c_.args and _is_subreg(ctx, add, c_.func.value, reg)]
            rest_ok = bool(saved) and any(any(isinstance(x, ast.Name) and x.id == saved[0].targets[0].id for x in ast.walk(u.args[0])) for u in upd)
        appends = [i_ for i_ in item_stores if prio_pol(lits_at(add, i_)) is False]
        if first_is_new and rest_ok and appends:
            ok = True
    res.add(add, replace_stores[0] if replace_stores else add.node, "prioritised registration rebuilds the registry with the new plug-in first, then all previous ones in their order; normal registration appends", ok,
            "" if ok else why, construct="add_plugin: prioritised first")

    # ---- get_plugin
    cfg = cfg_of(ctx.repo, get)
    pf = PathFinder(cfg, dataflow_of(ctx.repo, get))
    # split on the first '/'
    splits = [cl for cl in calls_in(get) if isinstance(cl.func, ast.Attribute) and cl.func.attr in ("split", "partition")]
    ok = any((cl.func.attr == "partition") or any(kw.arg == "maxsplit" and isinstance(kw.value, ast.Constant) and kw.value.value == 1 for kw in cl.keywords) for cl in splits) and all(
        cl.args and isinstance(cl.args[0], ast.Constant) and cl.args[0].value == "/" for cl in splits)
    res.add(get, splits[0] if splits else get.node, "the method specification is split on the first '/' only", ok, "" if ok else "method names containing '/' are split wrongly", construct="get_plugin: split")
    # return sites of plug-ins: in get_plugin and in the private lookup helpers it calls
    lookup_funcs = [(get, [])]
    frames: dict = {}  # helper -> its parameters expressed in get_plugin's frame (module-level helpers receive the registry)
    for call_, cs, _k in ctx.cg.all_callees(get):
        for g in cs:
            if g.cls is c and g is not get and g.name.startswith("_") and not any(g is f_ for f_, _l in lookup_funcs):
                lookup_funcs.append((g, lits_at(get, stmt_of(call_))))
            elif g.cls is None and g.outer is None and g.module is c.module and g.name.startswith("_") and not any(g is f_ for f_, _l in lookup_funcs):
                from ..callgraph import bind_args

                ct_ = X.at(get, call_)
                if ct_[0] == "call":
                    frames[g.qualname] = {("param", g.qualname, k_): v_ for k_, v_ in bind_args(g, ct_, False).items()}
                    lookup_funcs.append((g, lits_at(get, stmt_of(call_))))
    explicit_sites, disc_sites = [], []
    from ..util import gated_values

    seen_sites = set()
    for f_, outer in lookup_funcs:
        for r_ in nodes_in(f_, ast.Return):
            if r_.value is None:
                continue
            base_lits = lits_at(f_, r_) + outer
            # the alternatives of the returned value with the conditions under which each was chosen
            for conds, leaf in gated_values(ctx, f_, r_.value):
                extra = [(a_, p_) for a_, p_ in conds]
                lits = base_lits + lits_at(f_, r_, extra)
                if f_.qualname in frames:
                    from ..util import subst_params

                    leaf = subst_params(leaf, frames[f_.qualname])
                    lits = [(subst_params(a_, frames[f_.qualname]), p_) for a_, p_ in lits]
                for a in _strip_alts(leaf):
                    key = (_norm(a), f_.qualname)
                    if a[0] == "call" and a[1][0] == "attr" and a[1][2] == "get" and any(b[0] == "sub" for b in _strip_alts(a[1][1])) and _term_is_subreg(a[1][1], reg):
                        if key not in seen_sites:
                            seen_sites.add(key)
                            explicit_sites.append((f_, r_, a, lits))
                    elif a[0] == "iter" and a[1][0] == "call" and a[1][1][0] == "attr" and a[1][1][2] == "values" and _term_is_subreg(a[1][1][1], reg):
                        if key not in seen_sites:
                            seen_sites.add(key)
                            disc_sites.append((f_, r_, a, lits))
    # the same lookup seen twice - in a module-level helper and again, through the helper's value, at the return of
    # get_plugin that hands the helper's result on: one site (the helper's own, whose conditions are the direct ones)
    def _dedupe(sites):
        by_term: dict = {}
        for site in sites:
            by_term.setdefault(_norm(site[2]), []).append(site)
        out_ = []
        for group in by_term.values():
            own = [s_ for s_ in group if s_[0] is not get]
            out_.append(own[0] if own and len(group) > 1 and any(s_[0] is get for s_ in group) else group[0])
            if not (own and len(group) > 1 and any(s_[0] is get for s_ in group)):
                out_.extend(group[1:])
        return out_

    explicit_sites, disc_sites = _dedupe(explicit_sites), _dedupe(disc_sites)
    explicit_ok = len(explicit_sites) == 1
    import os as _os
    if _os.environ.get("C19_DEBUG"):
        print("SITES", len(explicit_sites), len(disc_sites))
    if explicit_ok:
        f_, r_, rv0, lits = explicit_sites[0]
        rv = _norm(rv0)
        truthy = any(p and a == rv for a, p in lits) or any((not p) and a[0] == "cmp" and a[1] == "is" and a[2] == rv and a[3] == ("const", None) for a, p in lits)
        sup_ok = any(p and a[0] == "call" and a[1] == ("attr", rv, "is_supported") for a, p in lits)
        key_ok = bool(rv0[2]) and _is_lowered(ctx, rv0[2][0])
        explicit_ok = truthy and sup_ok and key_ok
        import os as _os
        if _os.environ.get("C19_DEBUG"):
            print("EXPL", truthy, sup_ok, key_ok, show(rv, 80), [(show(a, 60), p) for a, p in lits])
    disc_ok = len(disc_sites) == 1
    if disc_ok:
        f_, r_, rv0, lits = disc_sites[0]
        rv = _norm(rv0)
        has_flag = any(p and a == ("attr", rv, "allows_discovery") for a, p in lits)
        has_sup = any(p and a[0] == "call" and a[1] == ("attr", rv, "is_supported") for a, p in lits)
        unordered = contains(rv, lambda s_: s_[0] == "call" and s_[1][0] == "builtin" and s_[1][1] in ("sorted", "reversed", "set"))
        in_loop = False
        cur = parent(r_)
        while cur is not None and cur is not f_.node:
            if isinstance(cur, ast.For):
                in_loop = True
            cur = parent(cur)
        if not in_loop:
            # the match is stored and the loop left at once (`found = plugin; break`, as an inlined helper's return)
            for asg in nodes_in(f_, ast.Assign):
                if any(_norm(a_) == rv for a_ in _strip_alts(X.at(f_, asg.value))):
                    par_ = parent(asg)
                    for fld in ("body", "orelse"):
                        lst = getattr(par_, fld, None)
                        if isinstance(lst, list) and any(x is asg for x in lst):
                            i_ = next(i for i, x in enumerate(lst) if x is asg)
                            rest_ = lst[i_ + 1:]
                            if any(isinstance(x, ast.Break) for x in rest_) and all(isinstance(x, (ast.Assign, ast.Break)) for x in rest_[: [isinstance(x, ast.Break) for x in rest_].index(True) + 1]):
                                anc = parent(asg)
                                while anc is not None and anc is not f_.node:
                                    if isinstance(anc, ast.For):
                                        in_loop = True
                                    anc = parent(anc)
        disc_ok = has_flag and has_sup and not unordered and in_loop
    # the two lookups exclude each other: one test (on the split result) separates them
    if explicit_ok and disc_ok:
        le, ld = explicit_sites[0][3], disc_sites[0][3]
        from ..util import strict_lt

        le, ld = [strict_lt(a, p) for a, p in le], [strict_lt(a, p) for a, p in ld]
        excl = any(a == b and p != q for a, p in le for b, q in ld)
        if not excl:
            explicit_ok = False
        # ... and that test asks whether a '/' is present, never whether the part after it is non-empty:
        # `name/` names a plug-in (with an empty method), it is not a bare method called `name`
        def _tail_of_split(t_):
            if t_[0] in ("item", "sub") and t_[1][0] == "call" and t_[1][1][0] == "attr":
                k_ = t_[2] if t_[0] == "item" else (t_[2][1] if t_[2][0] == "const" else None)
                meth = t_[1][1][2]
                return (meth == "partition" and k_ in (2, -1)) or (meth == "split" and k_ in (1, -1)) or (meth == "rpartition" and k_ in (2, -1))
            return False

        seps = [a for a, p in le for b, q in ld if a == b and p != q]
        tail_tests = [a for a in seps if _tail_of_split(a) or (a[0] == "cmp" and a[1] in ("==", "!=") and any(_tail_of_split(x) for x in (a[2], a[3])))
                      or (a[0] == "call" and a[1] == ("builtin", "len") and a[2] and _tail_of_split(a[2][0]))]
        ok_sep = not tail_tests or len(tail_tests) < len(set(seps))
        res.add(get, get.node, "the explicit and the discovery lookup are separated by the presence of '/', not by the method part being non-empty", ok_sep,
                "" if ok_sep else f"the branch is chosen on `{show(tail_tests[0], 70)}`: a request `name/` (empty method part) is looked up as the bare method `name` in every discoverable plug-in",
                construct="get_plugin: explicit / discovery separator")
    res.add(get, get.node, "an explicit `plugin/method` consults only the named plug-in and returns it iff it exists and supports the method", explicit_ok,
            "" if explicit_ok else "the explicit path does not return exactly the named, supporting plug-in", construct="get_plugin: explicit path")
    res.add(get, get.node, "a bare method name returns the first plug-in in registry order with allows_discovery and is_supported", disc_ok,
            "" if disc_ok else "discovery does not honour the flag / registry order / first match", construct="get_plugin: discovery path")
    # failure raises ConfigError: no normal exit without a return, and a returned lookup result is never None
    path = pf.find_path(cfg.entry, lambda m: m is cfg.exit, edge_ok=lambda a, b, lab: lab != "return")
    none_ret = None
    for r_ in nodes_in(get, ast.Return):
        if r_.value is None:
            none_ret = r_
            continue
        rv = X.value_at(get, r_.value)
        if any(a == ("const", None) for _c, a in _leaves(rv)):
            lits = lits_at(get, r_)
            name_t = X.at(get, r_.value)
            if not any((not p) and a[0] == "cmp" and a[1] == "is" and a[3] == ("const", None) and a[2] == name_t for a, p in lits) and not any(p and a == name_t for a, p in lits):
                none_ret = r_
    ok = path is None and none_ret is None
    res.add(get, get.node, "every path without a match ends in `raise ConfigError`", ok,
            "" if ok else "lookup can fall off the end and return None", [] if path is None else describe_path(get, path), construct="get_plugin: failure raises")
    raises = [cfg._exc_qual(x.exc) for x in nodes_in(get, ast.Raise) if x.exc is not None]
    ok = bool(raises) and all(q == CONFIG_ERR for q in raises)
    res.add(get, get.node, "lookup failures raise ConfigError", ok, "" if ok else f"raises {raises}", construct="get_plugin: raises ConfigError")

    # ---- is_supported: try get_plugin except ConfigError -> False else True
    tries = [n for n in nodes_in(sup, ast.Try)]
    ok = len(tries) == 1
    if ok:
        t = tries[0]
        calls_get = any(isinstance(x, ast.Call) and isinstance(x.func, ast.Attribute) and x.func.attr == "get_plugin" for s in t.body for x in ast.walk(s))
        scfg = cfg_of(ctx.repo, sup)
        hb = t.handlers[0].body if len(t.handlers) == 1 else []
        false_const = lambda v: isinstance(v, ast.Constant) and v.value is False  # noqa: E731
        h_ok = len(t.handlers) == 1 and scfg._handler_classes(t.handlers[0]) == [CONFIG_ERR] and len(hb) == 1 and (
            (isinstance(hb[0], ast.Return) and false_const(hb[0].value)) or (isinstance(hb[0], ast.Assign) and isinstance(hb[0].targets[0], ast.Name) and false_const(hb[0].value)))
        # True is produced only where the lookup did not raise: in the try body after the call, in `else`, or after the statement
        rt = X.return_term(sup)
        vals = {a[1] for a in (rt[1] if rt[0] == "phi" else (rt,)) if a[0] == "const"}
        only_consts = all(a[0] == "const" for a in (rt[1] if rt[0] == "phi" else (rt,)))
        trues = [x for x in ast.walk(sup.node) if isinstance(x, ast.Constant) and x.value is True]
        true_ok = bool(trues) and not any(any(x is y for h_ in t.handlers for s_ in h_.body for y in ast.walk(s_)) for x in trues)
        # same arguments forwarded
        fw = [x for s in t.body for x in ast.walk(s) if isinstance(x, ast.Call) and isinstance(x.func, ast.Attribute) and x.func.attr == "get_plugin"]
        args_ok = bool(fw) and [ast.unparse(a) for a in fw[0].args] == sup.positional[1:3]
        ok = calls_get and h_ok and vals == {True, False} and only_consts and true_ok and args_ok
    res.add(sup, sup.node, "is_supported is True exactly when get_plugin (same arguments) does not raise ConfigError", ok,
            "" if ok else "is_supported is not `lookup did not raise ConfigError`", construct="is_supported wraps get_plugin")
    # the external optimizer is not discoverable
    ext = ctx.repo.classes.get("ropt.plugins.optimizer.external.ExternalOptimizerPlugin")
    if ext is not None:
        m = ext.methods.get("allows_discovery")
        ok = m is not None and X.return_term(m) == ("const", False)
        res.add(m, m.node if m else ext.node, "the external optimizer plug-in disallows discovery", ok, "" if ok else "external optimizer can be returned for a bare method name",
                construct="ExternalOptimizerPlugin.allows_discovery", where=None if m else ext.module.relpath, fname=None if m else ext.qualname)
    base = ctx.repo.classes.get("ropt.plugins.base.Plugin")
    if base is not None and "allows_discovery" in base.methods:
        ok = X.return_term(base.methods["allows_discovery"]) == ("const", True)
        res.add(base.methods["allows_discovery"], base.methods["allows_discovery"].node, "plug-ins are discoverable by default", ok, construct="Plugin.allows_discovery default")
    res.floor = 9
    return res


@rule(P)
def c19_3(ctx: Ctx) -> RuleResult:
    res = RuleResult("C19.3", "WHO", "the registry is per-manager instance state")
    c, init, reg, node = _registry_field(ctx)
    # created by a dict literal of dict literals in __init__ (fresh objects per instance)
    def fresh_empty(v):
        return (isinstance(v, ast.Dict) and not v.keys) or (isinstance(v, ast.Call) and isinstance(v.func, ast.Name) and v.func.id == "dict" and not v.args and not v.keywords)

    comp_keys = None
    if isinstance(node.value, ast.DictComp) and len(node.value.generators) == 1 and not node.value.generators[0].ifs \
            and isinstance(node.value.generators[0].target, ast.Name) and isinstance(node.value.key, ast.Name) and node.value.key.id == node.value.generators[0].target.id:
        # {plugin_type: {} for plugin_type in get_args(PluginType)}: one fresh dict per key, the keys are the members of the Literal
        it = node.value.generators[0].iter
        if isinstance(it, ast.Call) and isinstance(it.func, ast.Name) and it.func.id == "get_args" and len(it.args) == 1 and isinstance(it.args[0], ast.Name):
            for mod in ctx.repo.modules.values():
                lit = mod.constants.get(it.args[0].id)
                if isinstance(lit, ast.Subscript) and (dotted(lit.value) or "").split(".")[-1] == "Literal":
                    elts = lit.slice.elts if isinstance(lit.slice, ast.Tuple) else [lit.slice]
                    if all(isinstance(e, ast.Constant) for e in elts):
                        comp_keys = {e.value for e in elts}
        elif isinstance(it, (ast.Tuple, ast.List)) and all(isinstance(e, ast.Constant) for e in it.elts):
            comp_keys = {e.value for e in it.elts}
    ok = (isinstance(node.value, ast.Dict) and all(fresh_empty(v) for v in node.value.values)) or (comp_keys is not None and fresh_empty(node.value.value))
    res.add(init, node, "the registry is a fresh dict of fresh empty dicts created in __init__", ok,
            "" if ok else "registry sub-dicts are shared objects", construct="registry created in __init__")
    # not a class attribute
    ok = reg not in c.fields
    res.add(None, c.node, "the registry is not a class-level attribute", ok, "" if ok else "class-level registry is shared by all managers",
            construct="registry not class-level", where=f"{c.module.relpath}:{c.node.lineno}", fname=c.qualname)
    # all plug-in types of the Literal are initialised
    types = ctx.repo.module("ropt.plugins._manager").constants.get("_PLUGIN_TYPES")
    keys = {k.value for k in types.keys} if isinstance(types, ast.Dict) else set()
    have = {k.value for k in node.value.keys if isinstance(k, ast.Constant)} if isinstance(node.value, ast.Dict) else (comp_keys or set())
    res.add(init, node, "every plug-in type has its own registry", keys == have and bool(keys), "" if keys == have else f"types {sorted(keys ^ have)} differ",
            construct="registry covers all plugin types")
    # writers: only __init__ and add_plugin store into it
    for m in c.methods.values():
        for n in nodes_in(m, (ast.Assign, ast.AugAssign, ast.Delete)):
            targets = n.targets if isinstance(n, (ast.Assign, ast.Delete)) else [n.target]
            if any(reg in ast.unparse(t) for t in targets):
                ok = m.name in ("__init__", "add_plugin")
                res.add(m, n, "only __init__ and add_plugin write the registry", ok, "" if ok else "lookups must not modify the registry", construct=f"{m.name}: write registry")
        for call in calls_in(m):
            if isinstance(call.func, ast.Attribute) and call.func.attr in ("update", "pop", "clear", "setdefault", "popitem") and reg in ast.unparse(call.func.value):
                ok = m.name in ("__init__", "add_plugin")
                res.add(m, call, "only __init__ and add_plugin mutate the registry", ok, "" if ok else "lookups must not modify the registry", construct=f"{m.name}: mutate registry")
    # the registry is the manager's only state, and lookups never write anything
    fields_written = {}
    for m in c.methods.values():
        if not m.positional:
            continue
        selfn = m.positional[0]
        for n in ast.walk(m.node):
            targets = []
            if isinstance(n, ast.Assign):
                targets = n.targets
            elif isinstance(n, (ast.AugAssign, ast.AnnAssign)):
                targets = [n.target] if getattr(n, "value", None) is not None or isinstance(n, ast.AugAssign) else []
            elif isinstance(n, ast.Delete):
                targets = n.targets
            for t in targets:
                base = t
                while isinstance(base, (ast.Subscript, ast.Attribute)) and not (isinstance(base, ast.Attribute) and isinstance(base.value, ast.Name) and base.value.id == selfn):
                    base = base.value
                if isinstance(base, ast.Attribute) and isinstance(base.value, ast.Name) and base.value.id == selfn:
                    fields_written.setdefault(base.attr, []).append((m, n))
            if isinstance(n, ast.Call) and isinstance(n.func, ast.Attribute) and n.func.attr in ("update", "pop", "clear", "setdefault", "popitem", "append", "add", "remove", "insert", "extend"):
                base = n.func.value
                while isinstance(base, (ast.Subscript, ast.Attribute)) and not (isinstance(base, ast.Attribute) and isinstance(base.value, ast.Name) and base.value.id == selfn):
                    base = base.value
                if isinstance(base, ast.Attribute) and isinstance(base.value, ast.Name) and base.value.id == selfn:
                    fields_written.setdefault(base.attr, []).append((m, n))
    for fld, sites in sorted(fields_written.items()):
        for m, n in sites:
            ok = m.name in ("__init__", "add_plugin") and fld == reg
            if m.name == "__init__" and fld != reg:
                ok = False
            res.add(m, n, "the manager keeps no state besides the registry, written only by __init__ / add_plugin (lookups are side-effect free)", ok,
                    "" if ok else f"`{m.name}` writes `self.{fld}`: lookups depend on (and change) hidden state, so the same request can resolve differently after registrations",
                    construct=f"{m.name}: writes self.{fld}")
    # memoising decorators on the manager's methods are hidden state as well (results of earlier lookups survive registrations)
    for m in c.methods.values():
        memo = [d for d in m.decorators if d.split("(")[0].split(".")[-1] in ("cache", "lru_cache", "cached_property", "memoize")]
        ok = not memo
        res.add(m, m.node, "the manager's methods are not memoised (a lookup is answered from the registry as it is now)", ok,
                "" if ok else f"`{m.name}` is decorated with `{memo[0]}`: answers given before a registration are repeated after it (is_supported and get_plugin disagree)",
                construct=f"{m.name}: not memoised")
    res.floor = 5
    return res
