"""C19 - plug-in lookup is deterministic, case-insensitive and side-effect free.

  C19.1 FLOW every key used on the registry is lower-cased; is_supported implementations lower-case
  C19.2 DOM  lookup structure: explicit path consults one plug-in; discovery honours the
             flag, registry order, first match; prioritised insertion first; duplicates
             and failures raise ConfigError; is_supported == lookup did not raise
  C19.3 WHO  registries are per-manager instance state
"""

from __future__ import annotations

import ast

from ..cfg import cfg_of
from ..core import META, Ctx, RuleResult, rule
from ..dataflow import dataflow_of
from ..model import AnalysisError, Func, dotted, norm_stmt, parent
from ..paths import PathFinder, describe_path
from ..terms import Term, contains, root_of, show, subterms
from ..util import calls_in, nodes_in

P = "C19"
MGR = "ropt.plugins._manager.PluginManager"

META[P] = {
    "explanation": (
        "Key provenance (every registry key derives from str.lower()), path structure of add_plugin / get_plugin / is_supported on their CFGs, and "
        "an isolation sweep showing the registry is per-instance state created by a dict literal in __init__."
    ),
    "not_decided": ["behaviour of third-party plug-ins' is_supported implementations"],
}


def _registry_field(ctx: Ctx):
    c = ctx.repo.cls(MGR)
    init = c.methods.get("__init__")
    if init is None:
        raise AnalysisError("PluginManager.__init__ not found")
    for n in nodes_in(init, (ast.Assign, ast.AnnAssign)):
        targets = n.targets if isinstance(n, ast.Assign) else [n.target]
        for t in targets:
            if isinstance(t, ast.Attribute) and isinstance(n.value, ast.Dict):
                return c, init, t.attr, n
    raise AnalysisError("registry dict of the plug-in manager not found")


def _is_lowered(ctx: Ctx, t: Term) -> bool:
    """t is `<x>.lower()` / casefold, or derived from one by indexing/splitting."""
    if t[0] == "phi":
        return all(_is_lowered(ctx, a) for a in t[1])
    if t[0] == "call" and t[1][0] == "attr" and t[1][2] in ("lower", "casefold") and not t[2]:
        return True
    if t[0] in ("sub", "item"):
        return _is_lowered(ctx, t[1])
    if t[0] == "call" and t[1][0] == "attr" and t[1][2] in ("split", "rpartition", "partition", "strip"):
        return _is_lowered(ctx, t[1][1])
    if t[0] == "iter":
        return _is_lowered(ctx, t[1])
    return False


@rule(P)
def c19_1(ctx: Ctx) -> RuleResult:
    res = RuleResult("C19.1", "FLOW", "registry keys and supported-method tests are case-insensitive (derive from str.lower())")
    c, init, reg, _n = _registry_field(ctx)
    X = ctx.X
    n_keys = 0
    for m in c.methods.values():
        if m is init:
            continue
        # keys: self._plugins[type][KEY], self._plugins[type].get(KEY), KEY in self._plugins[type], {KEY: plugin}
        for node in nodes_in(m, (ast.Subscript, ast.Call, ast.Compare, ast.Dict)):
            keys = []
            if isinstance(node, ast.Subscript) and isinstance(node.value, ast.Subscript) and reg in ast.unparse(node.value.value):
                keys.append(node.slice)
            elif isinstance(node, ast.Call) and isinstance(node.func, ast.Attribute) and node.func.attr in ("get", "pop", "setdefault") and reg in ast.unparse(node.func.value) and node.args:
                keys.append(node.args[0])
            elif isinstance(node, ast.Compare) and len(node.ops) == 1 and isinstance(node.ops[0], (ast.In, ast.NotIn)) and reg in ast.unparse(node.comparators[0]):
                keys.append(node.left)
            elif isinstance(node, ast.Dict):
                p_ = parent(node)
                if isinstance(p_, ast.Assign) and any(reg in ast.unparse(t) for t in p_.targets):
                    keys += [k for k in node.keys if k is not None]
            for k in keys:
                n_keys += 1
                t = X.at(m, k)
                ok = _is_lowered(ctx, t)
                res.add(m, k, "the plug-in name used as registry key is lower-cased", ok,
                        "" if ok else f"key `{show(t, 60)}` is used with its original case: names differing in case do not find / do not collide with each other",
                        construct=f"{m.name}: key {ast.unparse(k)[:40]}")
    # is_supported implementations
    for f in ctx.repo.implementations("ropt.plugins.base.Plugin", "is_supported"):
        rt = X.return_term(f)
        pname = f.positional[1] if len(f.positional) > 1 else "method"
        uses = [s for s in subterms(rt) if s == ("param", f.qualname, pname)]
        lowered = [s for s in subterms(rt) if s[0] == "call" and s[1][0] == "attr" and s[1][2] in ("lower", "casefold") and s[1][1] == ("param", f.qualname, pname)]
        delegated = any(s[0] == "call" and s[1][0] == "attr" and s[1][2] == "is_supported" for s in subterms(rt))
        # every occurrence of the parameter is inside .lower() (or handed to another is_supported)
        ok = (bool(lowered) and len(uses) == len(lowered)) or delegated
        res.add(f, f.node, "is_supported compares the lower-cased method name (or delegates to a lookup that does)", ok,
                "" if ok else f"`{show(rt, 90)}` compares the method name case-sensitively", construct=f"{f.cls.name if f.cls else ''}.is_supported")
    if n_keys < 4:
        raise AnalysisError(f"only {n_keys} registry key uses found")
    res.floor = 8
    return res


@rule(P)
def c19_2(ctx: Ctx) -> RuleResult:
    res = RuleResult("C19.2", "DOM", "lookup structure of add_plugin / get_plugin / is_supported")
    c, init, reg, _n = _registry_field(ctx)
    X = ctx.X
    add, get, sup = c.methods.get("add_plugin"), c.methods.get("get_plugin"), c.methods.get("is_supported")
    if add is None or get is None or sup is None:
        raise AnalysisError("add_plugin / get_plugin / is_supported not found")
    CONFIG_ERR = "ropt.exceptions.ConfigError"

    # ---- add_plugin: duplicate check raises before any store
    cfg = cfg_of(ctx.repo, add)
    pf = PathFinder(cfg, dataflow_of(ctx.repo, add))
    dup_tests = set()
    for n in nodes_in(add, ast.If):
        t = n.test
        if isinstance(t, ast.Compare) and isinstance(t.ops[0], ast.In) and reg in ast.unparse(t.comparators[0]):
            if any(isinstance(x, ast.Raise) and CONFIG_ERR == cfg._exc_qual(x.exc) for s in n.body for x in ast.walk(s)):
                dup_tests.update(cfg.node_containing(t))
    stores = [n for n in nodes_in(add, ast.Assign) if any(reg in ast.unparse(t) for t in n.targets)]
    for s in stores:
        ok = bool(dup_tests) and all(any(cfg.dominates(d, sn) for d in dup_tests) for sn in cfg.node_containing(s))
        res.add(add, s, "the duplicate-name test (raising ConfigError) precedes every registry store", ok,
                "" if ok else "a plug-in can be registered without the duplicate check: an existing name is silently replaced", construct=f"add_plugin: {norm_stmt(s)[:60]}")
    # prioritised insertion: new dict starting with the new name, then update with the old registry
    prio = [n for n in nodes_in(add, ast.If) if isinstance(n.test, ast.Name) and n.test.id == "prioritize"]
    ok = False
    if prio:
        body = prio[0].body
        new_dicts = [s for s in body if isinstance(s, ast.Assign) and isinstance(s.value, ast.Dict) and len(s.value.keys) == 1 and any(reg in ast.unparse(t) for t in s.targets)]
        updates = [s for s in body if isinstance(s, ast.Expr) and isinstance(s.value, ast.Call) and isinstance(s.value.func, ast.Attribute) and s.value.func.attr == "update"]
        saved = [s for s in body if isinstance(s, ast.Assign) and reg in ast.unparse(s.value) and isinstance(s.targets[0], ast.Name)]
        if new_dicts and updates and saved:
            order_ok = body.index(saved[0]) < body.index(new_dicts[0]) < body.index(updates[0])
            upd_arg = ast.unparse(updates[0].value.args[0]) if updates[0].value.args else ""
            ok = order_ok and saved[0].targets[0].id in upd_arg
        # the non-prioritised branch appends at the end
        plain = [s for s in prio[0].orelse if isinstance(s, ast.Assign) and isinstance(s.targets[0], ast.Subscript)]
        ok = ok and bool(plain)
    res.add(add, prio[0] if prio else add.node, "prioritised registration rebuilds the registry with the new plug-in first, then all previous ones in their order; normal registration appends", ok,
            "" if ok else "prioritised plug-ins are not placed before the existing ones (or existing order is lost)", construct="add_plugin: prioritised first")

    # ---- get_plugin
    cfg = cfg_of(ctx.repo, get)
    pf = PathFinder(cfg, dataflow_of(ctx.repo, get))
    # split on the first '/'
    splits = [cl for cl in calls_in(get) if isinstance(cl.func, ast.Attribute) and cl.func.attr in ("split", "partition")]
    ok = any((cl.func.attr == "partition") or any(kw.arg == "maxsplit" and isinstance(kw.value, ast.Constant) and kw.value.value == 1 for kw in cl.keywords) for cl in splits) and all(
        cl.args and isinstance(cl.args[0], ast.Constant) and cl.args[0].value == "/" for cl in splits)
    res.add(get, splits[0] if splits else get.node, "the method specification is split on the first '/' only", ok, "" if ok else "method names containing '/' are split wrongly", construct="get_plugin: split")
    loops = [n for n in nodes_in(get, ast.For)]
    branches = [n for n in nodes_in(get, ast.If) if "len(" in ast.unparse(n.test)]
    ok = len(loops) == 1 and len(branches) >= 1
    explicit_ok = disc_ok = False
    if ok:
        br, lp = branches[0], loops[0]
        explicit_body = br.body if ">" in ast.unparse(br.test) else br.orelse
        disc_body = br.orelse if ">" in ast.unparse(br.test) else br.body
        in_disc = any(lp is x for s in disc_body for x in ast.walk(s))
        in_expl = any(lp is x for s in explicit_body for x in ast.walk(s))
        # explicit: return only under `plugin and plugin.is_supported(method)`, plugin from registry.get(lowercase name)
        rets = [x for s in explicit_body for x in ast.walk(s) if isinstance(x, ast.Return)]
        explicit_ok = in_disc and not in_expl and len(rets) == 1
        if explicit_ok:
            r_ = rets[0]
            cond = parent(r_)
            ct = X.value_at(get, cond.test) if isinstance(cond, ast.If) else ("const", None)
            rv = X.at(get, r_.value)
            explicit_ok = (
                ct[0] == "bool" and ct[1] == "and" and ct[2][0] == rv
                and any(s[0] == "call" and s[1][0] == "attr" and s[1][2] == "is_supported" and s[1][1] == rv for s in subterms(ct))
                and rv[0] == "call" and rv[1][0] == "attr" and rv[1][2] == "get"
            )
        # discovery: iterate registry values in order; return first with allows_discovery and is_supported
        it = X.at(get, lp.iter)
        iter_ok = it[0] == "call" and it[1][0] == "attr" and it[1][2] == "values" and reg in show(it) and not contains(it, lambda s: s[0] == "call" and s[1][0] == "builtin" and s[1][1] in ("sorted", "reversed", "set"))
        rets = [x for s in lp.body for x in ast.walk(s) if isinstance(x, ast.Return)]
        disc_ok = iter_ok and len(rets) == 1
        if disc_ok:
            cond = parent(rets[0])
            ct = X.value_at(get, cond.test) if isinstance(cond, ast.If) else ("const", None)
            rv = X.at(get, rets[0].value)
            conj = list(ct[2]) if ct[0] == "bool" and ct[1] == "and" else [ct]
            has_flag = any(d[0] == "attr" and d[2] == "allows_discovery" and d[1] == rv for d in conj)
            has_sup = any(d[0] == "call" and d[1][0] == "attr" and d[1][2] == "is_supported" and d[1][1] == rv for d in conj)
            disc_ok = has_flag and has_sup and rv[0] == "iter"
    res.add(get, get.node, "an explicit `plugin/method` consults only the named plug-in and returns it iff it exists and supports the method", explicit_ok,
            "" if explicit_ok else "the explicit path does not return exactly the named, supporting plug-in", construct="get_plugin: explicit path")
    res.add(get, get.node, "a bare method name returns the first plug-in in registry order with allows_discovery and is_supported", disc_ok,
            "" if disc_ok else "discovery does not honour the flag / registry order / first match", construct="get_plugin: discovery path")
    # failure raises ConfigError: no normal exit without a return
    path = pf.find_path(cfg.entry, lambda m: m is cfg.exit, edge_ok=lambda a, b, lab: lab != "return")
    res.add(get, get.node, "every path without a match ends in `raise ConfigError`", path is None,
            "" if path is None else "lookup can fall off the end and return None", [] if path is None else describe_path(get, path), construct="get_plugin: failure raises")
    raises = [cfg._exc_qual(x.exc) for x in nodes_in(get, ast.Raise) if x.exc is not None]
    ok = bool(raises) and all(q == CONFIG_ERR for q in raises)
    res.add(get, get.node, "lookup failures raise ConfigError", ok, "" if ok else f"raises {raises}", construct="get_plugin: raises ConfigError")

    # ---- is_supported: try get_plugin except ConfigError -> False else True
    tries = [n for n in nodes_in(sup, ast.Try)]
    ok = len(tries) == 1
    if ok:
        t = tries[0]
        calls_get = any(isinstance(x, ast.Call) and isinstance(x.func, ast.Attribute) and x.func.attr == "get_plugin" for s in t.body for x in ast.walk(s))
        scfg = cfg_of(ctx.repo, sup)
        h_ok = len(t.handlers) == 1 and scfg._handler_classes(t.handlers[0]) == [CONFIG_ERR] and len(t.handlers[0].body) == 1 and isinstance(t.handlers[0].body[0], ast.Return) and isinstance(t.handlers[0].body[0].value, ast.Constant) and t.handlers[0].body[0].value.value is False
        rt = X.return_term(sup)
        vals = {a[1] for a in (rt[1] if rt[0] == "phi" else (rt,)) if a[0] == "const"}
        # same arguments forwarded
        fw = [x for s in t.body for x in ast.walk(s) if isinstance(x, ast.Call) and isinstance(x.func, ast.Attribute) and x.func.attr == "get_plugin"]
        args_ok = bool(fw) and [ast.unparse(a) for a in fw[0].args] == sup.positional[1:3]
        ok = calls_get and h_ok and vals == {True, False} and args_ok
    res.add(sup, sup.node, "is_supported is True exactly when get_plugin (same arguments) does not raise ConfigError", ok,
            "" if ok else "is_supported is not `lookup did not raise ConfigError`", construct="is_supported wraps get_plugin")
    # the external optimizer is not discoverable
    ext = ctx.repo.classes.get("ropt.plugins.optimizer.external.ExternalOptimizerPlugin")
    if ext is not None:
        m = ext.methods.get("allows_discovery")
        ok = m is not None and X.return_term(m) == ("const", False)
        res.add(m, m.node if m else ext.node, "the external optimizer plug-in disallows discovery", ok, "" if ok else "external optimizer can be returned for a bare method name",
                construct="ExternalOptimizerPlugin.allows_discovery", where=None if m else ext.module.relpath, fname=None if m else ext.qualname)
    base = ctx.repo.classes.get("ropt.plugins.base.Plugin")
    if base is not None and "allows_discovery" in base.methods:
        ok = X.return_term(base.methods["allows_discovery"]) == ("const", True)
        res.add(base.methods["allows_discovery"], base.methods["allows_discovery"].node, "plug-ins are discoverable by default", ok, construct="Plugin.allows_discovery default")
    res.floor = 9
    return res


@rule(P)
def c19_3(ctx: Ctx) -> RuleResult:
    res = RuleResult("C19.3", "WHO", "the registry is per-manager instance state")
    c, init, reg, node = _registry_field(ctx)
    # created by a dict literal of dict literals in __init__ (fresh objects per instance)
    ok = isinstance(node.value, ast.Dict) and all(isinstance(v, ast.Dict) and not v.keys for v in node.value.values)
    res.add(init, node, "the registry is a fresh dict of fresh empty dicts created in __init__", ok,
            "" if ok else "registry sub-dicts are shared objects", construct="registry created in __init__")
    # not a class attribute
    ok = reg not in c.fields
    res.add(None, c.node, "the registry is not a class-level attribute", ok, "" if ok else "class-level registry is shared by all managers",
            construct="registry not class-level", where=f"{c.module.relpath}:{c.node.lineno}", fname=c.qualname)
    # all plug-in types of the Literal are initialised
    types = ctx.repo.module("ropt.plugins._manager").constants.get("_PLUGIN_TYPES")
    keys = {k.value for k in types.keys} if isinstance(types, ast.Dict) else set()
    have = {k.value for k in node.value.keys if isinstance(k, ast.Constant)} if isinstance(node.value, ast.Dict) else set()
    res.add(init, node, "every plug-in type has its own registry", keys == have and bool(keys), "" if keys == have else f"types {sorted(keys ^ have)} differ",
            construct="registry covers all plugin types")
    # writers: only __init__ and add_plugin store into it
    for m in c.methods.values():
        for n in nodes_in(m, (ast.Assign, ast.AugAssign, ast.Delete)):
            targets = n.targets if isinstance(n, (ast.Assign, ast.Delete)) else [n.target]
            if any(reg in ast.unparse(t) for t in targets):
                ok = m.name in ("__init__", "add_plugin")
                res.add(m, n, "only __init__ and add_plugin write the registry", ok, "" if ok else "lookups must not modify the registry", construct=f"{m.name}: write registry")
        for call in calls_in(m):
            if isinstance(call.func, ast.Attribute) and call.func.attr in ("update", "pop", "clear", "setdefault", "popitem") and reg in ast.unparse(call.func.value):
                ok = m.name in ("__init__", "add_plugin")
                res.add(m, call, "only __init__ and add_plugin mutate the registry", ok, "" if ok else "lookups must not modify the registry", construct=f"{m.name}: mutate registry")
    # the registry is the manager's only state, and lookups never write anything
    fields_written = {}
    for m in c.methods.values():
        if not m.positional:
            continue
        selfn = m.positional[0]
        for n in ast.walk(m.node):
            targets = []
            if isinstance(n, ast.Assign):
                targets = n.targets
            elif isinstance(n, (ast.AugAssign, ast.AnnAssign)):
                targets = [n.target] if getattr(n, "value", None) is not None or isinstance(n, ast.AugAssign) else []
            elif isinstance(n, ast.Delete):
                targets = n.targets
            for t in targets:
                base = t
                while isinstance(base, (ast.Subscript, ast.Attribute)) and not (isinstance(base, ast.Attribute) and isinstance(base.value, ast.Name) and base.value.id == selfn):
                    base = base.value
                if isinstance(base, ast.Attribute) and isinstance(base.value, ast.Name) and base.value.id == selfn:
                    fields_written.setdefault(base.attr, []).append((m, n))
            if isinstance(n, ast.Call) and isinstance(n.func, ast.Attribute) and n.func.attr in ("update", "pop", "clear", "setdefault", "popitem", "append", "add", "remove", "insert", "extend"):
                base = n.func.value
                while isinstance(base, (ast.Subscript, ast.Attribute)) and not (isinstance(base, ast.Attribute) and isinstance(base.value, ast.Name) and base.value.id == selfn):
                    base = base.value
                if isinstance(base, ast.Attribute) and isinstance(base.value, ast.Name) and base.value.id == selfn:
                    fields_written.setdefault(base.attr, []).append((m, n))
    for fld, sites in sorted(fields_written.items()):
        for m, n in sites:
            ok = m.name in ("__init__", "add_plugin") and fld == reg
            if m.name == "__init__" and fld != reg:
                ok = False
            res.add(m, n, "the manager keeps no state besides the registry, written only by __init__ / add_plugin (lookups are side-effect free)", ok,
                    "" if ok else f"`{m.name}` writes `self.{fld}`: lookups depend on (and change) hidden state, so the same request can resolve differently after registrations",
                    construct=f"{m.name}: writes self.{fld}")
    res.floor = 5
    return res
