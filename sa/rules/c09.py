"""C09 - fixed (masked-out) variables never move and never receive a gradient.

  C09.1 FLOW every variables value reaching EnsembleEvaluator.calculate from the optimizer
             callback is a completed vector (or the nested result's variables)
  C09.2 COH  completion scatters the optimizer's values at `mask` into a copy of the stored vector
  C09.3 WHO  the stored full vector is written only from start()'s argument and the nested result (copies)
  C09.4 COH  sampler masks: mask & (samplers == idx)
  C09.5 COH  SciPy sees masked arrays; gradients handed to the optimizer are gathered at `mask`
  C09.6 COH  zero expansion of gradients (shared with C02.7)
"""

from __future__ import annotations

import ast

from ..core import META, Ctx, RuleResult, rule
from ..model import AnalysisError, Func, norm_stmt, parent
from ..pattern import C, G, V, call, match, norm
from ..terms import Term, alts, contains, ends_with_attrs, root_of, show, subterms
from ..util import calls_in, deep_subterms, nodes_in
from .c02 import c02_7
from .c08 import c08_7
from .c14 import ensemble_calculate, optimizer_callbacks

P = "C09"

META[P] = {
    "explanation": (
        "Provenance of the variables argument of every evaluation issued by the optimizer callback, mask-polarity coherence of the completion scatter, "
        "a who-may-write rule for the stored full vector, the sampler mask construction, and the shared rules for masked SciPy inputs and zero-expanded gradients."
    ),
    "not_decided": ["the 'inside the bounds' precondition and its interplay with clipping of perturbations"],
}


def _mask(t: Term) -> bool:
    return ends_with_attrs(t, "variables", "mask")


def completion_fn(ctx: Ctx, cb: Func) -> Func:
    for _c, cs, _k in ctx.cg.all_callees(cb):
        for g in cs:
            if g.cls is cb.cls and contains(ctx.X.return_term(g), lambda s: s[0] == "attr" and "fixed" in s[2]):
                return g
    raise AnalysisError("completion function (scatter into the stored full vector) not found")


@rule(P)
def c09_1(ctx: Ctx) -> RuleResult:
    res = RuleResult("C09.1", "FLOW", "every vector sent to the ensemble evaluator by the optimizer callback is a completed full vector or the nested optimization's result")
    X = ctx.X
    calc = ensemble_calculate(ctx)
    for cb in optimizer_callbacks(ctx):
        comp = completion_fn(ctx, cb)
        # calls in cb that reach calculate
        from .c14 import calls_reaching

        for call_ in calls_reaching(ctx, cb, calc):
            t = X.at(cb, call_)
            v = t[2][0] if t[2] else dict(t[3]).get("variables")
            if v is None:
                raise AnalysisError("evaluation call without a variables argument")
            bad = []
            for a in _flat(v):
                core = a
                while core[0] == "sub":
                    core = core[1]
                if core[0] == "call" and comp in ctx.cg.resolve_fn(core[1], cb):
                    continue
                if core[0] == "attr" and ends_with_attrs(core, "evaluations", "variables") and contains(core, lambda s: s[0] == "item" or (s[0] == "call" and "nested" in show(s[1]))):
                    continue
                bad.append(a)
            ok = not bad
            res.add(cb, call_, "the variables argument is `completed(variables)` or `nested_result.evaluations.variables`", ok,
                    "" if ok else f"`{show(bad[0], 80)}` reaches the evaluator without completion: fixed variables are missing / replaced by optimizer values", construct=f"{cb.name}: variables of {norm_stmt(call_)[:40]}")
        # the callee forwards its parameter unchanged to calculate
        for _c, cs, _k in ctx.cg.all_callees(cb):
            for g in cs:
                for c2, cs2, _k2 in ctx.cg.all_callees(g):
                    if calc in cs2:
                        t2 = X.at(g, c2)
                        ok = t2[2] and t2[2][0][0] == "param"
                        res.add(g, c2, "the driver passes the completed vector on unchanged", bool(ok), "" if ok else f"passes `{show(t2[2][0], 60) if t2[2] else '?'}`", construct=f"{g.name}: forwards variables")
    res.floor = 2
    return res


def _flat(t: Term):
    out = []
    for a in alts(t):
        if a[0] == "ifexp":
            out += _flat(a[2]) + _flat(a[3])
        else:
            out.append(a)
    return out


@rule(P)
def c09_2(ctx: Ctx) -> RuleResult:
    res = RuleResult("C09.2", "COH", "completion: a copy of the stored full vector with the optimizer's values written at `mask` (1-D and batch alike); a plain copy without a mask")
    X = ctx.X
    for cb in optimizer_callbacks(ctx):
        comp = completion_fn(ctx, cb)
        rt = X.return_term(comp)
        vp = ("param", comp.qualname, comp.positional[1])
        ups = [a for a in alts(rt) if a[0] == "update"]
        plain = [a for a in alts(rt) if a[0] != "update"]
        if len(ups) < 1:
            res.add(comp, comp.node, "completion scatters into the stored vector", False, f"returns `{show(rt, 100)}`", construct=f"{comp.name}: scatter")
            continue
        for u in ups:
            base, idx, val = u[1], u[3], u[4]
            last = idx[1][-1] if idx[0] == "tuple" else idx
            pol = _mask(last)
            inv = last[0] == "unary" and _mask(last[2])
            fresh = (base[0] == "call" and ((base[1][0] == "attr" and base[1][2] == "copy") or base[1] == G("numpy.repeat") or base[1] == G("numpy.array") or base[1] == G("numpy.tile")))
            from_fixed = contains(base, lambda s: s[0] == "attr" and "fixed" in s[2])
            ok = pol and fresh and from_fixed and val == vp
            why = ""
            if inv:
                why = "values are written at `~mask`: the optimizer's values overwrite the fixed variables and the free ones keep stale values"
            elif not pol:
                why = f"scatter index `{show(last, 50)}` is not the variable mask"
            elif not fresh:
                why = "the stored full vector itself is written (no copy): later requests see a modified 'fixed' vector"
            elif not from_fixed:
                why = "the base of the scatter is not the stored full vector"
            elif val != vp:
                why = f"scattered values are `{show(val, 50)}`, not the optimizer's vector"
            kind = "batch" if idx[0] == "tuple" else "1-D"
            res.add(comp, comp.node, f"{kind}: copy(stored vector)[mask] = optimizer values", ok, why, construct=f"{comp.name}: scatter {kind}")
        ok = any(p == ("call", ("attr", vp, "copy"), (), ()) for p in plain) and len(plain) == 1
        res.add(comp, comp.node, "without a mask the optimizer's vector is passed on as a copy", ok, "" if ok else f"no-mask alternative is `{[show(p, 40) for p in plain]}`", construct=f"{comp.name}: no mask")
    res.floor = 3
    return res


@rule(P)
def c09_3(ctx: Ctx) -> RuleResult:
    res = RuleResult("C09.3", "WHO", "the stored full vector is assigned only from start()'s initial vector and from the nested result, both as copies")
    X = ctx.X
    for cb in optimizer_callbacks(ctx):
        comp = completion_fn(ctx, cb)
        fld = next(s[2] for s in subterms(X.return_term(comp)) if s[0] == "attr" and "fixed" in s[2])
        n = 0
        for f in ctx.repo.all_funcs():
            for st in nodes_in(f, (ast.Assign, ast.AugAssign, ast.AnnAssign)):
                targets = st.targets if isinstance(st, ast.Assign) else [st.target]
                for t in targets:
                    base = t
                    while isinstance(base, ast.Subscript):
                        base = base.value
                    if isinstance(base, ast.Attribute) and base.attr == fld:
                        if isinstance(st, ast.AnnAssign) and st.value is None:
                            continue
                        n += 1
                        val = X.at(f, st.value)
                        is_copy = val[0] == "call" and val[1][0] == "attr" and val[1][2] == "copy"
                        whole = t is base
                        src_ok = False
                        if f.cls is cb.cls and f.name == "start":
                            src_ok = is_copy and val[1][1][0] == "param"
                        elif f is cb:
                            src_ok = is_copy and ends_with_attrs(val[1][1], "evaluations", "variables")
                        ok = whole and src_ok
                        res.add(f, st, f"`{fld}` is rebound to a copy of the start vector / the nested result's variables", ok,
                                "" if ok else f"`{ast.unparse(st)[:70]}` changes the values of the fixed variables (element store, alias or foreign source)", construct=f"{f.name}: write {fld}")
        if n < 2:
            raise AnalysisError(f"expected the two writes of `{fld}`, found {n}")
    return res


@rule(P)
def c09_4(ctx: Ctx) -> RuleResult:
    res = RuleResult("C09.4", "COH", "each sampler handles exactly the free variables assigned to it: mask & (samplers == idx)")
    X = ctx.X
    f = None
    for g in ctx.repo.funcs_in("ropt.ensemble_evaluator._ensemble_evaluator"):
        if g.cls is None and "mask" in g.params and "idx" in g.params:
            f = g
    if f is None:
        raise AnalysisError("sampler mask helper not found")
    rt = X.return_term(f)
    idx, gi, mk = ("param", f.qualname, "idx"), ("param", f.qualname, f.positional[1]), ("param", f.qualname, "mask")
    eq = ("cmp", "==", gi, idx)
    want = {norm(mk), norm(call("numpy.asarray", eq)), norm(call("numpy.asarray", ("binop", "&", mk, eq)))}
    got = {norm(a) for a in alts(rt)}
    got2 = {g_[2][0] if g_[0] == "call" and g_[1] == G("numpy.asarray") else g_ for g_ in got}
    want2 = {norm(mk), norm(eq), norm(("binop", "&", mk, eq))}
    ok = got2 == want2
    res.add(f, f.node, "returns mask (no sampler map), samplers == idx (no mask), mask & (samplers == idx) (both)", ok,
            "" if ok else f"returns {[show(g_, 60) for g_ in got]}: a sampler can perturb fixed variables or variables of another sampler", construct=f"{f.name}: sampler mask")
    # used for every sampler with the variable mask and the sampler map
    for caller, c in ctx.cg.callers(f):
        t = X.at(caller, c)
        ok = len(t[2]) == 3 and t[2][0][0] == "enumidx" and ends_with_attrs(t[2][1], "gradient", "samplers") and _mask(t[2][2])
        res.add(caller, c, "called with (sampler index, gradient.samplers, variables.mask)", ok, "" if ok else f"arguments `{[show(a, 40) for a in t[2]]}`", construct=f"{caller.name}: sampler mask args")
        # and the result is what the sampler gets
        creates = [cl for cl in calls_in(caller) if isinstance(cl.func, ast.Attribute) and cl.func.attr == "create"]
        ok = any(len(X.at(caller, cl)[2]) >= 3 and X.at(caller, cl)[2][2] == t for cl in creates)
        res.add(caller, c, "the sampler plug-in receives that mask", ok, "" if ok else "the computed mask is not passed to the sampler", construct=f"{caller.name}: mask to sampler")
    res.floor = 3
    return res


@rule(P)
def c09_5(ctx: Ctx) -> RuleResult:
    res = RuleResult("C09.5", "COH", "the algorithm only sees free variables: masked SciPy inputs (C08.7) and gradients gathered at `mask`")
    X = ctx.X
    r = c08_7(ctx)
    for i in r.instances:
        i.rule = "C09.5"
        res.instances.append(i)
    for cb in optimizer_callbacks(ctx):
        for call_, cs, _k in ctx.cg.all_callees(cb):
            for g in cs:
                if "gradient" in g.name and "from_results" in g.name:
                    rt = X.return_term(g)
                    mp = ("param", g.qualname, "mask")
                    gathers = [s for s in subterms(rt) if s[0] == "sub" and (s[2] == mp or (s[2][0] == "tuple" and s[2][1][-1] == mp))]
                    names = {s[1][2] for s in gathers if s[1][0] == "attr"}
                    ok = {"weighted_objective", "constraints"} <= names
                    res.add(g, g.node, "objective and constraint gradients are restricted with `[mask]` / `[:, mask]` before they reach the algorithm", ok,
                            "" if ok else f"only {sorted(names)} are masked: the gradient has entries for fixed variables (wrong length)", construct=f"{g.name}: gather at mask")
                    ct = X.at(cb, call_)
                    ok = len(ct[2]) >= 2 and _mask(ct[2][1])
                    res.add(cb, call_, "the gather uses the configured variable mask", ok, "" if ok else "another mask is used", construct=f"{cb.name}: mask argument")
    res.floor = 4
    return res


@rule(P)
def c09_6(ctx: Ctx) -> RuleResult:
    r = c02_7(ctx)
    for i in r.instances:
        i.rule = "C09.6"
    r.rule, r.title = "C09.6", "gradient entries of fixed variables are exactly zero (expansion with zeros at the mask)"
    return r
