"""C09 - fixed (masked-out) variables never move and never receive a gradient.

  C09.1 FLOW every variables value reaching EnsembleEvaluator.calculate from the optimizer
             callback is a completed vector (or the nested result's variables)
  C09.2 COH  completion scatters the optimizer's values at `mask` into a copy of the stored vector
  C09.3 WHO  the stored full vector is written only from start()'s argument and the nested result (copies)
  C09.4 COH  sampler masks: mask & (samplers == idx)
  C09.5 COH  SciPy sees masked arrays; gradients handed to the optimizer are gathered at `mask`
  C09.6 COH  zero expansion of gradients (shared with C02.7)
"""

from __future__ import annotations

import ast

from ..core import META, Ctx, RuleResult, rule
from ..model import AnalysisError, Func, norm_stmt, parent
from ..pattern import C, G, V, call, match, norm
from ..terms import Term, alts, contains, ends_with_attrs, root_of, show, subterms
from ..callgraph import bind_args
from ..util import call_sites_to, calls_in, cond_value, deep_subterms, gated_values, guard_leaves, nodes_in
from .c02 import c02_7
from .c08 import c08_7
from .c14 import ensemble_calculate, optimizer_callbacks

P = "C09"

META[P] = {
    "explanation": (
        "Provenance of the variables argument of every evaluation issued by the optimizer callback, mask-polarity coherence of the completion scatter, "
        "a who-may-write rule for the stored full vector, the sampler mask construction, and the shared rules for masked SciPy inputs and zero-expanded gradients."
    ),
    "not_decided": ["the 'inside the bounds' precondition and its interplay with clipping of perturbations"],
}


def _mask(t: Term) -> bool:
    return ends_with_attrs(t, "variables", "mask")


def _fixed_field(t: Term):
    """The object attribute holding the stored full vector: the one attribute of self a scatter
    base is made of (the configuration, which provides the mask, is not a candidate)."""
    if t[0] == "update":
        t = t[1]
    cfg = {r_ for s_ in subterms(t) if _mask(s_) for r_ in subterms(s_) if r_[0] == "attr" and r_[1][0] == "param"}
    cands = {s_ for s_ in subterms(t) if s_[0] == "attr" and s_[1][0] == "param" and s_[1][2] in ("self", "cls") and s_ not in cfg and not s_[2].endswith("config")}
    return next(iter(cands))[2] if len(cands) == 1 else None


def evaluation_values(ctx: Ctx, cb: Func):
    """[(call, conditions, leaf)]: the alternatives of the variables argument of every call in
    the optimizer callback that reaches EnsembleEvaluator.calculate, helpers seen through."""
    from .c14 import calls_reaching

    X = ctx.X
    calc = ensemble_calculate(ctx)
    out = []
    for call_ in calls_reaching(ctx, cb, calc):
        t = X.at(cb, call_)
        v = t[2][0] if t[2] else dict(t[3]).get("variables")
        if v is None:
            raise AnalysisError("evaluation call without a variables argument")
        v = X.force_inline(v, cb, effects=True)
        plain = [(conds, leaf) for conds, leaf in guard_leaves(v, strip_wrappers=False)]
        if len(plain) > 1 and any(not conds for conds, _l in plain):
            # alternatives chosen by `if` statements in the callback itself (a completion written in place): the
            # conditions are those of the statements that define the argument
            from ..util import gated_values

            argn = call_.args[0] if call_.args else next((k.value for k in call_.keywords if k.arg == "variables"), None)
            if argn is not None:
                gated = []
                for conds, leaf in gated_values(ctx, cb, argn):
                    for c2, l2 in guard_leaves(X.force_inline(leaf, cb, effects=True), strip_wrappers=False):
                        gated.append((tuple(conds) + tuple(c2), l2))
                if gated and {l_ for _c, l_ in gated} >= {l_ for _c, l_ in plain}:
                    plain = gated
        for conds, leaf in plain:
            out.append((call_, conds, leaf))
    if not out:
        raise AnalysisError("no evaluation request found in the optimizer callback")
    return out


def _is_nested_result(core: Term) -> bool:
    return core[0] == "attr" and ends_with_attrs(core, "evaluations", "variables") and contains(core, lambda s: s[0] == "item" or (s[0] == "call" and "nested" in show(s[1])))


def _vector_param(cb: Func) -> Term:
    return ("param", cb.qualname, cb.positional[1])


@rule(P)
def c09_1(ctx: Ctx) -> RuleResult:
    res = RuleResult("C09.1", "FLOW", "every vector sent to the ensemble evaluator by the optimizer callback is a completed full vector or the nested optimization's result")
    X = ctx.X
    calc = ensemble_calculate(ctx)
    for cb in optimizer_callbacks(ctx):
        vp = _vector_param(cb)
        by_call: dict = {}
        for call_, conds, leaf in evaluation_values(ctx, cb):
            core = leaf
            while core[0] == "sub":
                core = core[1]
            good = False
            if core[0] == "update" and _fixed_field(core[1]) is not None:
                good = True  # scatter into (a copy of) the stored vector: shape checked by C09.2
            elif _is_nested_result(core):
                good = True
            elif core == ("call", ("attr", vp, "copy"), (), ()) and any(p and a[0] == "cmp" and a[1] == "is" and _mask(a[2]) for a, p in conds):
                good = True  # no mask: all variables are free
            by_call.setdefault(call_, []).append((good, leaf))
        for call_, items in by_call.items():
            bad = [l_ for g_, l_ in items if not g_]
            ok = not bad
            res.add(cb, call_, "the variables argument is `completed(variables)` or `nested_result.evaluations.variables`", ok,
                    "" if ok else f"`{show(bad[0], 80)}` reaches the evaluator without completion: fixed variables are missing / replaced by optimizer values", construct=f"{cb.name}: variables of {norm_stmt(call_)[:40]}")
        # the callee forwards its parameter unchanged to calculate
        for _c, cs, _k in ctx.cg.all_callees(cb):
            for g in cs:
                for c2, cs2, _k2 in ctx.cg.all_callees(g):
                    if calc in cs2:
                        t2 = X.at(g, c2)
                        ok = t2[2] and t2[2][0][0] == "param"
                        res.add(g, c2, "the driver passes the completed vector on unchanged", bool(ok), "" if ok else f"passes `{show(t2[2][0], 60) if t2[2] else '?'}`", construct=f"{g.name}: forwards variables")
    res.floor = 2
    return res


@rule(P)
def c09_2(ctx: Ctx) -> RuleResult:
    res = RuleResult("C09.2", "COH", "completion: a copy of the stored full vector with the optimizer's values written at `mask` (1-D and batch alike); a plain copy without a mask")
    for cb in optimizer_callbacks(ctx):
        vp = _vector_param(cb)
        seen_scatter = seen_plain = False
        for call_, conds, leaf in evaluation_values(ctx, cb):
            core = leaf
            while core[0] == "sub":
                core = core[1]
            if _is_nested_result(core):
                continue
            if core[0] == "update":
                seen_scatter = True
                base, idx, val = core[1], core[3], core[4]
                last = idx[1][-1] if idx[0] == "tuple" else idx
                pol = _mask(last)
                inv = last[0] == "unary" and _mask(last[2])
                fresh = (base[0] == "call" and ((base[1][0] == "attr" and base[1][2] == "copy") or base[1] in (G("numpy.repeat"), G("numpy.array"), G("numpy.tile"), G("numpy.copy"))))
                from_fixed = _fixed_field(base) is not None
                guarded = any((not p) and a[0] == "cmp" and a[1] == "is" and _mask(a[2]) for a, p in conds)
                ok = pol and fresh and from_fixed and val == vp
                why = ""
                if inv:
                    why = "values are written at `~mask`: the optimizer's values overwrite the fixed variables and the free ones keep stale values"
                elif not pol:
                    why = f"scatter index `{show(last, 50)}` is not the variable mask"
                elif not fresh:
                    why = "the stored full vector itself is written (no copy): later requests see a modified 'fixed' vector"
                elif not from_fixed:
                    why = "the base of the scatter is not the stored full vector"
                elif val != vp:
                    why = f"scattered values are `{show(val, 50)}`, not the optimizer's vector"
                kind = "batch" if idx[0] == "tuple" else "1-D"
                res.add(cb, call_, f"{kind}: copy(stored vector)[mask] = optimizer values", ok, why, construct=f"completion: scatter {kind}")
            else:
                seen_plain = True
                no_mask = any(p and a[0] == "cmp" and a[1] == "is" and _mask(a[2]) for a, p in conds)
                ok = no_mask and core in (("call", ("attr", vp, "copy"), (), ()), ("call", G("numpy.copy"), (vp,), ()), ("call", G("numpy.array"), (vp,), ()))
                res.add(cb, call_, "without a mask the optimizer's vector is passed on as a copy", ok,
                        "" if ok else f"alternative `{show(core, 50)}` under {[('' if p else 'not ') + show(a, 40) for a, p in conds]}", construct="completion: no mask")
        if not seen_scatter:
            res.add(cb, cb.node, "completion scatters into the stored vector", False, "no scatter of the optimizer's values into the stored full vector found", construct="completion: scatter")
        if not seen_plain:
            res.add(cb, cb.node, "without a mask the optimizer's vector is passed on as a copy", False, "no alternative for a configuration without a mask", construct="completion: no mask")
    res.floor = 3
    return res


def stored_vector_field(ctx: Ctx, cb: Func) -> str:
    for _c, _conds, leaf in evaluation_values(ctx, cb):
        f_ = _fixed_field(leaf)
        if f_ is not None:
            return f_
    raise AnalysisError("stored full vector (scatter base) not found in the optimizer callback")


@rule(P)
def c09_3(ctx: Ctx) -> RuleResult:
    res = RuleResult("C09.3", "WHO", "the stored full vector is assigned only from start()'s initial vector and from the nested result, both as copies")
    X = ctx.X
    for cb in optimizer_callbacks(ctx):
        fld = stored_vector_field(ctx, cb)
        n = 0
        for f in ctx.repo.all_funcs():
            for st in nodes_in(f, (ast.Assign, ast.AugAssign, ast.AnnAssign)):
                targets = st.targets if isinstance(st, ast.Assign) else [st.target]
                for t in targets:
                    base = t
                    while isinstance(base, ast.Subscript):
                        base = base.value
                    if isinstance(base, ast.Attribute) and base.attr == fld:
                        if isinstance(st, ast.AnnAssign) and st.value is None:
                            continue
                        n += 1
                        val = X.at(f, st.value)
                        is_copy = val[0] == "call" and val[1][0] == "attr" and val[1][2] == "copy"
                        whole = t is base
                        src_ok = False
                        if f.cls is cb.cls and f.name == "start":
                            src_ok = is_copy and val[1][1][0] == "param"
                        elif f.cls is cb.cls:
                            src_ok = is_copy and ends_with_attrs(val[1][1], "evaluations", "variables")
                        ok = whole and src_ok
                        res.add(f, st, f"`{fld}` is rebound to a copy of the start vector / the nested result's variables", ok,
                                "" if ok else f"`{ast.unparse(st)[:70]}` changes the values of the fixed variables (element store, alias or foreign source)", construct=f"{f.name}: write {fld}")
        if n < 2:
            raise AnalysisError(f"expected the two writes of `{fld}`, found {n}")
    return res


@rule(P)
def c09_4(ctx: Ctx) -> RuleResult:
    res = RuleResult("C09.4", "COH", "each sampler handles exactly the free variables assigned to it: mask & (samplers == idx)")
    X = ctx.X
    impls = ctx.repo.implementations("ropt.plugins.sampler.base.SamplerPlugin", "create")
    base = ctx.repo.funcs.get("ropt.plugins.sampler.base.SamplerPlugin.create")
    sites = [(f, c) for f, c in call_sites_to(ctx, impls + ([base] if base else [])) if f.module.name.startswith("ropt.ensemble_evaluator")]
    if not sites:
        raise AnalysisError("creation of the sampler plug-in objects in the ensemble evaluator not found")
    for f, c in sites:
        t = X.at(f, c)
        bound = bind_args(impls[0] if impls else base, t, bound=True)
        idx_t, mask_t = bound.get("sampler_index"), bound.get("mask")
        if idx_t is None or mask_t is None:
            if len(t[2]) >= 3:
                idx_t, mask_t = t[2][1], t[2][2]
            else:
                raise AnalysisError(f"sampler index / mask arguments not found at {f.where(c)}")
        ok = idx_t[0] == "enumidx" and ends_with_attrs(idx_t[1], "samplers")
        res.add(f, c, "the sampler is created with its own index in the configured samplers", ok, "" if ok else f"index argument is `{show(idx_t, 60)}`", construct=f"{f.name}: sampler index")
        # the mask: by cases on (gradient.samplers is None, variables.mask is None)
        # the mask argument by cases: locals are followed to their (conditional) definitions, helpers are seen through
        pnames = [p_ for p_ in (impls[0] if impls else base).positional[1:]]
        mask_e = None
        for kw_ in c.keywords:
            if kw_.arg == "mask":
                mask_e = kw_.value
        if mask_e is None and "mask" in pnames and pnames.index("mask") < len(c.args):
            mask_e = c.args[pnames.index("mask")]
        if mask_e is None and len(c.args) >= 3:
            mask_e = c.args[2]
        leaves = gated_values(ctx, f, mask_e, strip_wrappers=True) if mask_e is not None else list(guard_leaves(X.force_inline(mask_t, f)))
        mask_t = ("tuple", tuple(l_ for _c, l_ in leaves)) if leaves else mask_t
        smap = [s for s in subterms(mask_t) if ends_with_attrs(s, "gradient", "samplers")]
        vmask = [s for s in subterms(mask_t) if _mask(s)]
        why = ""
        if not vmask:
            why = "the variable mask does not reach the sampler: it perturbs fixed variables"
        elif not smap:
            why = "the sampler map (gradient.samplers) does not reach the sampler mask: a sampler perturbs variables of another sampler"
        else:
            S, M = norm(smap[0]), norm(vmask[0])
            s_none, m_none = ("cmp", "is", S, NONE_T), ("cmp", "is", M, NONE_T)
            eq = norm(("cmp", "==", S, norm(idx_t)))
            for conds, leaf in leaves:
                sn, mn = cond_value(conds, s_none), cond_value(conds, m_none)
                v = norm(leaf)
                while v[0] == "call" and v[1] in (G("numpy.asarray"), G("numpy.array")) and len(v[2]) == 1:
                    v = v[2][0]
                if sn is True:
                    good = v == M or (mn is True and v == NONE_T)
                    exp = "the variable mask"
                elif sn is False and mn is True:
                    good = v == eq
                    exp = "samplers == idx"
                elif sn is False and mn is False:
                    good = v == norm(("binop", "&", M, eq))
                    exp = "mask & (samplers == idx)"
                else:
                    good = False
                    exp = "a case split on `gradient.samplers is None` and `variables.mask is None`"
                if not good:
                    why = f"under {[('' if p else 'not ') + show(a, 50) for a, p in conds]} the sampler gets `{show(v, 70)}`, expected {exp}: a sampler can perturb fixed variables or variables of another sampler"
                    break
        res.add(f, c, "the sampler's mask is: variables.mask (no sampler map), samplers == idx (no mask), mask & (samplers == idx) (both)", not why, why, construct=f"{f.name}: sampler mask")
    res.floor = 2
    return res


NONE_T = ("const", None)


@rule(P)
def c09_5(ctx: Ctx) -> RuleResult:
    res = RuleResult("C09.5", "COH", "the algorithm only sees free variables: masked SciPy inputs (C08.7) and gradients gathered at `mask`")
    X = ctx.X
    r = c08_7(ctx)
    for i in r.instances:
        i.rule = "C09.5"
        res.instances.append(i)
    for cb in optimizer_callbacks(ctx):
        for call_, cs, _k in ctx.cg.all_callees(cb):
            for g in cs:
                if "gradient" in g.name and "from_results" in g.name:
                    rt = X.return_term(g)
                    mp = ("param", g.qualname, "mask")
                    gathers = [s for s in subterms(rt) if s[0] == "sub" and (s[2] == mp or (s[2][0] == "tuple" and s[2][1][-1] == mp))]
                    names = {s[1][2] for s in gathers if s[1][0] == "attr"}
                    ok = {"weighted_objective", "constraints"} <= names
                    res.add(g, g.node, "objective and constraint gradients are restricted with `[mask]` / `[:, mask]` before they reach the algorithm", ok,
                            "" if ok else f"only {sorted(names)} are masked: the gradient has entries for fixed variables (wrong length)", construct=f"{g.name}: gather at mask")
                    ct = X.at(cb, call_)
                    ok = len(ct[2]) >= 2 and _mask(ct[2][1])
                    res.add(cb, call_, "the gather uses the configured variable mask", ok, "" if ok else "another mask is used", construct=f"{cb.name}: mask argument")
    res.floor = 4
    return res


@rule(P)
def c09_6(ctx: Ctx) -> RuleResult:
    r = c02_7(ctx)
    for i in r.instances:
        i.rule = "C09.6"
    r.rule, r.title = "C09.6", "gradient entries of fixed variables are exactly zero (expansion with zeros at the mask)"
    return r


@rule(P)
def c09_7(ctx: Ctx) -> RuleResult:
    """Shared with C17.2: samplers scatter their samples at the mask they were given; an altered mask
    (e.g. an empty one treated as `no mask`) perturbs fixed variables."""
    from .c17 import c17_2

    r = c17_2(ctx)
    r.instances = [i for i in r.instances if "mask field" in i.construct or "masked scatter" in i.construct]
    for i in r.instances:
        i.rule = "C09.7"
    r.rule, r.title, r.floor = "C09.7", "samplers write samples only at the mask handed to them (zeros elsewhere), the mask kept as given", 1
    return r


@rule(P)
def c09_8(ctx: Ctx) -> RuleResult:
    """Shared with C07.5: the ensemble-level function cache (consumed under an exact point test, stored whenever
    the functions-only path ran, cleared before a combined evaluation)."""
    from .c07 import c07_5

    r = c07_5(ctx)
    for i in r.instances:
        i.rule = "C09.8"
    r.rule, r.title = "C09.8", "a gradient evaluation perturbs the variables just delivered (fixed ones included): the cached function result is reused only for exactly the requested point"
    return r
