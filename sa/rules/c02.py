"""C02 - stochastic gradient is exact on affine ensembles and zero on fixed variables.

  C02.1 COH  both difference arrays are "perturbed minus base"
  C02.2 COH  the solver's matrix rows and right-hand side use the same selector
             (successful perturbations of active realizations)
  C02.3 TERM truncated pseudo-inverse via thin SVD; SVD_TOLERANCE in (0.99, 1]
  C02.4 FLOW weights at calculate_gradient: zeroed on failures, renormalised, right source
  C02.5 COH  merged solve: a per-row factor on the right-hand side is on the matrix too
  C02.6 TERM estimator gradients (mean, stddev chain rule, stddev+merge rejected)
  C02.7 COH  mask restriction before the solve, zero expansion after; weighted gradient
"""

from __future__ import annotations

import ast

from ..core import META, Ctx, RuleResult, rule
from ..model import AnalysisError, Func, norm_stmt, parent
from ..pattern import C, G, V, add, call, div, find_match, match, mul, neg, norm
from ..terms import Term, alts, contains, ends_with_attrs, root_of, show, subterms
from ..util import guard_leaves, calls_in, deep_subterms, module_const, nodes_in
from .c01 import _check_sources
from .common import EST, check_weights_pipeline, dispatch_table, estimator_sinks, weights_arg

P = "C02"

META[P] = {
    "explanation": (
        "The theorem (least squares over full-column-rank differences of an affine function returns its slope) is trusted mathematics; the rules decide "
        "that the code is that pipeline: orientation and row-selection coherence of the difference arrays, the truncated-SVD pseudo-inverse as a "
        "reference term with its tolerance constant, weight provenance at the gradient sink, row scaling symmetry of the merged solve, the estimator "
        "gradient formulas and the mask restriction/expansion."
    ),
    "not_decided": ["conditioning and SVD numerics", "the theorem itself", "equality up to rounding"],
}


def solver(ctx: Ctx) -> Func:
    for f in ctx.repo.funcs_in("ropt.ensemble_evaluator._gradient"):
        if any(ctx.X.at(f, c.func) == ("global", "numpy.linalg.svd") for c in calls_in(f)):
            # the solver may be split: climb to the (matrix, vector) entry the gradient code calls
            for _ in range(3):
                cs = {c_.qualname: c_ for c_, _call in ctx.cg.callers(f)}
                if len(cs) == 1:
                    g = next(iter(cs.values()))
                    if g.cls is None and g.module is f.module and g.name.startswith("_") and len(g.positional) == 2:
                        f = g
                        continue
                break
            return f
    raise AnalysisError("least-squares solver (np.linalg.svd) not found in the gradient module")


def _strip_shape(t: Term) -> Term:
    """Remove pure re-shaping wrappers around a factor."""
    while True:
        if t[0] == "call" and t[1][0] == "global" and t[1][1] in ("numpy.expand_dims", "numpy.repeat", "numpy.reshape", "numpy.ravel", "numpy.tile", "numpy.broadcast_to") and t[2]:
            t = t[2][0]
            continue
        if t[0] == "sub" and _only_newaxis(t[2]):
            t = t[1]
            continue
        return t


def _only_newaxis(idx: Term) -> bool:
    items = idx[1] if idx[0] == "tuple" else (idx,)
    for i in items:
        if i == ("global", "numpy.newaxis") or i == ("const", None) or i == ("const", Ellipsis):
            continue
        if i[0] == "slice" and i[1:] == (("const", None),) * 3:
            continue
        return False
    return True


# --------------------------------------------------------------------- C02.1
@rule(P)
def c02_1(ctx: Ctx) -> RuleResult:
    res = RuleResult("C02.1", "COH", "delta_variables and delta_functions are both (perturbed - base), base broadcast on the perturbation axis")
    X = ctx.X
    found = 0
    for f in ctx.repo.funcs_in("ropt.ensemble_evaluator._gradient"):
        diffs = []
        for n in nodes_in(f, ast.Assign):
            t = norm(X.at(f, n.value))
            m = match(t, add(V("a"), neg(call("numpy.expand_dims", V("b"), axis=V("ax")))))
            if m is not None and m["a"][0] == "param" and m["b"][0] == "param":
                diffs.append((n, m))
        if len(diffs) < 2:
            continue
        found += 1
        for n, m in diffs:
            a, b = m["a"][2], m["b"][2]
            ok = "perturbed" in a and "perturbed" not in b and m["ax"] == ("const", 1)
            res.add(f, n, "difference is `perturbed - expand_dims(base, axis=1)`", ok,
                    "" if ok else f"difference is `{a} - {b}`: orientation or axis differs from its sibling (gradient sign flips)", construct=f"{f.name}: {norm_stmt(n)[:60]}")
        kinds = {("variab" in m["a"][2], "variab" in m["b"][2]) for _n, m in diffs}
        ok = kinds == {(True, True), (False, False)}
        res.add(f, f.node, "one difference pairs perturbed variables with variables, the other perturbed functions with functions", ok,
                "" if ok else "a difference mixes variables with function values", construct=f"{f.name}: difference pairing")
    if not found:
        raise AnalysisError("difference arrays (perturbed - base) not found")
    res.floor = 3
    return res


# --------------------------------------------------------------------- C02.2
def _bool_selectors(idx: Term) -> list[Term]:
    items = idx[1] if idx[0] == "tuple" else (idx,)
    out = []
    for i in items:
        if i[0] == "slice" or i == ("const", Ellipsis):
            continue
        if i[0] in ("iter", "enumidx", "const"):
            continue
        out.append(i)
    return out


def _loop_indices(idx: Term) -> list[Term]:
    items = idx[1] if idx[0] == "tuple" else (idx,)
    return [i for i in items if i[0] in ("iter", "enumidx")]


@rule(P)
def c02_2(ctx: Ctx) -> RuleResult:
    res = RuleResult("C02.2", "COH", "every solve uses the same row selector (non-NaN differences of active realizations) for the matrix and the right-hand side")
    X = ctx.X
    s = solver(ctx)
    sites = ctx.cg.callers(s)
    if len(sites) < 2:
        raise AnalysisError(f"expected the per-realization and the merged call of the solver, found {len(sites)}")
    from ..util import contextual, enclosing_ifs_ctx

    for f, c in sites:
        # the call as its (single) caller chain sees it: a solve moved into a private helper is the same solve
        t, _top = contextual(ctx, f, X.at(f, c))
        from ..callgraph import positional_args

        mr = [a for a in positional_args(s, t)[:2]]
        if len(mr) != 2 or any(a is None for a in mr):
            raise AnalysisError("solver call does not have (matrix, vector) arguments")
        M, R = mr
        if M[0] != "sub" or R[0] != "sub":
            # the two arrays may come out of a private helper that assembles the system (`matrix, vector = _merge(...)`)
            M, R = X.force_inline(M, f, effects=True), X.force_inline(R, f, effects=True)
        ok = M[0] == "sub" and R[0] == "sub"
        if not ok:
            res.add(f, c, "matrix and right-hand side are row selections", False, f"arguments are `{show(M, 50)}` / `{show(R, 50)}`: NaN rows of failed perturbations enter the solve",
                    construct=f"{f.name}: solver rows")
            continue
        sm, sr = _bool_selectors(M[2]), _bool_selectors(R[2])
        same = len(sm) == 1 and sm == sr
        res.add(f, c, "the same boolean selector indexes the matrix rows and the right-hand side", same,
                "" if same else f"matrix rows `{[show(x, 40) for x in sm]}` vs rhs `{[show(x, 40) for x in sr]}`: rows and right-hand side are misaligned", construct=f"{f.name}: same selector")
        li = _loop_indices(M[2]) == _loop_indices(R[2])
        res.add(f, c, "both are taken from the same realization", li, "" if li else "matrix and right-hand side come from different realizations", construct=f"{f.name}: same realization")
        if not same:
            continue
        sel = sm[0]
        # selector contains ~isnan(<the rhs base>)
        rbase = R[1]
        nn = [x for x in ctx.X.closure(sel) if x[0] == "call" and x[1] == ("global", "numpy.isnan")]
        has_not = any((x[0] == "call" and x[1] == ("global", "numpy.logical_not") and x[2] and x[2][0] in nn) or (x[0] == "unary" and x[1] == "~" and x[2] in nn) for x in ctx.X.closure(sel))

        def same_base(a: Term, b: Term) -> bool:
            sa, sb = _strip_shape(a), _strip_shape(b)
            pa = {x for x in subterms(sa) if x[0] == "param"}
            pb = {x for x in subterms(sb) if x[0] == "param"}
            return bool(pa & pb)

        rel = any(same_base(x[2][0], rbase) for x in nn if x[2])
        ok = has_not and rel
        res.add(f, c, "the selector keeps exactly the rows whose function difference is not NaN", ok,
                "" if ok else "the selector is not `~isnan(<right-hand side>)`: failed perturbations are not dropped (or successful ones are)", construct=f"{f.name}: non-NaN selector")
        # active realizations: |w| > 0 in the selector or controlling the call
        act = [x for x in subterms(norm(sel)) if x[0] == "cmp" and x[1] == "<" and x[2] == ("const", 0)]
        guard = False
        for gf, cur in enclosing_ifs_ctx(ctx, f, c):
            gt = norm(contextual(ctx, gf, X.value_at(gf, cur.test))[0])
            if any(x[0] == "cmp" and x[1] == "<" and x[2] == ("const", 0) and contains(x[3], lambda y: y[0] == "param" and "weight" in y[2]) for x in ctx.X.closure(gt)):
                guard = True
        in_sel = any(contains(x[3], lambda y: y[0] == "param" and "weight" in y[2]) for x in [y for y in ctx.X.closure(norm(sel)) if y[0] == "cmp" and y[1] == "<" and y[2] == ("const", 0)])
        ok = guard or in_sel
        res.add(f, c, "only realizations with non-zero weight contribute (|w| > 0 in the selector or guarding the solve)", ok,
                "" if ok else "zero-weight (inactive, possibly garbage) realizations enter the solve", construct=f"{f.name}: active realizations")
        # how the two requirements are combined: a row enters the solve iff its realization is active AND its
        # difference is not NaN (never OR), and a realization is solved as soon as ANY of its perturbations succeeded
        # (a failed perturbation is left out as if absent; it does not void the realization's other perturbations)
        disj = [x for x in ctx.X.closure(norm(sel)) if (x[0] == "binop" and x[1] == "|") or (x[0] == "call" and x[1] == G("numpy.logical_or"))]
        disj = [x for x in disj if contains(x, lambda y: y[0] == "call" and y[1] == G("numpy.isnan"))]
        ok = not disj
        res.add(f, c, "activity and non-NaN are combined with AND in the row selector", ok,
                "" if ok else f"the selector contains `{show(disj[0], 70)}`: rows of inactive (zero-weight, possibly failed) realizations enter the solve whenever their difference is a number",
                construct=f"{f.name}: selector conjunction")
        from .common import conds_at

        alls = [a for a, pol in conds_at(ctx, f, c).items() if pol and a[0] == "call" and a[1] in (G("numpy.all"), ("builtin", "all")) and a[2]
                and (a[2][0] == sel or any(y[0] == "call" and y[1] == G("numpy.isnan") for y in ctx.X.closure(a[2][0])))]
        ok = not alls
        res.add(f, c, "a realization is solved when any of its perturbations succeeded (failed perturbations are dropped, not the realization)", ok,
                "" if ok else f"the solve is guarded by `{show(alls[0], 60)}`: one failed perturbation removes the whole realization from the gradient although enough perturbations succeeded",
                construct=f"{f.name}: solve guard any")
        # a per-realization mask expanded to the stacked (realization-major) rows must be
        # np.repeat(mask, P): row k belongs to realization k // P
        stacked = any(x[0] == "call" and x[1] in (G("numpy.reshape"), G("numpy.ravel")) for x in subterms(norm(M[1]))) or any(
            x[0] == "call" and x[1][0] == "attr" and x[1][2] in ("reshape", "flatten", "ravel") for x in subterms(M[1]))
        if stacked:
            expanders = [x for x in ctx.X.closure(norm(sel)) if x[0] == "call" and x[1][0] == "global" and x[1][1] in ("numpy.repeat", "numpy.tile", "numpy.resize", "numpy.broadcast_to")
                         and x[2] and any(y[0] == "cmp" for y in subterms(x[2][0]))]
            ok = bool(expanders) and all(x[1] == G("numpy.repeat") and len(x[2]) == 2 and _is_pert_count(x[2][1]) and not any(k == "axis" for k, _v in x[3]) for x in expanders)
            res.add(f, c, "the per-realization activity mask is expanded with np.repeat(mask, n_perturbations): rows of the stacked system are realization-major", ok,
                    "" if ok else f"the activity mask is expanded as `{show(expanders[0], 70) if expanders else '?'}`: it is laid out perturbation-major while the stacked rows are realization-major, so rows of active realizations are dropped and rows of failed ones kept",
                    construct=f"{f.name}: activity mask layout")
    res.floor = 8
    return res


def _is_pert_count(t: Term) -> bool:
    """t == <delta array>.shape[1] (the perturbation axis of an (R, P, V) array)."""
    n = norm(t)
    return n[0] == "sub" and n[2] == C(1) and n[1][0] == "attr" and n[1][2] == "shape"


# --------------------------------------------------------------------- C02.3
@rule(P)
def c02_3(ctx: Ctx) -> RuleResult:
    res = RuleResult("C02.3", "TERM", "solver == V diag(1/sigma | selected) U^T b with thin U, V; selection: cumulative energy < SVD_TOLERANCE plus the first element that passes")
    X = ctx.X
    s = solver(ctx)
    rt = norm(X.force_inline(X.return_term(s), s))
    mat, vec = ("param", s.qualname, s.positional[0]), ("param", s.qualname, s.positional[1])
    svd = None
    for x in subterms(rt):
        if x[0] == "call" and x[1] == G("numpy.linalg.svd"):
            svd = x
    ok = svd is not None and svd[2] and svd[2][0] == mat
    res.add(s, s.node, "the SVD is taken of the matrix argument", ok, "" if ok else "svd not applied to the matrix", construct="solver: svd(matrix)")
    if not ok:
        return res
    thin_kw = any(k == "full_matrices" and v == C(False) for k, v in svd[3])
    u, sg, vt = ("item", svd, 0), ("item", svd, 1), ("item", svd, 2)
    size = ("attr", sg, "size")
    u_thin = ("sub", u, ("tuple", (("slice", C(None), C(None), C(None)), ("slice", C(None), size, C(None)))))
    v_thin = ("sub", vt, ("tuple", (("slice", C(None), size, C(None)), ("slice", C(None), C(None), C(None)))))
    U = u if thin_kw else u_thin
    Vt = vt if thin_kw else v_thin
    S = V("S")
    ref = call("numpy.dot", call("numpy.dot", call("numpy.dot", call("numpy.transpose", Vt), S), call("numpy.transpose", U)), vec)
    m = match(rt, ref)
    ok = m is not None
    res.add(s, s.node, "result == V^T-transposed . S . U^T . vector with thin U and V (first sigma.size columns / rows)", ok,
            "" if ok else f"result is `{show(rt, 160)}`", construct="solver: product shape")
    if not ok:
        return res
    Sx = m["S"]
    sel = V("sel")
    ref_s = call("numpy.diag", ("call", G("numpy.divide"), (V("one"), sg), (("out", V("out")), ("where", ("binop", "&", ("cmp", "<", C(0), sg), sel)))))
    ms = match(Sx, ref_s)
    ok = ms is not None and ms["one"] in (C(1.0), C(1)) and ms["out"] == call("numpy.zeros_like", sg)
    res.add(s, s.node, "S == diag(1/sigma where sigma > 0 and selected, else 0)", ok, "" if ok else f"S is `{show(Sx, 140)}`", construct="solver: inverse singular values")
    if ms is None:
        return res
    selx = ms["sel"]
    tol = V("tol")
    s2 = ("binop", "**", sg, C(2))
    base_sel = ("cmp", "<", div(call("numpy.cumsum", s2), call("numpy.sum", s2)), tol)
    ok_plus = selx[0] == "update" and selx[4] == C(True) and match(selx[3], call("numpy.argmin", V("b"))) is not None
    mb = match(selx[1], base_sel) if ok_plus else match(selx, base_sel)
    ok_energy = mb is not None
    res.add(s, s.node, "selection == cumsum(sigma^2)/sum(sigma^2) < tolerance (energy, not amplitude)", ok_energy,
            "" if ok_energy else f"selection is `{show(selx, 140)}`", construct="solver: energy criterion")
    ok_p = ok_plus and ok_energy and match(selx[3], call("numpy.argmin", selx[1])) is not None
    res.add(s, s.node, "the first element that reaches the tolerance is selected too (`select[argmin(select)] = True`)", ok_p,
            "" if ok_p else "without the plus-one element an ensemble meeting the 1% conditioning bound is truncated", construct="solver: plus-one element")
    if mb is not None:
        t = mb["tol"]
        val = None
        if t[0] == "const":
            val = t[1]
        elif t[0] == "global":
            val = module_const(ctx.repo, t[1])
        ok = isinstance(val, (int, float)) and 0.99 < val <= 1.0
        res.add(s, s.node, "SVD_TOLERANCE lies in (0.99, 1]", ok, "" if ok else f"tolerance is {val}: well-conditioned ensembles (smallest squared singular value >= 1%) are truncated",
                construct="solver: tolerance constant")
    res.floor = 6
    return res


# --------------------------------------------------------------------- C02.4
@rule(P)
def c02_4(ctx: Ctx) -> RuleResult:
    res = RuleResult("C02.4", "FLOW", "weights at calculate_gradient and at the per-realization / merged estimation: zeroed on failures, renormalised, from the configured weights or the mapped filter")
    X = ctx.X
    for f, c in estimator_sinks(ctx, "calculate_gradient"):
        wt = weights_arg(ctx, f, c, 2)
        ok, why, inner = check_weights_pipeline(ctx, f, wt)
        res.add(f, c, "weights == W / W.sum() with W = where(failed_realizations, 0, weights in force)", ok, why, construct=f"{f.name}: weights pipeline (estimator)")
        from .common import pipeline_frame

        f_src, wt_src = pipeline_frame(ctx, f, wt)
        _check_sources(ctx, res, f_src, c, inner if inner is not None else wt_src, "gradients")
        # the same weights go to the gradient estimation helpers
        s = solver(ctx)
        for call_, cs, _k in ctx.cg.all_callees(f):
            for g in cs:
                if g is not f and s in ctx.cg.reachable([g], include_nested_values=False):
                    ct = X.at(f, call_)
                    ok = wt in ct[2] or any(v == wt for _k3, v in ct[3])
                    if not ok and g is s:
                        # the per-realization loop written out in place: the solver itself is called, for the
                        # realizations that these weights leave active (the weights govern the call)
                        from ..util import path_condition, stmt_of

                        ok = any(x == wt for c_, _pol in path_condition(ctx, f, stmt_of(call_)) for x in X.closure(c_))
                    res.add(f, call_, f"`{g.name}` receives the same normalised weights as the estimator", ok,
                            "" if ok else "the least-squares stage uses other weights than the estimator", construct=f"{f.name}: weights to {g.name}")
    res.floor = 2
    return res


# --------------------------------------------------------------------- C02.5
def _weight_factors(ctx: Ctx, f: Func, t: Term) -> set:
    """Multiplicative factors (shape-stripped) derived from a weights parameter."""
    out = set()
    n = norm(t)

    def values(x):
        """Subterms in value position (indices / selectors excluded)."""
        yield x
        if x[0] == "sub":
            yield from values(x[1])
        elif x[0] == "call":
            for a in x[2]:
                yield from values(a)
        elif x[0] in ("binop",):
            yield from values(x[2])
            yield from values(x[3])
        elif x[0] == "unary":
            yield from values(x[2])
        elif x[0] == "phi":
            for a in x[1]:
                yield from values(a)
        elif x[0] == "rec" and len(x) >= 5:
            yield from values(norm(ctx.X.deref(x)))

    for x in values(n):
        if x[0] == "binop" and x[1] == "*":
            for a in (x[2], x[3]):
                core = _strip_shape(a)
                if contains(core, lambda y: y[0] == "param" and "weight" in y[2]) and not contains(core, lambda y: y[0] == "cmp"):
                    out.add(norm(core))
    return out


@rule(P)
def c02_5(ctx: Ctx) -> RuleResult:
    res = RuleResult("C02.5", "COH", "merged solve: a per-realization factor applied to the right-hand side rows is applied to the matrix rows too")
    X = ctx.X
    s = solver(ctx)
    n = 0
    from ..util import context_chain

    for f0, c in ctx.cg.callers(s):
        # the function in which a weight factor is applied to the rows: the solve site itself or, when the solve
        # was moved into a private single-use helper, the caller that prepares its arguments
        f, fm, fr = f0, set(), set()
        for g_, t_ in context_chain(ctx, f0, X.at(f0, c)):
            from ..callgraph import positional_args

            M, R = positional_args(s, t_)[:2]
            if M is not None and R is not None and (M[0] != "sub" or R[0] != "sub"):
                # the system assembled by a private helper (`matrix, vector = _merge(...)`): look at the values it returns
                M, R = X.force_inline(M, g_, effects=True), X.force_inline(R, g_, effects=True)
            fm, fr = _weight_factors(ctx, g_, M), _weight_factors(ctx, g_, R)
            if fm or fr:
                f = g_
                break
        if not fm and not fr:
            res.add(f, c, "rows are not scaled (nothing to balance)", True, construct=f"{f.name}: row scaling")
            continue
        n += 1
        ok = fm == fr
        res.add(f, c, "matrix rows and right-hand side rows carry the same weight factor", ok,
                "" if ok else f"right-hand side is scaled by {[show(x, 40) for x in fr] or 'nothing'} but the matrix by {[show(x, 40) for x in fm] or 'nothing'}: "
                "with weights summing to one the solution shrinks by the number of realizations on shared perturbations", construct=f"{f.name}: row scaling")
    res.floor = 2
    return res


# --------------------------------------------------------------------- C02.6
@rule(P)
def c02_6(ctx: Ctx) -> RuleResult:
    res = RuleResult("C02.6", "TERM", "estimator gradients: mean -> dot(gradients, weights) (identity when merged); stddev -> chain rule; stddev + merge rejected")
    X = ctx.X
    for impl in ctx.repo.implementations(EST, "calculate_gradient"):
        c = impl.cls
        methods = dispatch_table(ctx, impl)
        if "mean" in methods:
            h = methods["mean"]
            ps = [p for p in h.positional if p != "self"]
            g, w = ("param", h.qualname, ps[1]), ("param", h.qualname, ps[2])
            rt = X.return_term(h)
            als = [norm(a) for a in alts(rt)]
            dot_ok = any(match(a, call("numpy.dot", g, w)) is not None for a in als)
            ident = [a for a in als if a == g]
            # the pass-through happens only where merge_realizations holds (if / early return / negated test / conditional expression)
            merged_guard = False
            leaves = list(guard_leaves(X.guarded_return(h), strip_wrappers=False))
            idl = [(conds, leaf) for conds, leaf in leaves if norm(leaf) == g]
            if idl and all(any(p_ and ends_with_attrs(a_, "gradient", "merge_realizations") for a_, p_ in conds) for conds, _l in idl):
                merged_guard = True
            ok = dot_ok and (not ident or merged_guard) and len(als) <= 2
            res.add(h, h.node, "mean gradient == dot(gradients, weights); the merged gradient is passed through only under merge_realizations", ok,
                    "" if ok else f"mean gradient is `{show(rt, 120)}`", construct=f"{c.name}: mean gradient")
        if "stddev" in methods:
            h = methods["stddev"]
            ps = [p for p in h.positional if p != "self"]
            fpar, g, w = (("param", h.qualname, p) for p in ps[:3])
            rt = X.return_term(h)
            als = [norm(a) for a in alts(rt)]
            fv = V("f", lambda x: x == fpar or x == call("numpy.nan_to_num", fpar))
            NRM, SD, MEAN = V("nrm"), V("sd"), V("mean")
            ref = mul(div(NRM, SD), add(call("numpy.dot", g, mul(fv, w)), neg(mul(MEAN, call("numpy.dot", g, w)))))
            main = None
            for a in als:
                for cand in ([a[3], a[2]] if a[0] == "ifexp" else [a]):
                    m = match(cand, ref)
                    if m is not None:
                        main = m
            ok = main is not None
            if ok:
                comps = {k: main[k] for k in ("nrm", "mean", "sd")}
                if all(v[0] == "item" and v[1][0] == "call" for v in comps.values()):
                    # nrm, mean, sd are the three components returned by one helper (checked by C01.5)
                    ok = [comps["nrm"][2], comps["mean"][2], comps["sd"][2]] == [0, 1, 2] and len({v[1] for v in comps.values()}) == 1
                else:
                    # written out (or a transparent helper): sd == sqrt(nrm * dot((F - mean)^2, w)) with the same nrm and mean
                    ref_sd = ("binop", "**", mul(comps["nrm"], call("numpy.dot", ("binop", "**", add(fv, neg(V("m"))), C(2)), w)), C(0.5))
                    m2 = match(comps["sd"], ref_sd)
                    core = m2["m"] if m2 is not None else None
                    while core is not None and core[0] == "sub":
                        core = core[1]
                    ok = m2 is not None and core == comps["mean"] and m2["f"] == main["f"]
            res.add(h, h.node, "stddev gradient == (B/stddev) * (dot(grad, values*weights) - mean * dot(grad, weights))", ok,
                    "" if ok else f"stddev gradient is `{show(rt, 200)}`", construct=f"{c.name}: stddev gradient")
            # the division by the stddev happens only where a test on that stddev excludes zero
            zero = False
            if main is not None:
                sd_t = main["sd"]
                for conds, leaf in guard_leaves(X.guarded_return(h)):
                    if match(norm(leaf), ref) is None:
                        continue
                    zero = False
                    for atom, pol in conds:
                        if not contains(atom, lambda s_: s_ == sd_t):
                            continue
                        # `eps < |sd|` must hold; `allclose(|sd|, 0)`, `sd == 0`, `|sd| < eps` must not
                        away = atom[0] == "cmp" and atom[1] in ("<", "<=") and atom[2][0] == "const" and contains(atom[3], lambda s_: s_ == sd_t)
                        zero = zero or (pol == away)
                    if not zero:
                        break
            res.add(h, h.node, "the stddev gradient is zero when the stddev is zero (no division by zero)", zero, "" if zero else "division by a zero stddev", construct=f"{c.name}: zero stddev")
        # stddev + merge rejected at construction
        init = c.methods.get("__init__")
        ok = False
        if init is not None:
            for n in nodes_in(init, ast.If):
                tt = X.value_at(init, n.test)
                if contains(tt, lambda s: s == ("const", "stddev")) and contains(tt, lambda s: s[0] == "attr" and s[2] == "merge_realizations") and any(isinstance(x, ast.Raise) for s in n.body for x in ast.walk(s)):
                    ok = True
        res.add(init or impl, (init or impl).node, "the stddev estimator rejects merge_realizations at construction", ok,
                "" if ok else "stddev with merged gradients is silently accepted", construct=f"{c.name}: stddev+merge rejected")
    res.floor = 4
    return res


# --------------------------------------------------------------------- C02.7
@rule(P)
def c02_7(ctx: Ctx) -> RuleResult:
    res = RuleResult("C02.7", "COH", "free variables are selected with the mask before the solve; every reported gradient is zeros(full width) with the values scattered at the same mask")
    X = ctx.X
    create = ctx.repo.func("ropt.results._gradients.Gradients.create")
    sites = [(f, c) for f, c in ctx.cg.callers(create) if f.module.name.startswith("ropt.ensemble_evaluator")]
    if not sites:
        raise AnalysisError("Gradients.create call in the ensemble evaluator not found")
    for f, c in sites:
        t = X.at(f, c)
        kw = dict(t[3])
        mask_p = None
        for p in f.params:
            if p == "mask":
                mask_p = ("param", f.qualname, p)
        if mask_p is None:
            # the mask read from the (frozen) configuration inside the function instead of being handed in
            for s_ in subterms(t):
                if s_[0] == "attr" and ends_with_attrs(s_, "variables", "mask") and root_of(s_)[0] == "param":
                    mask_p = s_
                    break
            if mask_p is None:
                for n_ in nodes_in(f, ast.Attribute):
                    if n_.attr == "mask" and isinstance(n_.ctx, ast.Load):
                        t_ = X.at(f, n_)
                        if t_[0] == "attr" and ends_with_attrs(t_, "variables", "mask") and root_of(t_)[0] == "param":
                            mask_p = t_
                            break
        if mask_p is None:
            raise AnalysisError("mask parameter not found in the gradient computation")
        # is this construction reached only with / without a mask?
        from ..util import bool_nnf, path_condition

        mstate = None
        st_ = c
        while parent(st_) is not None and not isinstance(st_, ast.stmt):
            st_ = parent(st_)
        pc_ = path_condition(ctx, f, st_)
        if pc_:
            g_ = bool_nnf(("bool", "and", tuple(c_ if p_ else ("unary", "not", c_) for c_, p_ in pc_)))
            for it in (g_[1] if g_[0] == "and" else [g_]):
                if it[0] == "lit" and it[1] == ("cmp", "is", mask_p, ("const", None)):
                    mstate = it[2]
        is_exp = lambda a: _expanded_inner(ctx, f, a, mask_p, mstate) is not None  # noqa: E731
        for name in ("weighted_objective", "objectives", "constraints"):
            v = kw.get(name)
            if v is None:
                res.add(f, c, f"Gradients.{name} is passed", False, construct=f"{f.name}: {name} passed")
                continue
            inner_of = [_expanded_inner(ctx, f, a, mask_p, mstate) for a in _value_alts(v, is_exp)]
            ok = bool(inner_of) and all(x is not None for x in inner_of)
            res.add(f, c, f"Gradients.{name} is expanded to full width with zeros at the fixed variables, using the variable mask", ok,
                    "" if ok else f"`{name}` is `{show(v, 80)}`: entries of fixed variables are not exactly zero / misplaced", construct=f"{f.name}: expand {name}")
        # restriction before the solve
        vs = [n for n in nodes_in(f, ast.Assign) if isinstance(n.value, ast.Subscript)]
        restr = {}
        for n in vs:
            vt = X.at(f, n.value)
            idx = vt[2]
            last = idx[1][-1] if idx[0] == "tuple" else idx
            if last == mask_p and isinstance(n.targets[0], ast.Name):
                restr[n.targets[0].id] = n
        for want in [p for p in f.params if "variables" in p]:
            ok = want in restr
            res.add(f, restr.get(want, f.node), f"`{want}` is restricted to the free variables (`[..., mask]`, positive polarity) before the gradient estimation", ok,
                    "" if ok else f"`{want}` is not masked: fixed variables take part in the solve", construct=f"{f.name}: restrict {want}")
        # weighted objective gradient
        wo = kw.get("weighted_objective")
        inner = None
        for a in _value_alts(wo, is_exp) if wo else []:
            inner = _expanded_inner(ctx, f, a, mask_p, mstate) or inner
        ok = False
        if inner is not None:
            n_ = norm(inner)
            W = V("w", lambda x: contains(x, lambda s: ends_with_attrs(s, "objectives", "weights")))
            ref = call("numpy.array", call("numpy.sum", mul(W, V("g")), axis=C(0)))
            m = match(n_, ref) or match(n_, ref[2][0])
            if m is not None:
                og = kw.get("objectives")
                ok = any(norm(_expanded_inner(ctx, f, a, mask_p, mstate) or NONE_T) == m["g"] for a in _value_alts(og, is_exp))
        res.add(f, c, "weighted-objective gradient == sum_k objective_weight_k * objective_gradient_k (axis 0) of the reported objective gradients", ok,
                "" if ok else f"weighted gradient is `{show(inner, 120) if inner else '?'}`", construct=f"{f.name}: weighted gradient")
    res.floor = 6
    return res


def _value_alts(t: Term, stop=None) -> list:
    out = []
    if stop is not None and stop(t):
        return [t]
    for a in alts(t):
        if a[0] == "ifexp" and not (stop is not None and stop(a)):
            out += _value_alts(a[2], stop) + _value_alts(a[3], stop)
        elif a != ("const", None):
            out.append(a)
    return out


NONE_T = ("const", None)


def _expanded_inner(ctx: Ctx, f: Func, a: Term, mask_p: Term, mstate=None):
    """``a`` is `g if mask is None else zeros(g.shape[:-1] + (mask.size,))[..., mask] := g`
    (written in place or through a helper): returns g, else None.  ``mstate`` tells whether the
    construction site itself is only reached with `mask is None` (True: the plain value is the
    expansion) or `mask is not None` (False: the value must be the scatter)."""
    if mstate is True and a[0] not in ("ifexp", "phi", "update"):
        return a
    if mstate is False and a[0] == "update":
        base_, idx_, val_ = a[1], a[3], a[4]
        if (a[2] == ("root",) and base_[0] == "call" and base_[1] == ("global", "numpy.zeros") and contains(base_, lambda s: s == ("attr", mask_p, "size"))
                and idx_ == ("tuple", (("const", Ellipsis), mask_p))):
            return val_
        return None
    if a[0] == "call":
        hs = ctx.cg.resolve_fn(a[1], f)
        if hs and all(_is_expander(ctx, h) for h in hs) and len(a[2]) == 2 and a[2][1] == mask_p:
            return a[2][0]
        return None
    def scatter_of(y):
        """y == zeros(... mask.size ...)[..., mask] := g  ->  g"""
        if y[0] != "update" or y[2] != ("root",):
            return None
        base, idx, val = y[1], y[3], y[4]
        zeros = base[0] == "call" and base[1] == ("global", "numpy.zeros") and contains(base, lambda s: s == ("attr", mask_p, "size"))
        return val if zeros and idx == ("tuple", (("const", Ellipsis), mask_p)) else None

    if a[0] == "phi":
        # the two alternatives merged at a join (if/else assigning one variable)
        gs = {scatter_of(y) for y in a[1] if y[0] == "update"}
        plain = {y for y in a[1] if y[0] != "update" and y != NONE_T}
        if len(gs) == 1 and None not in gs and plain <= gs:
            return next(iter(gs))
        return None
    if a[0] != "ifexp":
        return None
    test, x, y = a[1], a[2], a[3]
    if test == ("cmp", "is not", mask_p, NONE_T):
        x, y = y, x
    elif test != ("cmp", "is", mask_p, NONE_T):
        return None
    return x if scatter_of(y) == x else None


def _is_expander(ctx: Ctx, h: Func) -> bool:
    """returns gradients unchanged without a mask, else zeros(shape[:-1] + (mask.size,)) with [..., mask] = gradients."""
    rt = ctx.X.return_term(h)
    ps = h.positional
    if len(ps) < 2:
        return False
    g, m = ("param", h.qualname, ps[-2]), ("param", h.qualname, ps[-1])
    ok_plain = ok_exp = False
    for a in alts(rt):
        if a == g:
            ok_plain = True
        elif a[0] == "update":
            base, idx, val = a[1], a[3], a[4]
            zeros = base[0] == "call" and base[1] == ("global", "numpy.zeros") and contains(base, lambda s: s == ("attr", m, "size"))
            idx_ok = idx == ("tuple", (("const", Ellipsis), m))
            ok_exp = zeros and idx_ok and val == g
        else:
            return False
    return ok_plain and ok_exp


# --------------------------------------------------------------------- C02.8
@rule(P)
def c02_8(ctx: Ctx) -> RuleResult:
    """Samplers perturb free variables only (shared with C09.4): a perturbed fixed
    variable adds an unexplained term to the function differences and biases the solve."""
    from .c09 import c09_4

    r = c09_4(ctx)
    for i in r.instances:
        i.rule = "C02.8"
    r.rule, r.title = "C02.8", "perturbations are confined to the free variables of each sampler (mask & (samplers == idx))"
    return r


@rule(P)
def c02_9(ctx: Ctx) -> RuleResult:
    """Shared with C03.1: failure detection reads objective column 0 only, so a NaN anywhere in a
    realization's objectives or constraints has to be propagated to the whole row first."""
    from .c03 import c03_1

    r = c03_1(ctx)
    for i in r.instances:
        i.rule = "C02.9"
    r.rule, r.title = "C02.9", "a realization that fails in any function (objective or constraint) is failed for the gradient: its NaN is propagated to the column the failure flags are read from"
    return r


@rule(P)
def c02_10(ctx: Ctx) -> RuleResult:
    """Shared with C07.5: the ensemble-level function cache (consumed under an exact point test, stored whenever
    the functions-only path ran, cleared before a combined evaluation)."""
    from .c07 import c07_5

    r = c07_5(ctx)
    for i in r.instances:
        i.rule = "C02.10"
    r.rule, r.title = "C02.10", "the function values a gradient is differenced against are those of the requested point: the cached function result is reused only for exactly that point"
    return r
