"""C18 - validated configurations are canonical, frozen and stable under re-validation.

  C18.1 TS     every method that calls _mutable() returns normally only in state immutable
  C18.2 EFFECT every value stored into an array-typed config field is frozen (read-only)
  C18.3 TABLE  every config model is frozen or ends immutable; weights normalised;
               thresholds clamped; lower > upper rejected; per-variable arrays broadcast
  C18.4 IDEM   no validator rescales a dumped field by a non-idempotent function of
               itself outside a transform-context guard
  C18.5 TS     validating an EnOptConfig instance returns it unchanged
"""

from __future__ import annotations

import ast

from ..cfg import cfg_of
from ..core import META, Ctx, RuleResult, rule
from ..dataflow import dataflow_of
from ..model import AnalysisError, Cls, Func, dotted, norm_stmt, parent
from ..paths import PathFinder, describe_path
from ..terms import Term, alts, contains, root_of, show, subterms
from ..util import calls_in, nodes_in

P = "C18"
IMM = "ropt.config.utils.ImmutableBaseModel"
ARRAY_TYPES = {"Array1D", "Array2D", "ArrayEnum", "Array1DInt", "Array1DBool"}

META[P] = {
    "explanation": (
        "Typestate of the _mutable()/_immutable() protocol on every CFG path of every config-model method; ownership (frozen-ness) of every value "
        "stored into an array-typed config field through attribute stores, model_copy(update=) and model_construct(**); a table of canonicalisation "
        "obligations per config class; and an idempotence check of every self-dependent field rewrite."
    ),
    "not_decided": ["equivalence of re-validated configurations as a value statement (floats)", "pydantic's own behaviour"],
}


def config_classes(ctx: Ctx) -> list[Cls]:
    out = [c for c in ctx.repo.subclasses(IMM) if c.module.name.startswith("ropt.config")]
    if not out:
        raise AnalysisError("no ImmutableBaseModel subclasses found")
    return out


def plain_models(ctx: Ctx) -> list[Cls]:
    """pydantic BaseModel subclasses in ropt.config that are not ImmutableBaseModel."""
    out = []
    for c in ctx.repo.classes.values():
        if not c.module.name.startswith("ropt.config"):
            continue
        if c.qualname == IMM or ctx.repo.is_subclass(c, IMM):
            continue
        if any(b.endswith("BaseModel") for b in c.base_names):
            out.append(c)
    return sorted(out, key=lambda c: c.qualname)


def latch_names(ctx: Ctx) -> dict:
    """{'flag': attribute tested by ImmutableBaseModel.__setattr__, 'freeze': names of the methods
    that set it to True, 'thaw': names of the methods that set it to False} - found from the code,
    not from the names."""
    cached = ctx.__dict__.get("_c18_latch")
    if cached is not None:
        return cached
    base = ctx.repo.classes.get("ropt.config.utils.ImmutableBaseModel")
    out = {"flag": None, "freeze": set(), "thaw": set()}
    if base is not None:
        sa_ = base.methods.get("__setattr__")
        if sa_ is not None:
            # the flag: the attribute of self that __setattr__ tests before it raises / stores
            if any(isinstance(x, ast.Raise) for x in ast.walk(sa_.node)):
                for n in nodes_in(sa_, ast.If):
                    for x in ast.walk(n.test):
                        if isinstance(x, ast.Attribute) and isinstance(x.value, ast.Name) and x.value.id == sa_.positional[0] and not x.attr.startswith("__"):
                            out["flag"] = x.attr
        for m in base.methods.values():
            for n in nodes_in(m, ast.Assign):
                for t in n.targets:
                    if isinstance(t, ast.Attribute) and t.attr == out["flag"] and isinstance(n.value, ast.Constant) and isinstance(n.value.value, bool):
                        out["freeze" if n.value.value else "thaw"].add(m.name)
    if out["flag"] is None or not out["freeze"] or not out["thaw"]:
        raise AnalysisError("immutability latch of ImmutableBaseModel (flag tested in __setattr__, methods setting it) not found")
    ctx.__dict__["_c18_latch"] = out
    return out


def _latch_nodes(ctx: Ctx, cfg, f: Func, freeze: bool):
    """CFG nodes of f that freeze (or thaw) the model: calls of the latch methods on self, or a
    direct store of the flag."""
    L = latch_names(ctx)
    out = set()
    for name in L["freeze" if freeze else "thaw"]:
        out |= _self_call_nodes(cfg, f, name)
    if f.positional:
        for n in nodes_in(f, ast.Assign):
            for t in n.targets:
                if isinstance(t, ast.Attribute) and t.attr == L["flag"] and isinstance(t.value, ast.Name) and t.value.id == f.positional[0] and isinstance(n.value, ast.Constant) and n.value.value is freeze:
                    out.update(cfg.node_containing(n))
    return out


def _self_call_nodes(cfg, f: Func, name: str):
    out = set()
    if not f.positional:
        return out
    selfname = f.positional[0]
    for call in calls_in(f):
        if (
            isinstance(call.func, ast.Attribute)
            and call.func.attr == name
            and isinstance(call.func.value, ast.Name)
            and call.func.value.id == selfname
        ):
            out.update(cfg.node_containing(call))
    return out


# --------------------------------------------------------------------- C18.1
@rule(P)
def c18_1(ctx: Ctx) -> RuleResult:
    res = RuleResult("C18.1", "TS", "after _mutable() every normal return is preceded by _immutable()")
    for c in config_classes(ctx):
        for m in c.methods.values():
            cfg = cfg_of(ctx.repo, m)
            mut = _latch_nodes(ctx, cfg, m, False)
            if not mut:
                continue
            imm = _latch_nodes(ctx, cfg, m, True)
            pf = PathFinder(cfg, dataflow_of(ctx.repo, m))
            for n in sorted(mut, key=lambda n: n.id):
                path = pf.find_path(n, lambda x: x is cfg.exit, blocked=lambda x: x in imm)
                ok = path is None
                res.add(
                    m, n.ast, "every path from this _mutable() to a normal return passes _immutable()", ok,
                    "" if ok else f"{c.name} can be left mutable: a normal return is reachable without _immutable()",
                    [] if ok else describe_path(m, path),
                    construct=f"{c.name}.{m.name}: {norm_stmt(n.ast)}",
                )
    res.floor = 6
    return res


# --------------------------------------------------------------------- C18.2
def array_fields(c: Cls) -> set[str]:
    out = set()
    for name, (ann, _d) in c.fields.items():
        if ann is not None and any(isinstance(n, ast.Name) and n.id in ARRAY_TYPES for n in ast.walk(ann)):
            out.add(name)
    return out


class Frozen:
    """Which terms denote read-only arrays."""

    NUMPY_READONLY = {"numpy.broadcast_to"}

    def __init__(self, ctx: Ctx) -> None:
        self.ctx = ctx
        self.memo: dict[str, bool] = {}

    def producer(self, f: Func) -> bool:
        """Every value returned by f is frozen."""
        if f.qualname in self.memo:
            return self.memo[f.qualname]
        self.memo[f.qualname] = False  # cycle guard
        rets = []
        for r_ in nodes_in(f, ast.Return):
            if r_.value is None:
                continue
            if isinstance(r_.value, ast.Name) and _returned_under_is_none(r_):
                continue  # `if x is None: return x` passes None through
            rets.append(self.ctx.X.at(f, r_.value))
        ok = bool(rets) and all(self.term(t, f) for t in rets)
        self.memo[f.qualname] = ok
        return ok

    def term(self, t: Term, f: Func, depth: int = 0) -> bool:
        if depth > 12:
            return False
        k = t[0]
        if k == "phi":
            return all(self.term(a, f, depth + 1) for a in t[1] if a != ("const", None))
        if k == "ifexp":
            return self.term(t[2], f, depth + 1) and self.term(t[3], f, depth + 1)
        if k == "const":
            return t[1] is None
        if k == "mut":
            # x.setflags(write=False) freezes x
            if t[2] == "setflags":
                call = t[3]
                if call[0] == "call" and any(kw == "write" and v == ("const", False) for kw, v in call[3]):
                    return True
            return self.term(t[1], f, depth + 1) and t[2] == "setflags"
        if k == "item":
            return self.term(t[1], f, depth + 1)
        if k == "call":
            fn = t[1]
            if fn[0] == "global":
                if fn[1] in self.NUMPY_READONLY:
                    return True
                g = self.ctx.repo.funcs.get(fn[1])
                if g is not None:
                    return self.producer(g)
                if fn[1] in self.ctx.repo.classes:
                    return False
            if fn[0] == "builtin" and fn[1] == "tuple" and t[2]:
                return self.term(t[2][0], f, depth + 1)
            return False
        if k == "comp":
            return self.term(t[2], f, depth + 1)
        if k == "tuple":
            return all(self.term(a, f, depth + 1) for a in t[1])
        if k == "attr":
            # another validated config field (already frozen by this rule)
            _r, = (root_of(t),)
            return _r[0] == "param" and t[2] in _ALL_ARRAY_FIELDS
        return False


_ALL_ARRAY_FIELDS: set[str] = set()


def _returned_under_is_none(r_: ast.Return) -> bool:
    name = r_.value.id  # type: ignore[union-attr]
    cur = parent(r_)
    child: ast.AST = r_
    while cur is not None and not isinstance(cur, (ast.FunctionDef, ast.Lambda)):
        if isinstance(cur, ast.If) and any(child is s for s in cur.body):
            t = cur.test
            if (
                isinstance(t, ast.Compare) and len(t.ops) == 1 and isinstance(t.ops[0], ast.Is)
                and isinstance(t.left, ast.Name) and t.left.id == name
                and isinstance(t.comparators[0], ast.Constant) and t.comparators[0].value is None
            ):
                return True
        child = cur
        cur = parent(cur)
    return False


def field_stores(ctx: Ctx, c: Cls):
    """(method, node, field, value term) for attribute stores, model_copy
    updates and model_construct keyword values in methods of ``c``."""
    X = ctx.X
    for m in c.methods.values():
        if not m.positional:
            continue
        selfname = m.positional[0]
        for n in nodes_in(m, (ast.Assign, ast.AnnAssign)):
            targets = n.targets if isinstance(n, ast.Assign) else [n.target]
            for t in targets:
                if isinstance(t, ast.Attribute) and isinstance(t.value, ast.Name) and t.value.id == selfname and n.value is not None:
                    yield m, n, t.attr, X.at(m, n.value), "attribute store"
                elif isinstance(t, (ast.Tuple, ast.List)) and n.value is not None:
                    # `self.a, self.b = x, y`
                    from ..terms import _project

                    vt = None
                    for i, e in enumerate(t.elts):
                        if isinstance(e, ast.Attribute) and isinstance(e.value, ast.Name) and e.value.id == selfname:
                            vt = X.at(m, n.value) if vt is None else vt
                            yield m, n, e.attr, _project(vt, (i,)), "attribute store"
        for call in calls_in(m):
            if not isinstance(call.func, ast.Attribute):
                continue
            if call.func.attr == "model_copy":
                for kw in call.keywords:
                    if kw.arg == "update":
                        d = X.at(m, kw.value)
                        for dd in alts(d):
                            if dd[0] == "dict":
                                for k, v in dd[1]:
                                    if k[0] == "const":
                                        yield m, call, k[1], v, "model_copy(update=)"
            elif call.func.attr == "model_construct":
                t = X.at(m, call)
                for k, v in t[3]:
                    if k == "**":
                        # a dict display `{**dump, "field": value}`: its constant keys
                        for dv in alts(v):
                            # ... or a merge `dump | {"field": value}` (the right operand wins)
                            while dv[0] == "binop" and dv[1] == "|":
                                for rv in alts(dv[3]):
                                    if rv[0] == "dict":
                                        for kk, vv in rv[1]:
                                            if kk[0] == "const" and isinstance(kk[1], str):
                                                yield m, call, kk[1], vv, "model_construct(**)"
                                dv = dv[2]
                            if dv[0] == "dict":
                                for kk, vv in dv[1]:
                                    if kk[0] == "const" and isinstance(kk[1], str):
                                        yield m, call, kk[1], vv, "model_construct(**)"
                        # values dict: look for update(...) keyword stores in its history
                        for s in ctx.X.closure(v):
                            if s[0] == "mut" and s[2] == "update" and s[3][0] == "call":
                                for kk, vv in s[3][3]:
                                    yield m, call, kk, vv, "model_construct(**)"
                            if s[0] == "update" and s[3][0] == "const":
                                yield m, call, s[3][1], s[4], "model_construct(**)"
                    else:
                        yield m, call, k, v, "model_construct(**)"


@rule(P)
def c18_2(ctx: Ctx) -> RuleResult:
    res = RuleResult("C18.2", "EFFECT", "every array stored into a config field is read-only")
    fz = Frozen(ctx)
    classes = config_classes(ctx)
    _ALL_ARRAY_FIELDS.clear()
    for c in classes:
        _ALL_ARRAY_FIELDS.update(array_fields(c))
    for c in classes:
        af = array_fields(c)
        for m, node, fieldname, val, how in field_stores(ctx, c):
            # stores through model_copy/model_construct target the class named in the call
            if fieldname not in af and fieldname not in _ALL_ARRAY_FIELDS:
                continue
            ok = fz.term(val, m)
            res.add(
                m, node, f"value stored into array field `{fieldname}` via {how} is frozen (immutable_array / broadcast of one)", ok,
                "" if ok else f"`{show(val, 110)}` is a writable array: the validated configuration can be mutated in place",
                construct=f"{c.name}.{m.name}: {fieldname} <- {how}",
            )
    # the BeforeValidator converters of the Array* annotated types
    vt = ctx.repo.module("ropt.config.validated_types")
    n_conv = 0
    for name, expr in vt.constants.items():
        if name not in ARRAY_TYPES:
            continue
        for n in ast.walk(expr):
            if isinstance(n, ast.Call) and dotted(n.func) == "BeforeValidator" and n.args:
                q = ctx.repo.resolve_in_module(vt, dotted(n.args[0]) or "")
                g = ctx.repo.funcs.get(q or "")
                if g is None:
                    raise AnalysisError(f"converter of {name} not found")
                n_conv += 1
                ok = fz.producer(g)
                res.add(g, g.node, f"converter of annotated type {name} returns a frozen array (or None)", ok,
                        "" if ok else "converter returns a writable array", construct=f"{name} converter {g.name}")
    res.floor = 12
    return res


# --------------------------------------------------------------------- C18.3
def _after_validators(c: Cls) -> list[Func]:
    out = []
    for m in c.methods.values():
        for d in m.decorators:
            if "model_validator" in d and "after" in d:
                out.append(m)
    return sorted(out, key=lambda m: m.lineno)


def _model_config_frozen(c: Cls) -> bool:
    ann, default = c.fields.get("model_config", (None, None))
    if isinstance(default, ast.Call):
        for kw in default.keywords:
            if kw.arg == "frozen" and isinstance(kw.value, ast.Constant) and kw.value.value is True:
                return True
    return False


@rule(P)
def c18_3(ctx: Ctx) -> RuleResult:
    res = RuleResult("C18.3", "TABLE", "canonicalisation table: frozen/immutable models, normalised weights, clamped thresholds, bound order, broadcasts")
    X = ctx.X
    for c in config_classes(ctx):
        vals = _after_validators(c)
        # (a) some after-validator establishes immutability on every normal path from its entry
        est = []
        for m in vals:
            cfg = cfg_of(ctx.repo, m)
            imm = _latch_nodes(ctx, cfg, m, True)
            if not imm:
                continue
            pf = PathFinder(cfg, dataflow_of(ctx.repo, m))
            if pf.find_path(cfg.entry, lambda x: x is cfg.exit, blocked=lambda x: x in imm) is None:
                est.append(m)
        ok = bool(est) or _model_config_frozen(c)
        res.add(None, c.node, "the model ends immutable: an after-validator calls _immutable() on every normal path (or model_config frozen=True)", ok,
                "" if ok else f"{c.name} has no validator that establishes immutability", construct=f"{c.name}: ends immutable",
                where=f"{c.module.relpath}:{c.node.lineno}", fname=c.qualname)
        # (b) weights are normalised
        if "weights" in c.fields:
            stores = [(m, n, v) for m, n, fn, v, _h in field_stores(ctx, c) if fn == "weights"]
            ok = bool(stores) and all(
                v[0] == "call" and v[1][0] == "global" and v[1][1].endswith(".normalize")
                and contains(v, lambda s: s[0] == "attr" and s[2] == "weights") for _m, _n, v in stores
            )
            res.add(None, c.node, "`weights` is replaced by normalize(self.weights)", ok,
                    "" if ok else "weights are not normalised to sum one", construct=f"{c.name}: weights normalised",
                    where=f"{c.module.relpath}:{c.node.lineno}", fname=c.qualname)
        # (c) thresholds clamped
        for fld, limit_attr in (("realization_min_success", ("weights", "size")), ("perturbation_min_success", ("number_of_perturbations",))):
            if fld in c.fields:
                _check_clamp(ctx, res, c, fld, limit_attr)
        # (d) lower > upper rejected
        if "lower_bounds" in c.fields and "upper_bounds" in c.fields:
            _check_bound_order(ctx, res, c)
        # (e) per-variable / per-constraint arrays are broadcast to full length
        _check_broadcasts(ctx, res, c)
        # (f) shape rejections look at the configured arrays themselves, not at values derived from them
        _check_shape_rejections(ctx, res, c)
    for c in plain_models(ctx):
        ok = _model_config_frozen(c)
        res.add(None, c.node, "plain pydantic config model has model_config frozen=True", ok,
                "" if ok else f"{c.name} is not frozen", construct=f"{c.name}: frozen", where=f"{c.module.relpath}:{c.node.lineno}", fname=c.qualname)
    # normalize(): divides by the sum and freezes; rejects non-positive sums
    norm = ctx.repo.func("ropt.config.utils.normalize")
    rt = X.return_term(norm)

    def normalised(a):
        return any(
            s[0] == "binop" and s[1] == "/" and s[2][0] == "param" and s[3][0] == "call" and s[3][1] == ("attr", s[2], "sum")
            for s in subterms(a)
        )

    ok = all(normalised(a) for a in alts(rt)) and Frozen(ctx).producer(norm)
    res.add(norm, norm.node, "normalize returns immutable_array(array / array.sum()) on every path", ok,
            "" if ok else f"normalize can return `{show([a for a in alts(rt) if not normalised(a)][0] if [a for a in alts(rt) if not normalised(a)] else rt, 90)}`: weights that are not divided by their sum (they do not sum to one)",
            construct="normalize definition")
    raises = [n for n in nodes_in(norm, ast.Raise)]
    res.add(norm, norm.node, "normalize rejects weight vectors whose sum is not positive", bool(raises), construct="normalize rejects non-positive sum")
    res.floor = 20
    return res


def _check_shape_rejections(ctx: Ctx, res: RuleResult, c: Cls) -> None:
    """A `raise` guarded by a comparison of `<array>.shape[...]` / `.size` / `.ndim` rejects an inconsistent
    shape.  The array inspected must be a field as configured (`self.F`): a value that already went through a
    transform or a broadcast can have acquired the expected shape (NumPy broadcasts a one-column matrix)."""
    from ..util import bool_nnf, path_condition

    for m in c.methods.values():
        if not m.positional:
            continue
        selfp = ("param", m.qualname, m.positional[0])
        for r_ in nodes_in(m, ast.Raise):
            lits = []
            for t_, pol in path_condition(ctx, m, r_):
                g_ = bool_nnf(t_ if pol else ("unary", "not", t_))
                lits.extend(g_[1] if g_[0] == "and" else [g_])
            bases = []
            atoms = []
            for it in lits:
                stack = [it]
                while stack:
                    x = stack.pop()
                    if x[0] == "lit":
                        atoms.append(x[1])
                    elif x[0] in ("and", "or"):
                        stack.extend(x[1])
            for at_ in atoms:
                for sub_ in subterms(at_):
                    if isinstance(sub_, tuple) and sub_ and sub_[0] == "attr" and sub_[2] in ("shape", "ndim") and sub_[1] != selfp:
                        bases.append(sub_[1])
            for b in bases:
                flds = [s_ for s_ in subterms(b) if s_[0] == "attr" and s_[1] == selfp]
                if not flds:
                    continue  # shape of something else (a parameter, another config)
                derived = contains(b, lambda s_: s_[0] == "call" and not (s_[1][0] == "global" and s_[1][1].startswith("numpy.as")))
                ok = not derived
                res.add(m, r_, f"the shape test that rejects an inconsistent `{flds[0][2]}` inspects the configured array itself", ok,
                        "" if ok else f"the rejected shape is that of `{show(b, 90)}`: a value derived from `{flds[0][2]}` (transformed / reconstructed), whose shape can differ from the configured one",
                        construct=f"{c.name}.{m.name}: shape rejection of {flds[0][2]}")


def _check_clamp(ctx: Ctx, res: RuleResult, c: Cls, fld: str, limit_attr: tuple[str, ...]) -> None:
    """`if self.F is None or self.F > LIMIT: self.F = LIMIT` (order-type check)."""
    found = False
    for m in _after_validators(c):
        selfname = m.positional[0]
        for n in nodes_in(m, ast.Assign):
            for t in n.targets:
                if isinstance(t, ast.Attribute) and t.attr == fld and isinstance(t.value, ast.Name) and t.value.id == selfname:
                    found = True
                    val = ctx.X.at(m, n.value)
                    from ..terms import ends_with_attrs

                    def is_limit(t, limit_attr=limit_attr):
                        if ends_with_attrs(t, *limit_attr):
                            return True
                        return (
                            len(limit_attr) == 2 and t[0] == "attr" and t[2] == limit_attr[1]
                            and any(s[0] == "attr" and s[2] == limit_attr[0] for s in ctx.X.closure(t[1]))
                        )

                    ok_val = is_limit(val)
                    # controlling condition: `F is None or F > limit` in any spelling
                    from ..util import bool_nnf, linear_cmp, nnf_literals, path_condition

                    cond_ok = False
                    why = "store is not guarded by `F is None or F > limit`"
                    pc = path_condition(ctx, m, n)
                    if pc:
                        g_ = bool_nnf(("bool", "and", tuple(c_ if p else ("unary", "not", c_) for c_, p in pc)))
                        disj = [it for it in (g_[1] if g_[0] == "or" else [g_])]
                        lits = [(it[1], it[2]) for it in disj if it[0] == "lit"]
                        is_f = lambda x: x[0] == "attr" and x[2] == fld  # noqa: E731
                        has_none = any(p and a[0] == "cmp" and a[1] == "is" and a[3] == ("const", None) and is_f(a[2]) for a, p in lits)
                        gt = False
                        for a, p in lits:
                            lc = linear_cmp(a, p)
                            if lc is None:
                                continue
                            coeffs, const, op = lc
                            fs = [x for x in coeffs if is_f(x)]
                            ls = [x for x in coeffs if is_limit(x)]
                            if op == ">=" and len(coeffs) == 2 and len(fs) == 1 and len(ls) == 1 and coeffs[fs[0]] > 0 and coeffs[ls[0]] == -coeffs[fs[0]] and const in (0, -1, -coeffs[fs[0]]):
                                gt = True
                        cond_ok = has_none and gt and len(lits) == len(disj)
                        if not gt:
                            why = "the clamp condition does not compare the threshold with its limit as `F > limit`"
                        elif not has_none:
                            why = "the default (None) is not replaced by the limit"
                    ok = ok_val and cond_ok
                    res.add(m, n, f"`{fld}` is clamped: replaced by {'.'.join(limit_attr)} iff None or larger", ok,
                            "" if ok else (why if ok_val else f"clamped to `{show(val, 60)}` instead of {'.'.join(limit_attr)}"),
                            construct=f"{c.name}: clamp {fld}")
    if not found:
        res.add(None, c.node, f"`{fld}` is clamped to its limit", False, "no clamping store found", construct=f"{c.name}: clamp {fld}",
                where=f"{c.module.relpath}:{c.node.lineno}", fname=c.qualname)


def _check_bound_order(ctx: Ctx, res: RuleResult, c: Cls) -> None:
    """Some `raise` of an after-validator is reached exactly under `lower > upper` somewhere: its path condition
    (enclosing tests and negated early exits) contains a positive literal built on that comparison."""
    from ..util import bool_nnf, path_condition

    ok = False
    site = None
    for m in _after_validators(c):
        for r_ in nodes_in(m, ast.Raise):
            for t_, pol in path_condition(ctx, m, r_):
                g_ = bool_nnf(t_ if pol else ("unary", "not", t_))
                for it in (g_[1] if g_[0] == "and" else [g_]):
                    if it[0] != "lit" or not it[2]:
                        continue
                    for s in ctx.X.closure(it[1]):
                        if s[0] == "cmp" and s[1] in (">", "<"):
                            lo, hi = (s[2], s[3]) if s[1] == ">" else (s[3], s[2])
                            if _derives_from_field(ctx, lo, "lower_bounds") and _derives_from_field(ctx, hi, "upper_bounds"):
                                ok = True
                                site = (m, r_)
    res.add(site[0] if site else None, site[1] if site else c.node, "a validator raises when any lower bound exceeds its upper bound", ok,
            "" if ok else "no `lower > upper` rejection found", construct=f"{c.name}: lower>upper rejected",
            where=None if site else f"{c.module.relpath}:{c.node.lineno}", fname=None if site else c.qualname)


def _derives_from_field(ctx: Ctx, t: Term, fld: str) -> bool:
    return any(s[0] == "attr" and s[2] == fld for s in ctx.X.closure(t))


def _check_broadcaster(ctx: Ctx, res: RuleResult, g: Func) -> None:
    """`broadcast_1d_array(array, name, size)`: every returned value has shape (size,) - it is `np.broadcast_to(x, (size,))`
    (which raises for anything that is not a scalar, a length-1 or a length-`size` vector), the empty array where size == 0,
    or the input itself where its *shape* was compared with (size,).  A test of the element count lets a (1, n) or (n, 1)
    matrix through."""
    from ..util import bool_nnf, path_condition

    if getattr(res, "_broadcasters", None) is None:
        res._broadcasters = set()
    if g.qualname in res._broadcasters:
        return
    res._broadcasters.add(g.qualname)
    X = ctx.X
    size_p = next((("param", g.qualname, p_) for p_ in g.params if p_ in ("size", "length", "n")), None)
    arr_p = ("param", g.qualname, g.positional[0]) if g.positional else None

    def strip(t):
        while t[0] == "call" and len(t[2]) >= 1 and (t[1][0] == "global" and t[1][1].split(".")[-1] in ("immutable_array", "asarray", "array", "ascontiguousarray")):
            t = t[2][0]
        return t

    for r_ in nodes_in(g, ast.Return):
        if r_.value is None:
            continue
        pc = path_condition(ctx, g, r_)
        lits = []
        if pc:
            g_ = bool_nnf(("bool", "and", tuple(c_ if p_ else ("unary", "not", c_) for c_, p_ in pc)))
            lits = [(it[1], it[2]) for it in (g_[1] if g_[0] == "and" else [g_]) if it[0] == "lit"]
        rt = X.at(g, r_.value)
        ok = True
        why = ""
        for alt in (rt[1] if rt[0] == "phi" else [rt]):
            a = strip(alt)
            if a[0] == "call" and a[1] == ("global", "numpy.broadcast_to") and len(a[2]) >= 2 and a[2][1] == ("tuple", (size_p,)):
                continue
            if a[0] in ("list", "tuple") and not a[1] and any(p_ and x_ == ("cmp", "==", size_p, ("const", 0)) for x_, p_ in lits):
                continue
            if strip(a) == arr_p or a == arr_p:
                shape_ok = any(p_ and x_[0] == "cmp" and x_[1] == "==" and ("attr", arr_p, "shape") in (x_[2], x_[3]) and ("tuple", (size_p,)) in (x_[2], x_[3]) for x_, p_ in lits)
                if shape_ok:
                    continue
                ok, why = False, "the input is returned as it is without a test of its shape against (size,): an array with the right number of elements but another shape (a 1 x n or n x 1 matrix) is accepted"
                break
            ok, why = False, f"returns `{show(alt, 70)}`, which is not a broadcast to (size,)"
            break
        res.add(g, r_, "every value returned by the 1-D broadcaster has shape (size,)", ok, why, construct=f"{g.name}: return {norm_stmt(r_)[:50]}")


def _check_broadcasts(ctx: Ctx, res: RuleResult, c: Cls) -> None:
    """Array fields that are documented as per-variable / per-constraint are
    stored from a broadcast (broadcast_1d_array / np.broadcast_to /
    broadcast_arrays) somewhere in the class."""
    table = {
        "VariablesConfig": ["lower_bounds", "upper_bounds", "types", "mask"],
        "LinearConstraintsConfig": ["lower_bounds", "upper_bounds"],
        "NonlinearConstraintsConfig": ["lower_bounds", "upper_bounds"],
        "GradientConfig": ["perturbation_magnitudes", "boundary_types", "perturbation_types"],
    }
    for fld in table.get(c.name, []):
        stores = [(m, n, v) for m, n, fn, v, _h in field_stores(ctx, c) if fn == fld]

        def from_broadcast(v):
            return any(s[0] == "call" and s[1][0] == "global" and s[1][1].split(".")[-1] in ("broadcast_1d_array", "broadcast_to", "broadcast_arrays")
                       for s in ctx.X.closure(v))

        def from_validated(v, fld=fld):
            return any(s[0] == "attr" and s[2] == fld and root_of(s)[0] == "param" for s in ctx.X.closure(v))

        ok = any(from_broadcast(v) for _m, _n, v in stores) and all(from_broadcast(v) or from_validated(v) for _m, _n, v in stores)
        # the package's own broadcaster really yields the requested 1-D shape on every return
        for _m, _n, v in stores:
            for s_ in ctx.X.closure(v):
                if s_[0] == "call" and s_[1][0] == "global" and s_[1][1] in ctx.repo.funcs and s_[1][1].split(".")[-1].startswith("broadcast_1d"):
                    _check_broadcaster(ctx, res, ctx.repo.funcs[s_[1][1]])
        m0, n0 = (stores[0][0], stores[0][1]) if stores else (None, c.node)
        res.add(m0, n0, f"`{fld}` is broadcast to full length before it is stored", ok,
                "" if ok else f"a store of `{fld}` does not derive from a broadcast", construct=f"{c.name}: broadcast {fld}",
                where=None if m0 else f"{c.module.relpath}:{c.node.lineno}", fname=None if m0 else c.qualname)


# --------------------------------------------------------------------- C18.4
_CONTEXT_NAMES = {"context", "transforms", "info"}


def _under_context_guard(m: Func, node: ast.AST) -> bool:
    cur = parent(node)
    child = node
    while cur is not None and cur is not m.node:
        if isinstance(cur, ast.If) and any(child is s for s in cur.body):
            names = {n.id for n in ast.walk(cur.test) if isinstance(n, ast.Name)} | {n.attr for n in ast.walk(cur.test) if isinstance(n, ast.Attribute)}
            if names & _CONTEXT_NAMES:
                return True
        child = cur
        cur = parent(cur)
    return False


def _selector_consumed(ctx: Ctx, c: Cls, m: Func, node: ast.AST, val, bt, old) -> bool:
    """The rescaling `bt` is applied only where a selector `F2 == K` holds, the other entries keep the
    previous value, and the same store rewrites the selecting field F2 to a different constant exactly
    where the selector holds: `where(F2 == K, <rescaled>, <old>)` next to `F2 <- where(F2 == K, K2, F2)`,
    K2 != K.  After one validation the selector is false everywhere, so a second validation keeps the
    value: the rewrite is idempotent although it multiplies the field by something."""
    def where3(t):
        return t[0] == "call" and t[1] == ("global", "numpy.where") and len(t[2]) == 3

    def selector(mt):
        # (field, K) of `<value of field F2 of self> == K`, K a module-level constant / enum member
        if mt[0] != "cmp" or mt[1] != "==":
            return None
        for a, b in ((mt[2], mt[3]), (mt[3], mt[2])):
            if b[0] not in ("global", "const"):
                continue
            flds = {s_[2] for s_ in subterms(a) if s_[0] == "attr" and s_[1][0] == "param" and m.positional and s_[1][-1] == m.positional[0]}
            if len(flds) == 1 and not contains(a, lambda s_: s_[0] in ("binop", "aug", "unary")):
                return next(iter(flds)), a, b
        return None

    for w in subterms(val):
        if not where3(w):
            continue
        mt, a_, b_ = w[2]
        if not contains(a_, lambda s_: s_ == bt) or contains(b_, lambda s_: s_[0] in ("binop", "aug")) or not contains(b_, old):
            continue
        sel = selector(mt)
        if sel is None:
            continue
        f2, f2val, k = sel
        # the sibling store of F2 in the same construct
        for m2, node2, fld2, val2, _how in field_stores(ctx, c):
            if m2 is not m or node2 is not node or fld2 != f2:
                continue
            for w2 in subterms(val2):
                if where3(w2) and w2[2][0] == mt and w2[2][1][0] in ("global", "const") and w2[2][1] != k and w2[2][2] == f2val:
                    return True
    return False


@rule(P)
def c18_4(ctx: Ctx) -> RuleResult:
    res = RuleResult("C18.4", "IDEM", "no field is rewritten as a non-idempotent function of its own validated value outside a transform-context guard")
    X = ctx.X
    n_checked = 0
    for c in config_classes(ctx):
        all_fields = set(c.fields)
        for m, node, fld, val, how in field_stores(ctx, c):
            if fld not in all_fields:
                continue
            n_checked += 1
            old = lambda s, fld=fld: s[0] == "attr" and s[2] == fld and root_of(s)[0] == "param"  # noqa: E731
            if not contains(val, old):
                res.add(m, node, f"`{fld}` is rewritten independently of its previous value", True, construct=f"{c.name}.{m.name}: {fld} ({how})")
                continue
            # arithmetic AST nodes of the method whose value flows into the store
            valsubs = set(subterms(val))
            bad = None
            for bn in nodes_in(m, (ast.BinOp, ast.AugAssign)):
                if not isinstance(bn.op, (ast.Mult, ast.Div, ast.Add, ast.Sub, ast.Pow, ast.FloorDiv, ast.Mod)):
                    continue
                if isinstance(bn, ast.BinOp):
                    bt = X.at(m, bn)
                    l, r = bt[2], bt[3]
                else:
                    l, r = X.at(m, bn.target), X.at(m, bn.value)
                    bt = None
                if bt is not None and bt not in valsubs:
                    continue
                lo, ro = contains(l, old), contains(r, old)
                if not (lo or ro):
                    continue
                other = r if lo else l
                if other[0] == "const" and not (lo and ro):
                    # x * 1 style: still non-idempotent unless the constant is neutral; keep simple
                    pass
                if _under_context_guard(m, bn):
                    continue
                if bt is not None and _selector_consumed(ctx, c, m, node, val, bt, old):
                    continue
                bad = bn
                break
            ok = bad is None
            res.add(
                m, node if ok else bad,
                f"`{fld}` depends on its previous value only through idempotent operations (or under a transform-context guard)", ok,
                "" if ok else f"`{fld}` is rescaled by `{norm_stmt(bad)[:90]}` on every validation: re-validating a dumped configuration changes it",
                construct=f"{c.name}.{m.name}: {fld} ({how})",
            )
    res.notes.append(f"{n_checked} field stores inspected")
    res.floor = 10
    return res


# --------------------------------------------------------------------- C18.5
@rule(P)
def c18_5(ctx: Ctx) -> RuleResult:
    res = RuleResult("C18.5", "TS", "validating an EnOptConfig instance returns the instance unchanged")
    c = ctx.repo.cls("ropt.config.enopt._enopt_config.EnOptConfig")
    ok = False
    site = None
    for m in c.methods.values():
        if any("model_validator" in d and "wrap" in d for d in m.decorators) and m.positional:
            first = m.positional[0]
            from ..util import bool_nnf, path_condition

            # a `return <value>` of the value itself that is reached exactly where `isinstance(value, EnOptConfig)` holds
            for r_ in nodes_in(m, ast.Return):
                if not (isinstance(r_.value, ast.Name) and r_.value.id == first):
                    continue
                pc = path_condition(ctx, m, r_)
                if not pc:
                    continue
                g_ = bool_nnf(("bool", "and", tuple(c_ if p_ else ("unary", "not", c_) for c_, p_ in pc)))
                for it in (g_[1] if g_[0] == "and" else [g_]):
                    if (it[0] == "lit" and it[2] and it[1][0] == "call" and it[1][1] == ("builtin", "isinstance") and len(it[1][2]) == 2
                            and it[1][2][0] == ("param", m.qualname, first) and it[1][2][1] == ("global", c.qualname)):
                        ok = True
                        site = (m, r_)
    res.add(site[0] if site else None, site[1] if site else c.node, "a wrap validator returns an EnOptConfig instance as is", ok,
            "" if ok else "no pass-through wrap validator", construct="EnOptConfig pass-through",
            where=None if site else f"{c.module.relpath}:{c.node.lineno}", fname=None if site else c.qualname)
    return res


@rule(P)
def c18_6(ctx: Ctx) -> RuleResult:
    """Shared with C10.4: a configuration that asks for relative perturbations on a variable without two finite
    bounds is inconsistent and has to be rejected (both sides are tested)."""
    from .c10 import c10_4

    r = c10_4(ctx)
    r.instances = [i for i in r.instances if "finite" in i.construct or "finite" in i.obligation]
    for i in r.instances:
        i.rule = "C18.6"
    r.rule, r.title, r.floor = "C18.6", "relative perturbations are rejected unless the lower and the upper bound of the variable are finite", 1
    return r
