"""C17 - samplers obey the perturbation-sample contract, including QMC point integrity.

  C17.1 LAYOUT the (n, d) QMC sample reaches reshape((r, p, d)) by splitting its row
               axis only; stats samples are drawn with size=(r, p, d)
  C17.2 COH    r is 1 iff shared, then repeated to R on axis 0; zeros + scatter at the mask
  C17.3 CONST  default supports are [-1, 1]
  C17.4 FLOW   seeding (shared with C16.2)
"""

from __future__ import annotations

import ast

from ..core import META, Ctx, RuleResult, rule
from ..model import AnalysisError, Func, norm_stmt, parent
from ..terms import Term, alts, contains, root_of, show, subterms
from ..util import calls_in, nodes_in
from .c16 import QMC_PREFIX, _is_engine_registry, sampler_impls

P = "C17"

META[P] = {
    "explanation": (
        "Shape/layout reasoning on the symbolic term of every sample array: the chain of array operations between the QMC engine's (n, d) output and "
        "the (realizations, perturbations, variables) result may only split the row axis; role checks of the shared/mask handling; literal defaults."
    ),
    "not_decided": ["statistical properties of SciPy's engines themselves"],
}

AXIS_PERMUTING = {"T", "transpose", "swapaxes", "moveaxis", "rollaxis"}


def _chain(t: Term):
    """Yield (op, node) going inwards through unary array transformations."""
    while True:
        if t[0] == "call":
            fn = t[1]
            if fn[0] == "global" and fn[1] in ("numpy.array", "numpy.asarray", "numpy.ascontiguousarray") and t[2]:
                yield ("wrap", t)
                t = t[2][0]
                continue
            if fn[0] == "attr":
                yield (fn[2], t)
                t = fn[1]
                continue
            if fn[0] == "global" and fn[1].startswith("numpy.") and t[2]:
                yield (fn[1].split(".", 1)[1], t)
                t = t[2][0]
                continue
            if fn[0] == "global" and fn[1] == "scipy.stats.qmc.scale" and t[2]:
                yield ("scale", t)
                t = t[2][0]
                continue
            yield ("call", t)
            return
        if t[0] == "attr":
            yield (t[2], t)
            t = t[1]
            continue
        yield ("leaf", t)
        return


def _draw_methods(ctx: Ctx, c) -> list:
    """The methods of a sampler class, their nested functions, and the private module-level functions
    of its module that they call (a draw may live in any of them)."""
    methods = list(c.methods.values())
    for m in list(methods):
        methods += list(m.nested.values())
    for g in ctx.cg.reachable(list(c.methods.values()), include_nested_values=False):
        if g.cls is None and g.outer is None and g.module is c.module and g not in methods:
            methods.append(g)
    return methods


@rule(P)
def c17_1(ctx: Ctx) -> RuleResult:
    res = RuleResult("C17.1", "LAYOUT", "each perturbation vector is one point of the QMC sequence: the (n, d) sample is reshaped by splitting the row axis only")
    X = ctx.X
    n_q = n_s = 0
    for c in sampler_impls(ctx):
        methods = _draw_methods(ctx, c)
        for m in methods:
            for call in calls_in(m):
                t = X.at(m, call)
                fn = t[1]
                # engine.random(n): the receiver is the QMC engine field
                if fn[0] == "attr" and fn[2] == "random" and t[2]:
                    n_q += 1
                    # from the value the method returns inwards to the draw (the sample may be held in locals)
                    ops, found, shape, ret = [], False, None, _enclosing_value(ctx, m, call)
                    for cand in [ret] + [a for a in alts(X.return_term(m))]:
                        ops_c, shape_c, found_c = [], None, False
                        for op, node in _chain(cand):
                            if node == t:
                                found_c = True
                                break
                            ops_c.append(op)
                            if op == "reshape":
                                shape_c = node[2][0] if node[2] else None
                        if found_c and (not found or shape is None):
                            ops, shape, found, ret = ops_c, shape_c, True, cand
                    bad_ops = [o for o in ops if o in AXIS_PERMUTING]
                    ok = found and not bad_ops
                    why = ""
                    if not found:
                        ok, why = False, f"cannot follow the sample from `random(n)` to the returned array: `{show(ret, 100)}`"
                    elif bad_ops:
                        why = f"the (n, d) point matrix passes through `{bad_ops[0]}` before it is reshaped: coordinates of different points are mixed (stratification / point integrity lost)"
                    if ok:
                        # reshape((r, p, d)) with n == r * p and d last
                        narg = t[2][0]
                        sh_ok = (
                            shape is not None and shape[0] == "tuple" and len(shape[1]) == 3 and narg[0] == "binop" and narg[1] == "*"
                            and {shape[1][0], shape[1][1]} == {narg[2], narg[3]}
                        ) or (
                            # the shape arrives as one (r, p, d) tuple and is unpacked for the draw
                            shape is not None and shape[0] != "tuple" and narg[0] == "binop" and narg[1] == "*"
                            and {("item", shape, 0), ("item", shape, 1)} == {narg[2], narg[3]}
                        )
                        # any step whose result depends on the memory layout of the point matrix (order="K"/"A"/"F" in
                        # reshape / ravel / flatten / array ...): SciPy engines may return Fortran-ordered arrays
                        order_kw = any(
                            (k == "order" and v != ("const", "C")) for _o, node in _chain(ret) if node[0] == "call" for k, v in node[3]
                        ) or any(
                            node[0] == "call" and node[1][0] == "attr" and node[1][2] in ("ravel", "flatten") and node[2] and node[2][0][0] == "const" and node[2][0][1] in ("F", "K", "A")
                            for _o, node in _chain(ret))
                        if not sh_ok:
                            ok, why = False, f"reshape target `{show(shape, 60) if shape else '?'}` is not (r, p, d) with n = r*p rows"
                        elif order_kw:
                            ok, why = False, "a reshape / ravel / flatten on the way uses a non-C (memory-layout dependent) order: rows (points) are not kept together for Fortran-ordered engine output"
                    res.add(m, call, "from engine.random(r*p) to the result only value-preserving wrappers, scale() and reshape((r, p, d)) are applied", ok, why,
                            construct=f"{c.name}.{m.name}: QMC random -> reshape")
                elif fn[0] == "attr" and fn[2] == "rvs":
                    n_s += 1
                    size = None
                    for k, v in t[3]:
                        if k == "size":
                            size = v
                    # the three entries in their roles, whatever the calling context spells them as: the ensemble size (or 1,
                    # decided in C17.2), the configured number of perturbations, the number of sampled variables
                    from ..util import context_cases

                    szn = next((k.value for k in call.keywords if k.arg == "size"), None)
                    ok = False
                    from ..util import term_cases

                    def comp_cases(i):
                        """calling-context cases of entry i of the size (None: the size is not a triple)"""
                        if isinstance(szn, (ast.Tuple, ast.List)):
                            return context_cases(ctx, m, szn.elts[i]) if len(szn.elts) == 3 else None
                        out_ = []
                        for conds, leaf in (context_cases(ctx, m, szn) if szn is not None else []):
                            if leaf[0] not in ("tuple", "list") or len(leaf[1]) != 3:
                                return None
                            out_.extend(term_cases(ctx, tuple(conds), leaf[1][i]))
                        return out_ or None

                    cc = [comp_cases(i) for i in range(3)]
                    if all(x is not None for x in cc):
                        def mentions(cs, *names):
                            return bool(cs) and all(any(x[0] == "attr" and x[2] in names for x in X.closure(leaf)) for _c, leaf in cs)

                        def never(cs, *names):
                            return not any(x[0] == "attr" and x[2] in names for _c, leaf in cs for x in X.closure(leaf))

                        ok = (mentions(cc[1], "number_of_perturbations") and never(cc[0], "number_of_perturbations", "mask", "_mask", "variables")
                              and never(cc[2], "number_of_perturbations", "realizations", "shared")
                              and never(cc[1], "realizations", "shared", "mask", "_mask"))
                    res.add(m, call, "statistical samples are drawn directly with size=(realizations, perturbations, variables)", ok,
                            "" if ok else f"size is `{show(size, 60) if size else 'missing'}`", construct=f"{c.name}.{m.name}: rvs size")
    if n_q == 0 or n_s == 0:
        raise AnalysisError(f"sampler draw sites not found (qmc={n_q}, stats={n_s})")
    res.floor = 2
    return res


def _enclosing_value(ctx: Ctx, m: Func, call: ast.Call) -> Term:
    """Term of the outermost expression statement value containing call."""
    cur: ast.AST = call
    while parent(cur) is not None and not isinstance(parent(cur), ast.stmt):
        cur = parent(cur)
    return ctx.X.at(m, cur)


def _draw_sites(ctx: Ctx, c):
    """[(method, call node, term, kind)] for every draw of the class: `<dist>.rvs(size=...)` / `<engine>.random(n)`."""
    out = []
    methods = _draw_methods(ctx, c)
    for m in methods:
        for call in calls_in(m):
            t = ctx.X.at(m, call)
            if t[0] == "call" and t[1][0] == "attr" and t[1][2] == "rvs":
                out.append((m, call, t, "rvs"))
            elif t[0] == "call" and t[1][0] == "attr" and t[1][2] == "random" and t[2]:
                out.append((m, call, t, "random"))
    return out


@rule(P)
def c17_2(ctx: Ctx) -> RuleResult:
    res = RuleResult("C17.2", "COH", "shared: one realization drawn and repeated on axis 0; result is zeros(R, P, V) with the samples scattered at the sampler's mask")
    X = ctx.X
    from ..util import bool_nnf, deep_subterms, path_condition

    for c in sampler_impls(ctx):
        gen = c.methods.get("generate_samples")
        if gen is None:
            continue
        draws = _draw_sites(ctx, c)
        if not draws:
            raise AnalysisError(f"{c.name}: no draw (rvs / random) found")
        dim_ok_all = True
        for m, call, t, kind in draws:
            # the number of realizations drawn: first entry of size= / first factor of n
            if kind == "rvs":
                size = dict(t[3]).get("size")
                first = size[1][0] if size is not None and size[0] == "tuple" and size[1] else size
                last = size[1][-1] if size is not None and size[0] == "tuple" and size[1] else None
            else:
                n_ = t[2][0]
                first = n_
                last = None
            # the cases of the first dimension: 1 exactly where `shared` holds, the ensemble size where it does not
            # (whether the choice is a conditional expression at the draw, an argument of a helper, or separate call sites)
            from ..util import context_cases

            first_of = None  # the size is a name / parameter holding the whole shape: take component 0 of its cases
            if kind == "rvs":
                sz = next((k.value for k in call.keywords if k.arg == "size"), None)
                cand_nodes = [sz.elts[0]] if isinstance(sz, (ast.Tuple, ast.List)) and sz.elts else []
                if not cand_nodes and sz is not None:
                    first_of = sz
            else:
                n0 = call.args[0] if call.args else None
                cand_nodes = [n0.left, n0.right] if isinstance(n0, ast.BinOp) and isinstance(n0.op, ast.Mult) else ([n0] if n0 is not None else [])

            def shared_pol(conds):
                for a_, p_ in conds:
                    if a_[0] == "attr" and a_[2] == "shared":
                        return p_
                return None

            def first_component_cases(node_):
                out_ = []
                for conds, leaf in context_cases(ctx, m, node_):
                    if leaf[0] in ("tuple", "list") and leaf[1]:
                        from ..util import term_cases

                        out_.extend(term_cases(ctx, tuple(conds), leaf[1][0]))
                    else:
                        out_.append((conds, ("item", leaf, 0)))
                return out_

            def count_ok(node_, whole=False):
                cases = first_component_cases(node_) if whole else context_cases(ctx, m, node_)
                if not cases:
                    return False
                for conds, leaf in cases:
                    sp = shared_pol(conds)
                    if sp is True and leaf != ("const", 1):
                        return False
                    if sp is False and not any(yy[0] == "attr" and yy[2] == "size" and "realizations" in show(yy) for _g, yy in deep_subterms(ctx, m, leaf, 3)):
                        return False
                    if sp is None:
                        return False
                return True

            ok = any(count_ok(nd) for nd in cand_nodes) or (first_of is not None and count_ok(first_of, whole=True))
            res.add(m, call, "the number of realizations drawn is 1 if shared else the ensemble size", ok,
                    "" if ok else f"the first sample dimension is `{show(first, 80) if first is not None else '?'}`", construct=f"{c.name}: draw count ({kind})")
            # the sample dimension: V without a mask, mask.sum() with one
            dims = [y for _h, y in deep_subterms(ctx, m, last if last is not None else t, 4)]
            if kind == "random":
                # the dimension of a QMC engine is fixed when the engine is created
                dims = [y for mm in c.methods.values() for cl in calls_in(mm) for y in subterms(X.at(mm, cl)) if y[0] == "ifexp"] + dims

            def is_dim_choice(y):
                if y[0] != "ifexp":
                    return False
                cnd, a, b = y[1], y[2], y[3]
                if not (cnd[0] == "cmp" and cnd[1] in ("is", "is not") and cnd[3] == ("const", None) and cnd[2][0] == "attr" and "mask" in cnd[2][2]):
                    return False
                nomask, withmask = (a, b) if cnd[1] == "is" else (b, a)
                return (nomask[0] == "attr" and nomask[2] == "size" and "initial_values" in show(nomask)
                        and withmask[0] == "call" and withmask[1][0] == "attr" and withmask[1][2] == "sum" and "mask" in show(withmask))

            if not any(is_dim_choice(y) for y in dims):
                dim_ok_all = False
        # repeat under `shared`
        reps = []
        for m in c.methods.values():
            for cl in calls_in(m):
                if X.at(m, cl.func) == ("global", "numpy.repeat"):
                    t = X.at(m, cl)
                    axis0 = any(k == "axis" and v == ("const", 0) for k, v in t[3]) or (len(t[2]) > 2 and t[2][2] == ("const", 0))
                    count_ok = len(t[2]) > 1 and "realizations" in show(t[2][1])
                    if not count_ok and len(cl.args) > 1:
                        # the count may be a parameter: the ensemble size at every call site
                        from ..util import context_cases

                        cs_ = context_cases(ctx, m, cl.args[1])
                        count_ok = bool(cs_) and all(any(yy[0] == "attr" and yy[2] == "size" and "realizations" in show(yy) for _g, yy in deep_subterms(ctx, m, leaf, 3)) for _c, leaf in cs_)
                    st_ = cl
                    while parent(st_) is not None and not isinstance(st_, ast.stmt):
                        st_ = parent(st_)
                    guarded = False
                    pc = path_condition(ctx, m, st_)
                    if pc:
                        g_ = bool_nnf(("bool", "and", tuple(c_ if p_ else ("unary", "not", c_) for c_, p_ in pc)))
                        guarded = any(it[0] == "lit" and it[2] and it[1][0] == "attr" and it[1][2] == "shared" for it in (g_[1] if g_[0] == "and" else [g_]))
                    if axis0 and count_ok:
                        reps.append((m, cl, guarded))
        ok = any(g for _m, _c, g in reps)
        res.add(gen, reps[0][1] if reps else gen.node, "shared samples are repeated ensemble-size times on axis 0, only when shared", ok,
                "" if ok else "shared perturbations are not broadcast over the realization axis", construct=f"{c.name}: shared repeat")
        # masked scatter: the value generate_samples returns (helpers seen through)
        rt = X.force_inline(X.return_term(gen), gen, effects=True)
        masked = [a for a in subterms(rt) if a[0] == "update"]
        ok = False
        for a in masked:
            base, idx, val = a[1], a[3], a[4]
            zeros = base[0] == "call" and base[1] == ("global", "numpy.zeros") and base[2] and base[2][0][0] == "tuple" and len(base[2][0][1]) == 3
            shape_roles = zeros and ["realizations" in show(base[2][0][1][0]), "perturbations" in show(base[2][0][1][1]), "variables" in show(base[2][0][1][2])] == [True, True, True]
            idx_ok = idx[0] == "tuple" and idx[1][0] == ("const", Ellipsis) and idx[1][1][0] == "attr" and "mask" in idx[1][1][2] and not (idx[1][1][0] == "unary")
            ok = ok or (zeros and shape_roles and idx_ok)
        res.add(gen, gen.node, "with a mask the result is zeros((R, P, V)) with the samples written at [..., mask]", ok,
                "" if ok else f"masked result is `{show(rt, 120)}`", construct=f"{c.name}: masked scatter")
        # the mask used for the scatter is the one the evaluator handed over, as it is (an empty mask stays a mask)
        mask_fields = {a[3][1][1][2] for a in masked if a[3][0] == "tuple" and len(a[3][1]) > 1 and a[3][1][1][0] == "attr" and "mask" in a[3][1][1][2]}
        for fld in sorted(mask_fields):
            for m_, val in ctx.cg.field_stores(c, fld):
                ok = val[0] == "param" and "mask" in val[2]
                res.add(m_, m_.node, f"the mask field `{fld}` is the mask argument itself", ok,
                        "" if ok else f"`{fld}` is stored as `{show(val, 90)}`: a mask that selects nothing (all variables of the sampler fixed) or a changed mask lets the sampler perturb variables it does not handle",
                        construct=f"{c.name}: mask field {fld}")
        res.add(gen, gen.node, "the sample dimension is V without a mask and mask.sum() with one", dim_ok_all, "" if dim_ok_all else "sample dimension does not follow the mask",
                construct=f"{c.name}: sample dimension")
    res.floor = 4
    return res


@rule(P)
def c17_3(ctx: Ctx) -> RuleResult:
    res = RuleResult("C17.3", "CONST", "bounded methods default to the support [-1, 1]")
    X = ctx.X
    for c in sampler_impls(ctx):
        found = {}
        dict_sites = [(m, n) for m in c.methods.values() for n in nodes_in(m, ast.Dict)]
        # module-level default tables as well
        for cname, expr in c.module.constants.items():
            for n in ast.walk(expr):
                if isinstance(n, ast.Dict):
                    dict_sites.append((None, n))
        for m, n in dict_sites:
            for k, v in zip(n.keys, n.values):
                if isinstance(k, ast.Constant) and k.value in ("uniform", "truncnorm") and isinstance(v, ast.Dict):
                    try:
                        found[k.value] = (m, n, ast.literal_eval(v))
                    except Exception:  # noqa: BLE001
                        found[k.value] = (m, n, None)
        want = {"uniform": {"loc": -1.0, "scale": 2.0}, "truncnorm": {"a": -1.0, "b": 1.0}}
        for name, w in want.items():
            if name not in found:
                res.add(None, c.node, f"default options of `{name}` are {w}", False, "defaults not found", construct=f"{c.name}: defaults {name}",
                        where=f"{c.module.relpath}:{c.node.lineno}", fname=c.qualname)
                continue
            m, n, got = found[name]
            ok = got == w
            res.add(m, n, f"default options of `{name}` are {w}", ok, "" if ok else f"defaults are {got}: samples leave [-1, 1]", construct=f"{c.name}: defaults {name}",
                    where=None if m is not None else f"{c.module.relpath}:{n.lineno}", fname=None if m is not None else c.module.name)
        # explicit options win over the defaults
        all_calls = sorted(((m, cl) for m in c.methods.values() for cl in calls_in(m)), key=lambda p: (p[1].lineno, p[1].col_offset))
        sd = [cl for _m, cl in all_calls if isinstance(cl.func, ast.Attribute) and cl.func.attr == "setdefault"]
        upd = [cl for _m, cl in all_calls if isinstance(cl.func, ast.Attribute) and cl.func.attr == "update" and cl.args]
        merged = any(isinstance(n, ast.Dict) and len(n.keys) >= 2 and n.keys[-1] is None and isinstance(n.values[-1], ast.Name) and "option" in n.values[-1].id
                     for m in c.methods.values() for n in nodes_in(m, ast.Dict))
        upd_ok = len(upd) >= 2 and "option" in ast.unparse(upd[0].args[0]) and "option" in ast.unparse(upd[-1].func.value)
        # ... `key not in options` as the filter of a comprehension or the test of an `if` around the store, or a merge
        # with the given options as the right operand: `defaults | options`
        def not_in_options(t_):
            return isinstance(t_, ast.Compare) and len(t_.ops) == 1 and isinstance(t_.ops[0], ast.NotIn) and "option" in ast.unparse(t_.comparators[0])

        guarded_comp = any(any(not_in_options(i_) for g_ in n.generators for i_ in g_.ifs) for m in c.methods.values() for n in nodes_in(m, (ast.DictComp, ast.GeneratorExp, ast.ListComp)))
        guarded_store = any(not_in_options(n.test) and any(isinstance(x, ast.Assign) and any(isinstance(t_, ast.Subscript) and "option" in ast.unparse(t_.value) for t_ in x.targets)
                                                          for s_ in n.body for x in ast.walk(s_)) for m in c.methods.values() for n in nodes_in(m, ast.If))
        right_merge = any(isinstance(n.op, ast.BitOr) and "option" in ast.unparse(n.right) and "option" not in ast.unparse(n.left) and "efault" in ast.unparse(n.left).lower()
                          for m in c.methods.values() for n in nodes_in(m, ast.BinOp))
        ok = bool(sd) or merged or upd_ok or guarded_comp or guarded_store or right_merge
        res.add(None, (sd or upd or [c.node])[0], "defaults are applied only for options that were not given explicitly", ok,
                "" if ok else "explicit sampler options can be overridden by the defaults", construct=f"{c.name}: explicit options win",
                where=f"{c.module.relpath}:{((sd or upd or [c.node])[0]).lineno}", fname=c.qualname)
        # QMC scale bounds
        for m in list(c.methods.values()) + [nf for mm in c.methods.values() for nf in mm.nested.values()]:
            for cl in calls_in(m):
                t = X.at(m, cl)
                if t[1] == ("global", "scipy.stats.qmc.scale"):
                    lo, hi = (t[2][1], t[2][2]) if len(t[2]) >= 3 else (None, None)

                    def const_of(x):
                        if x is None:
                            return None
                        if x[0] == "const":
                            return x[1]
                        if x[0] == "call" and x[1][0] == "global" and x[1][1] in ("numpy.repeat", "numpy.full", "numpy.tile") and x[2]:
                            a = x[2][0] if x[1][1] != "numpy.full" else x[2][1]
                            return a[1] if a[0] == "const" else (-a[2][1] if a[0] == "unary" and a[1] == "-" and a[2][0] == "const" else None)
                        if x[0] == "unary" and x[1] == "-" and x[2][0] == "const":
                            return -x[2][1]
                        return None

                    ok = const_of(lo) == -1.0 and const_of(hi) == 1.0
                    res.add(m, cl, "QMC points are scaled from [0, 1) to [-1, 1]", ok, "" if ok else f"scale bounds are {show(lo, 30) if lo else '?'} .. {show(hi, 30) if hi else '?'}",
                            construct=f"{c.name}: qmc scale bounds")
    # the defaults stay the defaults: no sampler function writes the module-level table they come from
    from .c16 import shared_state_writes

    mods = {c.module.name for c in sampler_impls(ctx)}
    writes = [(f_, n_, why) for f_, n_, why in shared_state_writes(ctx) if f_.module.name in mods]
    for f_, n_, why in writes:
        res.add(f_, n_, "the default options are never modified (each sampler starts from the same defaults)", False,
                why + ": options given to one sampler become the defaults of every later sampler of the method, which then leaves [-1, 1]",
                construct=f"{f_.name}: defaults table written")
    if not writes:
        res.add(None, None, "the default options are never modified (each sampler starts from the same defaults)", True,
                construct="defaults table not written", where="src/ropt/plugins/sampler", fname="<sampler modules>")
    res.floor = 4
    return res


@rule(P)
def c17_4(ctx: Ctx) -> RuleResult:
    """Shared with C09.4: the mask handed to sampler k is `variables.mask & (gradient.samplers == k)`; the
    sampler's zeros for fixed variables and for variables of other samplers depend on it."""
    from .c09 import c09_4

    r = c09_4(ctx)
    for i in r.instances:
        i.rule = "C17.4"
    r.rule, r.title = "C17.4", "each sampler is created with the mask of exactly the free variables assigned to it"
    return r


# --------------------------------------------------------------------- C17.5
@rule(P)
def c17_5(ctx: Ctx) -> RuleResult:
    """A sampler that handles no variable (all its variables fixed, or its index assigned to fixed variables only)
    must still return the all-zero array: `scipy.stats.qmc.scale` raises ValueError on a sample without columns
    (max of an empty array), so every call of it has to be guarded by a test that the dimension is not zero - in
    the function itself or, through its call sites, in every calling context inside the class."""
    res = RuleResult("C17.5", "DOM", "a quasi-Monte-Carlo sampler without handled variables returns zeros: qmc.scale is never reached with zero columns")
    X = ctx.X
    from ..callgraph import _is_bound_call, bind_args
    from ..pattern import norm
    from ..terms import _subst
    from ..util import _pc_literals, bool_nnf, norm_cond, path_condition, stmt_of

    def dim_term(t: Term):
        """the number of columns: the length of the bounds handed to scale() (locals followed)"""
        args = list(t[2][1:]) + [v for k, v in t[3] if k in ("l_bounds", "u_bounds")]
        for a in args:
            for x in (a[1] if a[0] == "phi" else [a]):
                if x[0] == "call" and x[1][0] == "global" and x[2]:
                    fn = x[1][1]
                    if fn == "numpy.repeat" and len(x[2]) >= 2:
                        return x[2][1]
                    if fn in ("numpy.full", "numpy.ones", "numpy.zeros", "numpy.empty"):
                        return x[2][0]
                if x[0] == "binop" and x[1] == "*":
                    for side, other in ((x[2], x[3]), (x[3], x[2])):
                        if side[0] in ("list", "tuple"):
                            return other
        return None

    def implies_nonzero(lits, dterms, mask_none_ok=True) -> bool:
        want = set()
        for d in dterms:
            for c_, pol_ in ((("cmp", ">", d, ("const", 0)), True), (("cmp", "!=", d, ("const", 0)), True), (("cmp", ">=", d, ("const", 1)), True), (d, True),
                             (("cmp", "<", ("const", 0), d), True), (("cmp", "<=", ("const", 1), d), True),
                             (("cmp", "==", d, ("const", 0)), False), (("cmp", "<", d, ("const", 1)), False), (("cmp", "<=", d, ("const", 0)), False),
                             (("cmp", "==", ("const", 0), d), False)):
                a_, p_ = norm_cond(c_)
                want.add((a_, p_ == pol_))
        return any((a_, p_) in want for a_, p_ in lits)

    def site_guarded(f, node, dterms, depth: int) -> bool:
        st = stmt_of(node)
        pc = path_condition(ctx, f, st)
        if pc:
            g_ = bool_nnf(("bool", "and", tuple(c_ if p_ else ("unary", "not", c_) for c_, p_ in pc)))
            for it in (g_[1] if g_[0] == "and" else [g_]):
                if it[0] == "lit" and implies_nonzero([(it[1], it[2])], dterms):
                    return True
                if it[0] == "or":
                    # every alternative implies a non-empty dimension, or says that the sampler has no mask (it then
                    # handles every variable)
                    def alt_ok(x):
                        if x[0] != "lit":
                            return False
                        if implies_nonzero([(x[1], x[2])], dterms):
                            return True
                        a_ = x[1]
                        return bool(x[2]) and a_[0] == "cmp" and a_[1] == "is" and a_[3] == ("const", None) and a_[2][0] == "attr" and "mask" in a_[2][2]
                    if all(alt_ok(x) for x in it[1]):
                        return True
        if depth >= 3:
            return False
        sites = [(c_, n_) for c_, n_ in ctx.cg.callers(f) if c_ is not f]
        if not sites:
            return False
        for caller, call in sites:
            ct = X.at(caller, call)
            d2 = set(dterms)
            if ct[0] == "call":
                try:
                    bound = bind_args(f, ct, bound=_is_bound_call(ct, f))
                except Exception:  # noqa: BLE001
                    bound = {}
                mapping = {("param", f.qualname, p_): a_ for p_, a_ in bound.items() if a_ is not None}
                if mapping:
                    def proj(x):
                        # component of a tuple argument: `r, p, d = shape` with shape=(r, p, d) at the call site
                        if isinstance(x, tuple) and x and x[0] in ("item", "sub") and len(x) == 3 and isinstance(x[1], tuple) and x[1] and x[1][0] in ("tuple", "list"):
                            i_ = x[2] if isinstance(x[2], int) else (x[2][1] if isinstance(x[2], tuple) and x[2][0] == "const" else None)
                            if isinstance(i_, int) and -len(x[1][1]) <= i_ < len(x[1][1]):
                                return x[1][1][i_]
                        return x
                    d2 |= {norm(proj(_subst(d, mapping))) for d in dterms}
            if not site_guarded(caller, call, d2, depth + 1):
                return False
        return True

    n_sites = 0
    for c in sampler_impls(ctx):
        for m in _draw_methods(ctx, c):
            for call in calls_in(m):
                t = X.at(m, call)
                if not (t[0] == "call" and t[1] == ("global", "scipy.stats.qmc.scale")):
                    continue
                n_sites += 1
                dn = dim_term(t)
                if dn is None:
                    raise AnalysisError(f"{m.qualname}: cannot identify the number of columns handed to qmc.scale")
                d0 = norm(dn)
                ok = site_guarded(m, call, {d0}, 0)
                res.add(m, call, "qmc.scale is reached only where the number of sampled variables is not zero", ok,
                        "" if ok else "a sampler whose variables are all fixed (an empty mask) reaches scipy.stats.qmc.scale with a sample without columns: it raises "
                        "ValueError (maximum of an empty array) instead of returning the all-zero array the statistical samplers return",
                        construct=f"{c.name}: empty-dimension guard of qmc.scale")
    if n_sites == 0:
        res.add(None, None, "no call of scipy.stats.qmc.scale in the built-in samplers: nothing to guard", True, construct="qmc.scale sites", where="src/ropt/plugins/sampler", fname="<samplers>")
    res.floor = 1
    return res


@rule(P)
def c17_6(ctx: Ctx) -> RuleResult:
    """Shared with C16.4."""
    from .c16 import c16_4

    r = c16_4(ctx)
    for i in r.instances:
        i.rule = "C17.6"
    r.rule, r.title = "C17.6", "each sampler is invoked exactly once per evaluation, in order of first appearance: a variable's perturbation comes from one draw of its own sampler"
    return r
