"""E1 - source model of the analysed package.

Parses every module below ``<repo>/src/ropt`` with ``ast`` (never imports it) and
indexes modules, classes, functions (methods, nested functions, lambdas),
imports (with re-export chains through ``__init__`` modules), class hierarchy,
dataclass fields and module constants.

A ``Repo`` can be built with *overrides* (relative path -> source text) so that
in-memory variants of the tree can be analysed without touching the disk.
"""

from __future__ import annotations

import ast
import os
import re
from dataclasses import dataclass, field
from typing import Iterator

PKG = "ropt"


class AnalysisError(Exception):
    """The analysis cannot decide (vanished anchor, unparsable source, ...)."""


def _attach_parents(tree: ast.AST) -> None:
    for node in ast.walk(tree):
        for child in ast.iter_child_nodes(node):
            child._parent = node  # type: ignore[attr-defined]


def parent(node: ast.AST) -> ast.AST | None:
    return getattr(node, "_parent", None)


def dotted(node: ast.AST) -> str | None:
    """``a.b.c`` for Name/Attribute chains, else None."""
    parts: list[str] = []
    while isinstance(node, ast.Attribute):
        parts.append(node.attr)
        node = node.value
    if isinstance(node, ast.Name):
        parts.append(node.id)
        return ".".join(reversed(parts))
    return None


@dataclass
class Module:
    name: str
    path: str  # absolute path
    relpath: str  # relative to the repo root
    source: str
    tree: ast.Module
    is_pkg: bool
    imports: dict[str, str] = field(default_factory=dict)  # local -> qualified
    functions: dict[str, "Func"] = field(default_factory=dict)  # top-level only
    classes: dict[str, "Cls"] = field(default_factory=dict)
    constants: dict[str, ast.expr] = field(default_factory=dict)

    def line(self, lineno: int) -> str:
        lines = self.source.splitlines()
        return lines[lineno - 1].strip() if 0 < lineno <= len(lines) else ""


@dataclass
class Cls:
    qualname: str
    name: str
    node: ast.ClassDef
    module: Module
    base_names: list[str] = field(default_factory=list)  # resolved qualnames
    methods: dict[str, "Func"] = field(default_factory=dict)
    decorators: list[str] = field(default_factory=list)
    # annotated class-level fields, in order: name -> (annotation, default)
    fields: dict[str, tuple[ast.expr | None, ast.expr | None]] = field(
        default_factory=dict
    )

    @property
    def is_dataclass(self) -> bool:
        return any(d.split("(")[0].endswith("dataclass") for d in self.decorators)


@dataclass(eq=False)
class Func:
    qualname: str
    name: str
    node: ast.FunctionDef | ast.AsyncFunctionDef | ast.Lambda
    module: Module
    cls: Cls | None = None
    outer: "Func | None" = None
    decorators: list[str] = field(default_factory=list)
    nested: dict[str, "Func"] = field(default_factory=dict)

    @property
    def lineno(self) -> int:
        return self.node.lineno

    @property
    def params(self) -> list[str]:
        a = self.node.args
        names = [x.arg for x in a.posonlyargs + a.args]
        if a.vararg:
            names.append(a.vararg.arg)
        names += [x.arg for x in a.kwonlyargs]
        if a.kwarg:
            names.append(a.kwarg.arg)
        return names

    @property
    def positional(self) -> list[str]:
        a = self.node.args
        return [x.arg for x in a.posonlyargs + a.args]

    @property
    def is_static(self) -> bool:
        return any(d.endswith("staticmethod") for d in self.decorators)

    @property
    def is_classmethod(self) -> bool:
        return any(d.endswith("classmethod") for d in self.decorators)

    @property
    def is_property(self) -> bool:
        return any(d.endswith("property") for d in self.decorators)

    @property
    def body(self) -> list[ast.stmt]:
        if isinstance(self.node, ast.Lambda):
            return [ast.Return(value=self.node.body, lineno=self.node.lineno)]
        return self.node.body

    def where(self, node: ast.AST | None = None) -> str:
        ln = getattr(node, "lineno", None) or self.lineno
        return f"{self.module.relpath}:{ln}"

    def __repr__(self) -> str:
        return f"<Func {self.qualname}>"


class _Unroll(ast.NodeTransformer):
    """Source normal form: a ``for`` statement over a literal tuple / list of at most four
    elements (no break / continue / else) is replaced by its iterations, each preceded by the
    assignment of the element to the loop target.  Behaviour preserving; lets the term
    analyses see `for x in (a, b): ...` and the written-out sequence as the same program."""

    MAX = 4
    MAX_TABLE = 6

    def __init__(self, tables: dict | None = None) -> None:
        self.tables = tables or {}

    def visit_For(self, node: ast.For):
        self.generic_visit(node)
        it = node.iter
        if isinstance(it, ast.Name) and it.id in self.tables and 1 <= len(self.tables[it.id]) <= self.MAX_TABLE and not node.orelse:
            # a module-level table of constants (`for kind in _KINDS:`): the same as the literal tuple
            it = ast.Tuple(elts=[ast.copy_location(ast.Constant(value=v), node.iter) for v in self.tables[it.id]], ctx=ast.Load())
        limit = 12 if getattr(node, "_own_fields", False) else max(self.MAX, self.MAX_TABLE if it is not node.iter else self.MAX)
        if not isinstance(it, (ast.Tuple, ast.List)) or not (1 <= len(it.elts) <= limit) or node.orelse:
            return node
        if any(isinstance(e, ast.Starred) for e in it.elts):
            return node
        import copy

        body0 = _continue_to_if([copy.deepcopy(st) for st in node.body])
        for st in body0:
            for x in ast.walk(st):
                if isinstance(x, (ast.Break, ast.Continue)):
                    return node
        if not isinstance(node.target, (ast.Name, ast.Tuple)):
            return node
        node = copy.copy(node)
        node.body = body0

        out: list[ast.stmt] = []
        stores_target = isinstance(node.target, ast.Name) and any(
            isinstance(x, ast.Name) and x.id == node.target.id and isinstance(x.ctx, (ast.Store, ast.Del)) for st in node.body for x in ast.walk(st))
        for e in it.elts:
            tgt = copy.deepcopy(node.target)
            asg = ast.Assign(targets=[tgt], value=copy.deepcopy(e), type_comment=None)
            ast.copy_location(asg, node)
            out.append(asg)
            body = [copy.deepcopy(st) for st in node.body]
            if isinstance(e, ast.Constant) and isinstance(node.target, ast.Name) and not stores_target:
                # the loop variable is this constant throughout the iteration: substitute it and fold what becomes constant
                body = [_FoldConst(node.target.id, e.value).visit(st) for st in body]
            out.extend(body)
        return out


def _continue_to_if(stmts: list) -> list:
    """`if c: continue` followed by the rest of a loop body is `if not c: <rest>` (top level of the body only)."""
    for i, st in enumerate(stmts):
        if isinstance(st, ast.If) and not st.orelse and len(st.body) == 1 and isinstance(st.body[0], ast.Continue):
            rest = _continue_to_if(stmts[i + 1:])
            if not rest:
                return stmts[:i]
            neg = ast.copy_location(ast.UnaryOp(op=ast.Not(), operand=st.test), st.test)
            return stmts[:i] + [ast.copy_location(ast.If(test=neg, body=rest, orelse=[]), st)]
    return stmts


class _TupleComps(ast.NodeTransformer):
    """`a, b = (f(x) for x in (p, q))` (also a list comprehension; one generator over a literal of as many elements
    as there are targets, no condition) is `a, b = f(p), f(q)`."""

    def visit_Assign(self, node: ast.Assign):
        import copy

        self.generic_visit(node)
        if len(node.targets) != 1 or not isinstance(node.targets[0], ast.Tuple) or not isinstance(node.value, (ast.GeneratorExp, ast.ListComp)):
            return node
        comp = node.value
        if len(comp.generators) != 1:
            return node
        g = comp.generators[0]
        if g.ifs or g.is_async or not isinstance(g.target, ast.Name) or not isinstance(g.iter, (ast.Tuple, ast.List)):
            return node
        if len(g.iter.elts) != len(node.targets[0].elts) or not (1 <= len(g.iter.elts) <= 4) or any(not isinstance(e, (ast.Name, ast.Constant, ast.Attribute)) for e in g.iter.elts):
            return node
        elts = [_Rename({g.target.id: e}, {}).visit(copy.deepcopy(comp.elt)) for e in g.iter.elts]
        node.value = ast.copy_location(ast.Tuple(elts=elts, ctx=ast.Load()), comp)
        return node


class _MatchToIf(ast.NodeTransformer):
    """`match` over a name, an attribute chain or a literal tuple of those, whose cases are built from value patterns,
    `None` / `True` / `False`, wildcards, or-patterns and (for a tuple subject) sequence patterns of the same length -
    no captures, no class or mapping patterns - is the if / elif chain of the corresponding comparisons (guards
    and-ed).  Pure subjects only: they are evaluated once per comparison."""

    @staticmethod
    def _pure(e) -> bool:
        if isinstance(e, ast.Name):
            return True
        if isinstance(e, ast.Attribute):
            return _MatchToIf._pure(e.value)
        return False

    def _cond(self, subj, pat):
        """test for `pat` matching `subj` (None: not convertible; True: always)"""
        import copy

        if isinstance(pat, ast.MatchAs) and pat.pattern is None and pat.name is None:
            return True
        if isinstance(pat, ast.MatchSingleton):
            return ast.Compare(left=copy.deepcopy(subj), ops=[ast.Is()], comparators=[ast.Constant(value=pat.value)])
        if isinstance(pat, ast.MatchValue):
            return ast.Compare(left=copy.deepcopy(subj), ops=[ast.Eq()], comparators=[copy.deepcopy(pat.value)])
        if isinstance(pat, ast.MatchOr):
            parts = [self._cond(subj, p) for p in pat.patterns]
            if any(p is None for p in parts):
                return None
            if any(p is True for p in parts):
                return True
            return ast.BoolOp(op=ast.Or(), values=parts)
        if isinstance(pat, ast.MatchSequence) and isinstance(subj, ast.Tuple) and len(pat.patterns) == len(subj.elts) \
                and not any(isinstance(p, ast.MatchStar) for p in pat.patterns):
            parts = [self._cond(e, p) for e, p in zip(subj.elts, pat.patterns)]
            if any(p is None for p in parts):
                return None
            parts = [p for p in parts if p is not True]
            if not parts:
                return True
            return parts[0] if len(parts) == 1 else ast.BoolOp(op=ast.And(), values=parts)
        return None

    def visit_Match(self, node: ast.Match):
        self.generic_visit(node)
        subj = node.subject
        if not (self._pure(subj) or (isinstance(subj, ast.Tuple) and subj.elts and all(self._pure(e) for e in subj.elts))):
            return node
        tests = []
        for case in node.cases:
            c = self._cond(subj, case.pattern)
            if c is None:
                return node
            if case.guard is not None:
                c = case.guard if c is True else ast.BoolOp(op=ast.And(), values=[c, case.guard])
            tests.append(c)
        # build the chain from the last case backwards
        chain: list = []
        for case, c in reversed(list(zip(node.cases, tests))):
            if c is True:
                chain = list(case.body)
            else:
                chain = [ast.copy_location(ast.If(test=ast.copy_location(c, case.pattern), body=list(case.body), orelse=chain), case.pattern)]
        for x in chain:
            ast.fix_missing_locations(ast.copy_location(x, node) if not hasattr(x, "lineno") else x)
        return chain or [ast.copy_location(ast.Pass(), node)]


class _FoldConst(ast.NodeTransformer):
    """Replace loads of ``name`` by a constant; fold f-strings and getattr/setattr with constant names."""

    def __init__(self, name: str, value) -> None:
        self.name, self.value = name, value

    def visit_Name(self, n: ast.Name):
        if n.id == self.name and isinstance(n.ctx, ast.Load):
            return ast.copy_location(ast.Constant(value=self.value), n)
        return n

    def visit_JoinedStr(self, n: ast.JoinedStr):
        self.generic_visit(n)
        parts = []
        for v in n.values:
            if isinstance(v, ast.Constant) and isinstance(v.value, str):
                parts.append(v.value)
            elif isinstance(v, ast.FormattedValue) and v.conversion == -1 and v.format_spec is None and isinstance(v.value, ast.Constant) and isinstance(v.value.value, (str, int)):
                parts.append(str(v.value.value))
            else:
                return n
        return ast.copy_location(ast.Constant(value="".join(parts)), n)

    def visit_Call(self, n: ast.Call):
        self.generic_visit(n)
        return _attr_idiom(n)

    def visit_Expr(self, n: ast.Expr):
        self.generic_visit(n)
        return _setattr_idiom(n)


def _attr_idiom(n: ast.Call):
    """`getattr(obj, "name")` with a constant identifier is `obj.name`."""
    if isinstance(n.func, ast.Name) and n.func.id == "getattr" and len(n.args) == 2 and not n.keywords and isinstance(n.args[1], ast.Constant) \
            and isinstance(n.args[1].value, str) and n.args[1].value.isidentifier():
        return ast.copy_location(ast.Attribute(value=n.args[0], attr=n.args[1].value, ctx=ast.Load()), n)
    return n


def _setattr_idiom(n: ast.Expr):
    """`setattr(obj, "name", v)` as a statement with a constant identifier is `obj.name = v`."""
    c = n.value
    if isinstance(c, ast.Call) and isinstance(c.func, ast.Name) and c.func.id == "setattr" and len(c.args) == 3 and not c.keywords \
            and isinstance(c.args[1], ast.Constant) and isinstance(c.args[1].value, str) and c.args[1].value.isidentifier():
        tgt = ast.Attribute(value=c.args[0], attr=c.args[1].value, ctx=ast.Store())
        return ast.copy_location(ast.Assign(targets=[tgt], value=c.args[2], type_comment=None), n)
    return n


def _propagate_name_constants(tree: ast.Module) -> None:
    """`name = "lit"` followed, in the same statement list and before any other assignment of `name`, by
    `getattr(o, name)` / `setattr(o, name, v)`: the name argument is the literal (then attribute access / assignment by
    the getattr / setattr idioms).  Typical after a table-driven loop was unrolled (`name = f"{kind}_{side}"`)."""
    for holder in list(ast.walk(tree)):
        for fld in ("body", "orelse", "finalbody"):
            lst = getattr(holder, fld, None)
            if not isinstance(lst, list) or not lst or not isinstance(lst[0], ast.stmt):
                continue
            env: dict[str, str] = {}
            for i, st in enumerate(lst):
                if isinstance(st, (ast.Expr, ast.Assign, ast.AnnAssign, ast.Return)) and env:
                    changed = False
                    for c in [x for x in ast.walk(st) if isinstance(x, ast.Call) and isinstance(x.func, ast.Name) and x.func.id in ("getattr", "setattr")
                              and len(x.args) >= 2 and isinstance(x.args[1], ast.Name) and x.args[1].id in env]:
                        c.args[1] = ast.copy_location(ast.Constant(value=env[c.args[1].id]), c.args[1])
                        changed = True
                    if changed:
                        st2 = _FoldConst("\0", None).visit(st)  # getattr idiom inside the statement
                        if isinstance(st2, ast.Expr):
                            st2 = _setattr_idiom(st2)
                        lst[i] = st = st2
                # update the environment
                stored = {x.id for x in ast.walk(st) if isinstance(x, ast.Name) and isinstance(x.ctx, (ast.Store, ast.Del))}
                for n_ in stored:
                    env.pop(n_, None)
                if isinstance(st, ast.Assign) and len(st.targets) == 1 and isinstance(st.targets[0], ast.Name) \
                        and isinstance(st.value, ast.Constant) and isinstance(st.value.value, str) and st.value.value.isidentifier():
                    env[st.targets[0].id] = st.value.value
                if isinstance(st, (ast.FunctionDef, ast.ClassDef, ast.Global, ast.Nonlocal)):
                    env.clear()


def _own_field_loops(tree: ast.Module) -> None:
    """In a method of a `@dataclass(slots=True)` class, `for name in self.__slots__:` iterates over the names of the
    fields the class itself declares, in order of declaration (inherited slots belong to the bases): the loop is given the
    literal tuple of those names, so that it is unrolled like any other table-driven loop (at most twelve fields)."""
    for cls in [n for n in ast.walk(tree) if isinstance(n, ast.ClassDef)]:
        slots = False
        for d in cls.decorator_list:
            if isinstance(d, ast.Call) and (dotted(d.func) or "").split(".")[-1] == "dataclass":
                slots = any(k.arg == "slots" and isinstance(k.value, ast.Constant) and k.value.value is True for k in d.keywords)
        if not slots:
            continue
        names = [st.target.id for st in cls.body if isinstance(st, ast.AnnAssign) and isinstance(st.target, ast.Name)
                 and "ClassVar" not in ast.unparse(st.annotation)]
        if not (1 <= len(names) <= 12):
            continue
        for fn in [n for n in cls.body if isinstance(n, ast.FunctionDef) and n.args.args]:
            selfn = fn.args.args[0].arg
            for lp in [n for n in ast.walk(fn) if isinstance(n, ast.For)]:
                it = lp.iter
                if isinstance(it, ast.Attribute) and it.attr == "__slots__" and isinstance(it.value, ast.Name) and it.value.id == selfn:
                    lp.iter = ast.copy_location(ast.Tuple(elts=[ast.copy_location(ast.Constant(value=v), it) for v in names], ctx=ast.Load()), it)
                    lp._own_fields = True


def _static_tables(tree: ast.Module) -> dict:
    """Module-level names bound once to a tuple / list of string or number constants that can be evaluated
    without running anything: literals, other such tables, f-strings over them, tuple(<generator over tables>)."""
    env: dict = {}
    counts: dict = {}
    for st in tree.body:
        for t in (st.targets if isinstance(st, ast.Assign) else [st.target] if isinstance(st, ast.AnnAssign) else []):
            if isinstance(t, ast.Name):
                counts[t.id] = counts.get(t.id, 0) + 1

    class _No(Exception):
        pass

    def ev(e, loc):
        if isinstance(e, ast.Constant) and isinstance(e.value, (str, int)) and not isinstance(e.value, bool):
            return e.value
        if isinstance(e, (ast.Tuple, ast.List)):
            return tuple(ev(x, loc) for x in e.elts)
        if isinstance(e, ast.Name):
            if e.id in loc:
                return loc[e.id]
            if e.id in env:
                return env[e.id]
            raise _No
        if isinstance(e, ast.JoinedStr):
            out = ""
            for v in e.values:
                if isinstance(v, ast.Constant):
                    out += str(v.value)
                elif isinstance(v, ast.FormattedValue) and v.conversion == -1 and v.format_spec is None:
                    out += str(ev(v.value, loc))
                else:
                    raise _No
            return out
        if isinstance(e, ast.Call) and isinstance(e.func, ast.Name) and e.func.id in ("tuple", "list") and len(e.args) == 1 and not e.keywords:
            return tuple(ev(e.args[0], loc))
        if isinstance(e, (ast.GeneratorExp, ast.ListComp)):
            res: list = []

            def rec(i, loc2):
                if len(res) > 24:
                    raise _No
                if i == len(e.generators):
                    res.append(ev(e.elt, loc2))
                    return
                g = e.generators[i]
                if g.ifs or g.is_async or not isinstance(g.target, ast.Name):
                    raise _No
                for v in ev(g.iter, loc2):
                    rec(i + 1, {**loc2, g.target.id: v})

            rec(0, dict(loc))
            return tuple(res)
        raise _No

    for st in tree.body:
        tgt = val = None
        if isinstance(st, ast.Assign) and len(st.targets) == 1:
            tgt, val = st.targets[0], st.value
        elif isinstance(st, ast.AnnAssign) and st.value is not None:
            tgt, val = st.target, st.value
        if isinstance(tgt, ast.Name) and counts.get(tgt.id) == 1:
            try:
                v = ev(val, {})
            except _No:
                continue
            except Exception:  # noqa: BLE001
                continue
            if isinstance(v, tuple) and v and all(isinstance(x, (str, int)) for x in v):
                env[tgt.id] = v
    return env


_INPLACE_UFUNCS = {"negative": ("unary", ast.USub), "multiply": ("bin", ast.Mult), "add": ("bin", ast.Add), "subtract": ("bin", ast.Sub), "divide": ("bin", ast.Div)}


def _basic_index(e: ast.AST) -> bool:
    """An index made of names, constants, slices and tuples of them: the subscript is a NumPy view."""
    if isinstance(e, ast.Tuple):
        return all(_basic_index(x) for x in e.elts)
    if isinstance(e, ast.Slice):
        return all(x is None or isinstance(x, (ast.Name, ast.Constant)) or (isinstance(x, ast.UnaryOp) and isinstance(x.operand, ast.Constant)) for x in (e.lower, e.upper, e.step))
    if isinstance(e, ast.Constant):
        return isinstance(e.value, int) or e.value is Ellipsis
    return isinstance(e, ast.Name)


def _eliminate_views(fn: ast.AST) -> None:
    """Source normal form: a local that is bound once to a basic-index subscript of an attribute
    / name (`row = self._a[i, :]`), and is then only written as a whole (`row[:] = e`,
    `row[...] = e`, `row op= e`, `np.negative(row, out=row)`) or read, is replaced by the
    subscript itself.  NumPy basic indexing gives a view, so writing the view is writing the
    array: behaviour preserving, and the term analyses see the stores on the array."""
    import copy

    assigns: dict[str, list] = {}
    for n in ast.walk(fn):
        if isinstance(n, (ast.FunctionDef, ast.AsyncFunctionDef, ast.Lambda)) and n is not fn:
            continue
        tgts = []
        if isinstance(n, ast.Assign):
            tgts = n.targets
        elif isinstance(n, (ast.AugAssign, ast.AnnAssign)):
            tgts = [n.target]
        elif isinstance(n, (ast.For, ast.AsyncFor)):
            tgts = [n.target]
        elif isinstance(n, ast.withitem) and n.optional_vars is not None:
            tgts = [n.optional_vars]
        elif isinstance(n, ast.NamedExpr):
            tgts = [n.target]
        for t in tgts:
            for leaf in ast.walk(t):
                if isinstance(leaf, ast.Name) and isinstance(leaf.ctx, ast.Store):
                    assigns.setdefault(leaf.id, []).append(n)
    params = {a.arg for a in fn.args.posonlyargs + fn.args.args + fn.args.kwonlyargs} if hasattr(fn, "args") else set()
    for name, sites in assigns.items():
        if len(sites) != 1 or name in params:
            continue
        st = sites[0]
        if not (isinstance(st, ast.Assign) and len(st.targets) == 1 and isinstance(st.targets[0], ast.Name) and isinstance(st.value, ast.Subscript)):
            continue
        sub = st.value
        base = sub.value
        while isinstance(base, ast.Attribute):
            base = base.value
        if not isinstance(base, ast.Name) or not _basic_index(sub.slice):
            continue
        index_names = {x.id for x in ast.walk(sub.slice) if isinstance(x, ast.Name)} | {base.id}
        # the statement list that holds the binding; every use must be inside it, after the binding
        holder = None
        for par in ast.walk(fn):
            for fld in ("body", "orelse", "finalbody"):
                lst = getattr(par, fld, None)
                if isinstance(lst, list) and any(x is st for x in lst):
                    holder = lst
        if holder is None:
            continue
        idx = next(i for i, x in enumerate(holder) if x is st)
        rest = holder[idx + 1:]
        inside = {id(x) for s_ in rest for x in ast.walk(s_)}
        uses = [x for x in ast.walk(fn) if isinstance(x, ast.Name) and x.id == name and x is not st.targets[0]]
        if not uses or any(id(u) not in inside for u in uses):
            continue
        # nothing the subscript depends on is rebound after the binding
        if any(isinstance(x, ast.Name) and isinstance(x.ctx, ast.Store) and x.id in index_names for s_ in rest for x in ast.walk(s_)):
            continue
        whole_stores = 0
        ok = True
        plan = []  # (statement, replacement statement)

        def the_sub(ctx_):
            c = copy.deepcopy(sub)
            c.ctx = ctx_
            return c

        for s_ in rest:
            for x in ast.walk(s_):
                if isinstance(x, ast.Assign) and any(isinstance(t, ast.Subscript) and isinstance(t.value, ast.Name) and t.value.id == name for t in x.targets):
                    t = x.targets[0]
                    full = isinstance(t.slice, ast.Slice) and t.slice.lower is None and t.slice.upper is None and t.slice.step is None or (isinstance(t.slice, ast.Constant) and t.slice.value is Ellipsis)
                    if len(x.targets) != 1 or not full:
                        ok = False
                    else:
                        whole_stores += 1
                        plan.append((x, ("assign", x)))
                elif isinstance(x, ast.AugAssign) and isinstance(x.target, ast.Name) and x.target.id == name:
                    ok = False  # rebinding/augmenting the name itself is not handled (single binding required)
                elif isinstance(x, ast.Expr) and isinstance(x.value, ast.Call):
                    c = x.value
                    outs = [kw for kw in c.keywords if kw.arg == "out"]
                    if outs and isinstance(outs[0].value, ast.Name) and outs[0].value.id == name:
                        fname = c.func.attr if isinstance(c.func, ast.Attribute) else (c.func.id if isinstance(c.func, ast.Name) else "")
                        if fname in _INPLACE_UFUNCS and len(c.keywords) == 1:
                            whole_stores += 1
                            plan.append((x, ("ufunc", fname, c)))
                        else:
                            ok = False
        if not ok or whole_stores == 0:
            continue
        # apply: replace the planned statements, then every remaining load of the name
        def replace_stmt(old, new):
            for par in ast.walk(fn):
                for fld in ("body", "orelse", "finalbody"):
                    lst = getattr(par, fld, None)
                    if isinstance(lst, list):
                        for i, y in enumerate(lst):
                            if y is old:
                                lst[i] = new

        for old, how in plan:
            if how[0] == "assign":
                new = ast.Assign(targets=[the_sub(ast.Store())], value=old.value, type_comment=None)
            else:
                kind, op = _INPLACE_UFUNCS[how[1]]
                c = how[2]
                if kind == "unary" and len(c.args) == 1:
                    val = ast.UnaryOp(op=op(), operand=c.args[0])
                elif kind == "bin" and len(c.args) == 2:
                    val = ast.BinOp(left=c.args[0], op=op(), right=c.args[1])
                else:
                    continue
                new = ast.Assign(targets=[the_sub(ast.Store())], value=val, type_comment=None)
            ast.copy_location(new, old)
            replace_stmt(old, new)

        class _R(ast.NodeTransformer):
            def visit_Name(self, n):
                if n.id == name and isinstance(n.ctx, ast.Load):
                    return ast.copy_location(the_sub(ast.Load()), n)
                return n

        for i, s_ in enumerate(holder):
            if i > idx:
                holder[i] = _R().visit(s_)
        # the binding itself stays (now unused): harmless


def _simple_arg(e: ast.AST) -> bool:
    if isinstance(e, (ast.Name, ast.Constant)):
        return True
    if isinstance(e, ast.Attribute):
        return _simple_arg(e.value)
    return False


def _statement_helper(fn: ast.AST) -> bool:
    """A private procedure of at most three simple statements (calls, one-level ifs) that returns
    nothing and stores nothing but locals: calling it as a statement equals executing its body."""
    if not isinstance(fn, ast.FunctionDef) or not fn.name.startswith("_") or fn.name.startswith("__"):
        return False
    if any(not (isinstance(d, ast.Name) and d.id == "staticmethod") for d in fn.decorator_list):
        return False
    a = fn.args
    if a.vararg or a.kwarg or a.posonlyargs or a.defaults or any(d is not None for d in a.kw_defaults):
        return False
    body = [s for s in fn.body if not (isinstance(s, ast.Expr) and isinstance(s.value, ast.Constant))]
    if not (1 <= len(body) <= 3):
        return False
    pnames = {x.arg for x in a.args + a.kwonlyargs}

    def param_store(t):
        # `param[...] = v` / `param.attr = v`: a store into the object the caller handed over
        while isinstance(t, (ast.Subscript, ast.Attribute)):
            t = t.value
        return isinstance(t, ast.Name) and t.id in pnames

    def ok(stmts, depth):
        for s in stmts:
            if isinstance(s, ast.Expr) and isinstance(s.value, ast.Call):
                continue
            if isinstance(s, ast.Assign) and len(s.targets) == 1 and isinstance(s.targets[0], (ast.Subscript, ast.Attribute)) and param_store(s.targets[0]):
                continue
            if isinstance(s, ast.If) and depth == 0 and ok(s.body, 1) and ok(s.orelse, 1):
                continue
            if isinstance(s, (ast.Pass, ast.Assert)):
                continue
            if isinstance(s, ast.With) and all(it.optional_vars is None for it in s.items) and ok(s.body, depth):
                continue
            return False
        return True

    if not ok(body, 0):
        return False
    for n in ast.walk(fn):
        if isinstance(n, (ast.Yield, ast.YieldFrom, ast.Await, ast.Lambda, ast.NamedExpr, ast.Return)) or (isinstance(n, (ast.FunctionDef, ast.ClassDef)) and n is not fn):
            return False
        if isinstance(n, ast.Name) and isinstance(n.ctx, ast.Store):
            return False
        if isinstance(n, ast.Call) and isinstance(n.func, ast.Attribute) and isinstance(n.func.value, ast.Name) and n.func.attr == fn.name:
            return False  # recursive
    return True


_SH_COUNTER = [0]


def _inline_statement_helpers(tree: ast.Module) -> None:
    """Source normal form: `self._helper(a, b)` as a statement, `_helper` a statement helper of the
    same class (or `_helper(a)` of the same module), is replaced by the helper's body with the
    parameters replaced by the (simple) argument expressions."""
    import copy

    def subst(body, mapping):
        class _S(ast.NodeTransformer):
            def visit_Name(self, n):
                if isinstance(n.ctx, ast.Load) and n.id in mapping:
                    return ast.copy_location(copy.deepcopy(mapping[n.id]), n)
                return n

        return [_S().visit(copy.deepcopy(s)) for s in body if not (isinstance(s, ast.Expr) and isinstance(s.value, ast.Constant))]

    def process(owner_body, helpers, is_class, overridden=frozenset()):
        for fn in [n for n in owner_body if isinstance(n, ast.FunctionDef)]:
            for _round in range(2):
                changed = False
                for par in list(ast.walk(fn)):
                    for fld in ("body", "orelse", "finalbody"):
                        lst = getattr(par, fld, None)
                        if not isinstance(lst, list):
                            continue
                        new = []
                        for st in lst:
                            rep = None
                            if isinstance(st, ast.Expr) and isinstance(st.value, ast.Call) and all(k.arg is not None for k in st.value.keywords) and not any(isinstance(x, ast.Starred) for x in st.value.args):
                                c = st.value
                                h = None
                                recv = None
                                if is_class and isinstance(c.func, ast.Attribute) and isinstance(c.func.value, ast.Name) and fn.args.args and c.func.value.id == fn.args.args[0].arg:
                                    h = helpers.get(c.func.attr)
                                    recv = c.func.value
                                elif not is_class and isinstance(c.func, ast.Name):
                                    h = helpers.get(c.func.id)
                                if h is not None and h is not fn and h.name not in overridden:
                                    params = [a.arg for a in h.args.args]
                                    static = any(isinstance(d, ast.Name) and d.id == "staticmethod" for d in h.decorator_list)
                                    args = list(c.args)
                                    if is_class and not static:
                                        args = [recv] + args
                                    kwn = [a.arg for a in h.args.kwonlyargs]
                                    bound = dict(zip(params, args))
                                    okb = len(args) <= len(params)
                                    for k in c.keywords:
                                        if k.arg in bound or k.arg not in params + kwn:
                                            okb = False
                                        bound[k.arg] = k.value
                                    if okb and set(bound) == set(params + kwn):
                                        # arguments that are not plain names / attributes are evaluated once, into a fresh local
                                        pre = []
                                        stored = {t_.id for x in ast.walk(h) for t_ in [x] if isinstance(t_, ast.Name) and isinstance(t_.ctx, ast.Store)}
                                        for pn, av in list(bound.items()):
                                            if not _simple_arg(av):
                                                _SH_COUNTER[0] += 1
                                                tmp = f"__sh{_SH_COUNTER[0]}_{pn}"
                                                pre.append(ast.copy_location(ast.Assign(targets=[ast.Name(id=tmp, ctx=ast.Store())], value=copy.deepcopy(av), type_comment=None), st))
                                                bound[pn] = ast.Name(id=tmp, ctx=ast.Load())
                                        rep = [ast.fix_missing_locations(x) for x in pre] + subst(h.body, bound)
                            if rep is not None:
                                new.extend(rep)
                                changed = True
                            else:
                                new.append(st)
                        lst[:] = new
                if not changed:
                    break

    mod_helpers = {n.name: n for n in tree.body if isinstance(n, ast.FunctionDef) and _statement_helper(n)}
    if mod_helpers:
        process(tree.body, mod_helpers, False)
        for cls in [n for n in tree.body if isinstance(n, ast.ClassDef)]:
            process(cls.body, mod_helpers, False)
    # names defined in more than one class of the module may be overridden: leave those alone
    counts: dict[str, int] = {}
    for cls in [n for n in ast.walk(tree) if isinstance(n, ast.ClassDef)]:
        for n in cls.body:
            if isinstance(n, ast.FunctionDef):
                counts[n.name] = counts.get(n.name, 0) + 1
    dup = frozenset(k for k, v in counts.items() if v > 1)
    for cls in [n for n in ast.walk(tree) if isinstance(n, ast.ClassDef)]:
        helpers = {n.name: n for n in cls.body if isinstance(n, ast.FunctionDef) and _statement_helper(n)}
        if helpers:
            process(cls.body, helpers, True, dup)


class _Idioms(ast.NodeTransformer):
    """`a.flags.writeable = v`  ->  `a.setflags(write=v)` (the same NumPy operation)."""

    def visit_Assign(self, node: ast.Assign):
        self.generic_visit(node)
        if len(node.targets) == 1:
            t = node.targets[0]
            if isinstance(t, ast.Attribute) and t.attr == "writeable" and isinstance(t.value, ast.Attribute) and t.value.attr == "flags":
                call = ast.Call(func=ast.Attribute(value=t.value.value, attr="setflags", ctx=ast.Load()), args=[], keywords=[ast.keyword(arg="write", value=node.value)])
                return ast.copy_location(ast.Expr(value=call), node)
        return node


# ------------------------------------------------------------ procedure inlining
def _proc_inlinable(fn: ast.AST, tail: bool) -> bool:
    """A private method / function whose call can be replaced by its body: simple parameter list,
    no generator / nested definitions, and a single exit (a `return` only as the last top-level
    statement) unless the call is in tail position (`return helper(...)`)."""
    if not isinstance(fn, ast.FunctionDef) or not fn.name.startswith("_") or fn.name.startswith("__"):
        return False
    if any(not (isinstance(d, ast.Name) and d.id == "staticmethod") for d in fn.decorator_list):
        return False
    a = fn.args
    if a.vararg or a.kwarg or a.posonlyargs:
        return False
    if any(not isinstance(d, ast.Constant) for d in list(a.defaults) + [d for d in a.kw_defaults if d is not None]):
        return False
    for n in ast.walk(fn):
        if isinstance(n, (ast.Yield, ast.YieldFrom, ast.Await, ast.Global, ast.Nonlocal, ast.Lambda, ast.NamedExpr)):
            return False
        if isinstance(n, (ast.FunctionDef, ast.AsyncFunctionDef, ast.ClassDef)) and n is not fn:
            return False
        if isinstance(n, (ast.ListComp, ast.SetComp, ast.DictComp, ast.GeneratorExp)):
            pass
    return True


def _small_procedure(fn: ast.AST) -> bool:
    if not isinstance(fn, ast.FunctionDef) or not fn.name.startswith("_") or fn.name.startswith("__"):
        return False
    body = [s_ for s_ in fn.body if not (isinstance(s_, ast.Expr) and isinstance(s_.value, ast.Constant))]
    n_stmts = sum(1 for s_ in body for x in ast.walk(s_) if isinstance(x, ast.stmt))
    if n_stmts > 6 or not body:
        return False
    if any(isinstance(x, (ast.For, ast.While, ast.Try, ast.With, ast.Match)) for s_ in body for x in ast.walk(s_)):
        return False
    return not _has_early_return(fn)


def _fold_none_tests(stmts: list) -> list:
    """After a default `param=None` was substituted: `if None is None: A else: B` is A (recursively)."""
    out = []
    for st in stmts:
        if isinstance(st, ast.If):
            t = st.test
            val = None
            if isinstance(t, ast.Compare) and len(t.ops) == 1 and isinstance(t.left, ast.Constant) and t.left.value is None \
                    and isinstance(t.comparators[0], ast.Constant) and t.comparators[0].value is None and isinstance(t.ops[0], (ast.Is, ast.IsNot)):
                val = isinstance(t.ops[0], ast.Is)
            elif isinstance(t, ast.Constant) and isinstance(t.value, bool):
                # a flag parameter bound to a literal at the (inlined) call site
                val = t.value
            elif isinstance(t, ast.UnaryOp) and isinstance(t.op, ast.Not) and isinstance(t.operand, ast.Constant) and isinstance(t.operand.value, bool):
                val = not t.operand.value
            if val is not None:
                out.extend(_fold_none_tests(st.body if val else st.orelse))
                continue
            st.body = _fold_none_tests(st.body) or [ast.copy_location(ast.Pass(), st)]
            st.orelse = _fold_none_tests(st.orelse)
        elif isinstance(st, (ast.For, ast.While, ast.With)):
            st.body = _fold_none_tests(st.body) or [ast.copy_location(ast.Pass(), st)]
        out.append(st)
    return out


def _has_early_return(fn: ast.FunctionDef) -> bool:
    body = [s_ for s_ in fn.body if not (isinstance(s_, ast.Expr) and isinstance(s_.value, ast.Constant))]
    for i, s_ in enumerate(body):
        for x in ast.walk(s_):
            if isinstance(x, ast.Return) and not (x is s_ and i == len(body) - 1):
                return True
    return False


class _Rename(ast.NodeTransformer):
    def __init__(self, mapping: dict[str, ast.AST], renames: dict[str, str]) -> None:
        self.mapping, self.renames = mapping, renames

    def visit_Name(self, n: ast.Name):
        import copy

        if n.id in self.mapping and isinstance(n.ctx, ast.Load):
            return ast.copy_location(copy.deepcopy(self.mapping[n.id]), n)
        if n.id in self.renames:
            return ast.copy_location(ast.Name(id=self.renames[n.id], ctx=n.ctx), n)
        return n


def _inline_procedures(tree: ast.Module) -> None:
    """Source normal form for path analyses: in the *public* methods of a class (the entry points
    that rules analyse path by path), a call `self._helper(...)` of a private single-exit method of
    the same class, written as a statement, as the whole right-hand side of an assignment or as the
    value of a `return`, is replaced by the helper's body (parameters bound to fresh locals, the
    helper's locals renamed).  Splitting a long method into private pieces therefore does not change
    the control-flow graph the rules see.  The helpers themselves stay defined."""
    import copy

    counter = [0]

    def expand(fn: ast.FunctionDef, helpers: dict, selfname: str | None, depth: int, mod_helpers: dict | None = None) -> None:
        if depth > 3:
            return
        for par in list(ast.walk(fn)):
            for fld in ("body", "orelse", "finalbody"):
                lst = getattr(par, fld, None)
                if not isinstance(lst, list) or (par is not fn and isinstance(par, (ast.FunctionDef, ast.ClassDef))):
                    continue
                new: list = []
                for st in lst:
                    call, form = None, None
                    if isinstance(st, ast.Expr) and isinstance(st.value, ast.Call):
                        call, form = st.value, "expr"
                    elif isinstance(st, ast.Assign) and isinstance(st.value, ast.Call) and len(st.targets) == 1:
                        call, form = st.value, "assign"
                    elif isinstance(st, ast.AnnAssign) and isinstance(st.value, ast.Call) and isinstance(st.target, ast.Name):
                        call, form = st.value, "annassign"
                    elif isinstance(st, ast.Return) and isinstance(st.value, ast.Call):
                        call, form = st.value, "return"
                    h = None
                    is_mod = False
                    if call is not None and selfname is not None and isinstance(call.func, ast.Attribute) and isinstance(call.func.value, ast.Name) and call.func.value.id == selfname:
                        h = helpers.get(call.func.attr)
                    elif call is not None and mod_helpers and form == "expr" and isinstance(call.func, ast.Name):
                        h = mod_helpers.get(call.func.id)
                        is_mod = h is not None
                    if h is None or h is fn or not _proc_inlinable(h, form == "return") or any(isinstance(a_, ast.Starred) for a_ in call.args) or any(k.arg is None for k in call.keywords):
                        new.append(st)
                        continue
                    counter[0] += 1
                    tag = f"__inl{counter[0]}_"
                    static = is_mod or any(isinstance(d, ast.Name) and d.id == "staticmethod" for d in h.decorator_list)
                    params = [a_.arg for a_ in h.args.args]
                    mapping: dict[str, ast.AST] = {}
                    pre: list = []
                    if not static and params:
                        mapping[params[0]] = ast.Name(id=selfname, ctx=ast.Load())
                        params = params[1:]
                    bound: dict[str, ast.AST] = {}
                    for p_, a_ in zip(params, call.args):
                        bound[p_] = a_
                    for k in call.keywords:
                        bound[k.arg] = k.value
                    allp = params + [a_.arg for a_ in h.args.kwonlyargs]
                    nd = len(h.args.defaults)
                    dflt = dict(zip([a_.arg for a_ in h.args.args][len(h.args.args) - nd:], h.args.defaults)) if nd else {}
                    dflt.update({a_.arg: d for a_, d in zip(h.args.kwonlyargs, h.args.kw_defaults) if d is not None})
                    okb = True
                    stores = {x.id for x in ast.walk(h) if isinstance(x, ast.Name) and isinstance(x.ctx, ast.Store)}
                    for p_ in allp:
                        v = bound.get(p_, dflt.get(p_))
                        if v is None:
                            okb = False
                            break
                        if _simple_arg(v) and p_ not in stores:
                            mapping[p_] = v
                        else:
                            asg = ast.Assign(targets=[ast.Name(id=tag + p_, ctx=ast.Store())], value=copy.deepcopy(v), type_comment=None)
                            pre.append(ast.copy_location(asg, st))
                    if not okb or len(call.args) > len(params):
                        new.append(st)
                        continue
                    renames = {n_: tag + n_ for n_ in stores | {p_ for p_ in allp if p_ not in mapping}}
                    body = [copy.deepcopy(s_) for s_ in h.body if not (isinstance(s_, ast.Expr) and isinstance(s_.value, ast.Constant))]
                    body = [_Rename(mapping, renames).visit(s_) for s_ in body]
                    body = _fold_none_tests(body)
                    out = pre + body
                    if form != "return" and _has_early_return(h):
                        # one-pass loop: `return E` -> `<target> = E; break`
                        tgt_name = tag + "result"

                        done_name = tag + "done"

                        def conv(stmts, in_own_loop):
                            """`return E` -> `<result> = E; <done> = True; break`; after each loop of the helper
                            itself: `if <done>: break` (leave the enclosing loop as well)."""
                            out_ = []
                            for s_ in stmts:
                                if isinstance(s_, ast.Return):
                                    out_.append(ast.copy_location(ast.Assign(targets=[ast.Name(id=tgt_name, ctx=ast.Store())], value=s_.value if s_.value is not None else ast.Constant(value=None), type_comment=None), s_))
                                    out_.append(ast.copy_location(ast.Assign(targets=[ast.Name(id=done_name, ctx=ast.Store())], value=ast.Constant(value=True), type_comment=None), s_))
                                    out_.append(ast.copy_location(ast.Break(), s_))
                                    continue
                                if isinstance(s_, (ast.For, ast.While)):
                                    has_ret = any(isinstance(x, ast.Return) for x in ast.walk(s_))
                                    s_.body = conv(s_.body, True)
                                    s_.orelse = conv(s_.orelse, in_own_loop)
                                    out_.append(s_)
                                    if has_ret:
                                        out_.append(ast.copy_location(ast.If(test=ast.Name(id=done_name, ctx=ast.Load()), body=[ast.Break()], orelse=[]), s_))
                                    continue
                                for fld_ in ("body", "orelse", "finalbody"):
                                    sub_ = getattr(s_, fld_, None)
                                    if isinstance(sub_, list) and sub_ and isinstance(sub_[0], ast.stmt):
                                        setattr(s_, fld_, conv(sub_, in_own_loop))
                                if isinstance(s_, ast.Try):
                                    for h_ in s_.handlers:
                                        h_.body = conv(h_.body, in_own_loop)
                                if isinstance(s_, ast.Match):
                                    for c_ in s_.cases:
                                        c_.body = conv(c_.body, in_own_loop)
                                out_.append(s_)
                            return out_

                        flat = conv(body, False)
                        pre = pre + [ast.copy_location(ast.Assign(targets=[ast.Name(id=done_name, ctx=ast.Store())], value=ast.Constant(value=False), type_comment=None), st)]
                        if not flat or not isinstance(flat[-1], ast.Break):
                            flat.append(ast.copy_location(ast.Assign(targets=[ast.Name(id=tgt_name, ctx=ast.Store())], value=ast.Constant(value=None), type_comment=None), st))
                            flat.append(ast.copy_location(ast.Break(), st))
                        loop = ast.While(test=ast.Constant(value=True), body=flat, orelse=[])
                        loop._synthetic = True  # the one-pass wrapper of an inlined helper, not a loop of the program
                        out = pre + [ast.copy_location(loop, st)]
                        res_load = ast.Name(id=tgt_name, ctx=ast.Load())
                        if form == "assign":
                            out.append(ast.copy_location(ast.Assign(targets=st.targets, value=res_load, type_comment=None), st))
                        elif form == "annassign":
                            out.append(ast.copy_location(ast.AnnAssign(target=st.target, annotation=st.annotation, value=res_load, simple=1), st))
                    elif form != "return":
                        last = out[-1] if out else None
                        ret_val = None
                        if isinstance(last, ast.Return):
                            ret_val = last.value
                            out = out[:-1]
                        if form == "assign":
                            asg = ast.Assign(targets=st.targets, value=ret_val if ret_val is not None else ast.Constant(value=None), type_comment=None)
                            out.append(ast.copy_location(asg, st))
                        elif form == "annassign":
                            asg = ast.AnnAssign(target=st.target, annotation=st.annotation, value=ret_val if ret_val is not None else ast.Constant(value=None), simple=1)
                            out.append(ast.copy_location(asg, st))
                        elif ret_val is not None:
                            out.append(ast.copy_location(ast.Expr(value=ret_val), st))
                    if not out:
                        out = [ast.copy_location(ast.Pass(), st)]
                    new.extend(out)
                lst[:] = new
        # helpers inlined above may call further helpers
        if depth < 3 and any(isinstance(x, ast.Name) and x.id.startswith("__inl") for x in ast.walk(fn)):
            pass

    inlined_any: set[str] = set()
    for cls in [n for n in ast.walk(tree) if isinstance(n, ast.ClassDef)]:
        helpers = {n.name: n for n in cls.body if isinstance(n, ast.FunctionDef)}
        bases = [dotted(b) or "" for b in cls.bases]
        attr_refs: dict[str, int] = {}
        for x in ast.walk(cls):
            if isinstance(x, ast.Attribute):
                attr_refs[x.attr] = attr_refs.get(x.attr, 0) + 1
        proc_like = set()
        for k, h in helpers.items():
            if not k.startswith("_") or k.startswith("__") or not (1 <= attr_refs.get(k, 0) <= 4) or not _proc_inlinable(h, False) or _has_early_return(h):
                continue
            if any(isinstance(x, ast.Return) and x.value is not None for x in ast.walk(h)):
                continue
            # every reference is a call written as a statement
            calls_as_stmt = sum(1 for x in ast.walk(cls) if isinstance(x, ast.Expr) and isinstance(x.value, ast.Call) and isinstance(x.value.func, ast.Attribute) and x.value.func.attr == k)
            if calls_as_stmt != attr_refs.get(k, 0):
                continue
            if sum(1 for s_ in h.body for x in ast.walk(s_) if isinstance(x, ast.stmt)) <= 12:
                proc_like.add(k)
        for fn in [n for n in cls.body if isinstance(n, ast.FunctionDef)]:
            if (fn.name.startswith("__") and fn.name != "__post_init__") or not fn.args.args:
                continue
            # only the protocol classes whose paths the rules walk: plan steps and result handlers (all
            # their methods: run, the evaluation signal, nested runners), Plan, and optimizer.start
            # (numeric kernels and the SciPy plug-in's cache protocol stay as written)
            entry = (
                any(b.endswith("Step") or b.endswith("Handler") for b in bases)
                or (fn.name == "start" and any(b.endswith("Optimizer") for b in bases))
                or cls.name == "Plan"
                or cls.name.endswith("Manager")
                # the field canonicalisation of a dataclass: one unit however it is cut into private pieces
                or fn.name == "__post_init__"
            )
            use = helpers
            if not entry:
                # elsewhere: private procedures of the class (nothing returned, at most twelve statements) that are
                # called as statements - a named piece of their callers, e.g. the row loop shared by two setters
                use = {k: h for k, h in helpers.items() if k in proc_like and h is not fn}
                # (not in optimizer plug-ins: their validation procedure is the unit the cache-protocol rules reason about)
                if not use or any(b.endswith("Optimizer") for b in bases):
                    continue
            if any(isinstance(d, ast.Name) and d.id in ("staticmethod", "classmethod", "property") for d in fn.decorator_list):
                continue
            for _round in range(3):
                before = ast.dump(fn)
                expand(fn, use, fn.args.args[0].arg, 0)
                if ast.dump(fn) == before:
                    break
                inlined_any.add(cls.name)
    # module-level private procedures (no value returned) with a single call site, called as a statement: a named
    # piece of their caller (`_assign(weights, ranked, p)` that fills `weights` in place)
    top = [n for n in tree.body if isinstance(n, ast.FunctionDef)]
    name_refs: dict[str, int] = {}
    for x in ast.walk(tree):
        if isinstance(x, ast.Name) and isinstance(x.ctx, ast.Load):
            name_refs[x.id] = name_refs.get(x.id, 0) + 1
        elif isinstance(x, ast.Attribute):
            name_refs[x.attr] = name_refs.get(x.attr, 0) + 1
    mod_helpers = {}
    for h in top:
        # one call site, or several (a parametrised piece shared by sibling callers): each call is replaced by the body
        if not (1 <= name_refs.get(h.name, 0) <= 4) or not _proc_inlinable(h, False) or _has_early_return(h):
            continue
        if any(isinstance(x, ast.Return) and x.value is not None for x in ast.walk(h)):
            continue
        n_st = sum(1 for s_ in h.body for x in ast.walk(s_) if isinstance(x, ast.stmt))
        if n_st <= 12:
            mod_helpers[h.name] = h
    mod_inlined = set()
    if mod_helpers:
        callers = top + [n for c_ in tree.body if isinstance(c_, ast.ClassDef) for n in c_.body if isinstance(n, ast.FunctionDef)]
        for fn in callers:
            if fn.name in mod_helpers:
                continue
            before = ast.dump(fn)
            expand(fn, {}, None, 0, mod_helpers)
            if ast.dump(fn) != before:
                mod_inlined.add(fn.name)
        if mod_inlined:
            still = {x.id for x in ast.walk(tree) if isinstance(x, ast.Name) and isinstance(x.ctx, ast.Load)}
            tree.body[:] = [n for n in tree.body if not (isinstance(n, ast.FunctionDef) and n.name in mod_helpers and n.name not in still)]
    # a private helper whose every call was replaced by its body is no longer part of the program in
    # normal form: drop its definition (otherwise rules would see its statements twice)
    if inlined_any:
        refs = {x.attr for x in ast.walk(tree) if isinstance(x, ast.Attribute)} | {x.id for x in ast.walk(tree) if isinstance(x, ast.Name)}
        for cls in [n for n in ast.walk(tree) if isinstance(n, ast.ClassDef) and n.name in inlined_any]:
            cls.body[:] = [n for n in cls.body if not (isinstance(n, ast.FunctionDef) and n.name.startswith("_") and not n.name.startswith("__") and n.name not in refs)]


INLINE_PROCEDURES = True


def normalise_tree(tree: ast.Module) -> ast.Module:
    try:
        tables = _static_tables(tree)
    except Exception:  # noqa: BLE001 - optional normal form
        tables = {}
    try:
        _own_field_loops(tree)
    except Exception:  # noqa: BLE001 - optional normal form
        pass
    try:
        tree = _MatchToIf().visit(tree)
        ast.fix_missing_locations(tree)
    except Exception:  # noqa: BLE001 - optional normal form
        pass
    tree = _Unroll(tables).visit(tree)
    try:
        tree = _TupleComps().visit(tree)
    except Exception:  # noqa: BLE001 - optional normal form
        pass
    try:
        _propagate_name_constants(tree)
    except Exception:  # noqa: BLE001 - optional normal form
        pass
    tree = _Idioms().visit(tree)
    if INLINE_PROCEDURES:
        try:
            _inline_procedures(tree)
        except Exception:  # noqa: BLE001 - optional normal form
            pass
    try:
        _inline_statement_helpers(tree)
    except Exception:  # noqa: BLE001 - optional normal form
        pass
    try:
        # what became constant by inlining (`f"{kind}_lower"` with kind bound to a literal at the call): fold, propagate
        # into getattr / setattr, apply the attribute idioms
        tree = _FoldConst("\0", None).visit(tree)
        _propagate_name_constants(tree)
    except Exception:  # noqa: BLE001 - optional normal form
        pass
    for n in list(ast.walk(tree)):
        if isinstance(n, (ast.FunctionDef, ast.AsyncFunctionDef)):
            try:
                _eliminate_views(n)
            except Exception:  # noqa: BLE001 - a normal form is optional: leave the function as written
                pass
    ast.fix_missing_locations(tree)
    return tree


class Repo:
    def __init__(self, root: str, overrides: dict[str, str] | None = None) -> None:
        self.root = os.path.abspath(root)
        self.src = os.path.join(self.root, "src")
        self.overrides = overrides or {}
        self.modules: dict[str, Module] = {}
        self.funcs: dict[str, Func] = {}
        self.classes: dict[str, Cls] = {}
        self._load()
        self._index()

    # ------------------------------------------------------------------ load
    def _load(self) -> None:
        pkg_dir = os.path.join(self.src, PKG)
        if not os.path.isdir(pkg_dir):
            raise AnalysisError(f"package directory not found: {pkg_dir}")
        for dirpath, dirnames, filenames in os.walk(pkg_dir):
            dirnames.sort()
            dirnames[:] = [d for d in dirnames if d != "__pycache__"]
            for fn in sorted(filenames):
                if not fn.endswith(".py"):
                    continue
                path = os.path.join(dirpath, fn)
                rel = os.path.relpath(path, self.root)
                mod = os.path.relpath(path, self.src)[:-3].replace(os.sep, ".")
                is_pkg = False
                if mod.endswith(".__init__"):
                    mod = mod[: -len(".__init__")]
                    is_pkg = True
                if rel in self.overrides:
                    source = self.overrides[rel]
                else:
                    with open(path, encoding="utf-8") as fh:
                        source = fh.read()
                try:
                    tree = ast.parse(source, filename=rel)
                except SyntaxError as exc:
                    raise AnalysisError(f"cannot parse {rel}: {exc}") from exc
                tree = normalise_tree(tree)
                _attach_parents(tree)
                self.modules[mod] = Module(mod, path, rel, source, tree, is_pkg)
        # virtual modules: overrides for files that do not exist on disk
        for rel, source in self.overrides.items():
            if not rel.startswith("src/") or not rel.endswith(".py"):
                continue
            path = os.path.join(self.root, rel)
            mod = rel[len("src/"):-3].replace("/", ".")
            if mod.endswith(".__init__"):
                mod = mod[: -len(".__init__")]
            if mod in self.modules:
                continue
            try:
                tree = ast.parse(source, filename=rel)
            except SyntaxError as exc:
                raise AnalysisError(f"cannot parse {rel}: {exc}") from exc
            tree = normalise_tree(tree)
            _attach_parents(tree)
            self.modules[mod] = Module(mod, path, rel, source, tree, False)

    # ----------------------------------------------------------------- index
    def _index(self) -> None:
        for m in self.modules.values():
            self._index_imports(m)
        for m in self.modules.values():
            self._index_defs(m)
        for c in self.classes.values():
            c.base_names = [
                self.resolve_in_module(c.module, dotted(b) or "") or (dotted(b) or "?")
                for b in c.node.bases
            ]

    def _index_imports(self, m: Module) -> None:
        for node in ast.walk(m.tree):
            if isinstance(node, ast.Import):
                for a in node.names:
                    if a.asname:
                        m.imports[a.asname] = a.name
                    else:
                        m.imports[a.name.split(".")[0]] = a.name.split(".")[0]
            elif isinstance(node, ast.ImportFrom):
                base = node.module or ""
                if node.level:
                    pkg_parts = m.name.split(".")
                    if not m.is_pkg:
                        pkg_parts = pkg_parts[:-1]
                    if node.level > 1:
                        pkg_parts = pkg_parts[: -(node.level - 1)]
                    base = ".".join(pkg_parts + ([base] if base else []))
                for a in node.names:
                    m.imports[a.asname or a.name] = f"{base}.{a.name}"

    def _index_defs(self, m: Module) -> None:
        def deco_names(node: ast.AST) -> list[str]:
            out = []
            for d in getattr(node, "decorator_list", []):
                out.append(ast.unparse(d))
            return out

        def add_func(
            node: ast.FunctionDef | ast.AsyncFunctionDef | ast.Lambda,
            qual: str,
            name: str,
            cls: Cls | None,
            outer: Func | None,
        ) -> Func:
            f = Func(qual, name, node, m, cls, outer, deco_names(node))
            self.funcs[qual] = f
            node._func = f  # type: ignore[attr-defined]
            self._index_nested(f)
            return f

        self._add_func = add_func  # used by _index_nested

        for stmt in m.tree.body:
            self._index_stmt(m, stmt, add_func, deco_names)

    def _index_stmt(self, m: Module, stmt: ast.stmt, add_func, deco_names) -> None:
        if isinstance(stmt, (ast.FunctionDef, ast.AsyncFunctionDef)):
            f = add_func(stmt, f"{m.name}.{stmt.name}", stmt.name, None, None)
            m.functions[stmt.name] = f
        elif isinstance(stmt, ast.ClassDef):
            c = Cls(f"{m.name}.{stmt.name}", stmt.name, stmt, m)
            c.decorators = deco_names(stmt)
            self.classes[c.qualname] = c
            m.classes[stmt.name] = c
            stmt._cls = c  # type: ignore[attr-defined]
            for s in stmt.body:
                if isinstance(s, (ast.FunctionDef, ast.AsyncFunctionDef)):
                    f = add_func(s, f"{c.qualname}.{s.name}", s.name, c, None)
                    # property setters etc. share a name; keep the first getter
                    c.methods.setdefault(s.name, f)
                elif isinstance(s, ast.AnnAssign) and isinstance(s.target, ast.Name):
                    c.fields[s.target.id] = (s.annotation, s.value)
                elif isinstance(s, ast.Assign):
                    for t in s.targets:
                        if isinstance(t, ast.Name):
                            c.fields.setdefault(t.id, (None, s.value))
        elif isinstance(stmt, ast.Assign):
            for t in stmt.targets:
                if isinstance(t, ast.Name):
                    m.constants[t.id] = stmt.value
        elif isinstance(stmt, ast.AnnAssign) and isinstance(stmt.target, ast.Name):
            if stmt.value is not None:
                m.constants[stmt.target.id] = stmt.value
        elif isinstance(stmt, (ast.If, ast.Try)):
            # ``if TYPE_CHECKING:`` blocks hold imports only; defs are rare
            for s in ast.iter_child_nodes(stmt):
                if isinstance(s, ast.stmt):
                    self._index_stmt(m, s, add_func, deco_names)

    def _index_nested(self, f: Func) -> None:
        """Register nested functions and lambdas of ``f`` (one level at a time)."""

        def visit(node: ast.AST) -> None:
            for child in ast.iter_child_nodes(node):
                if isinstance(child, (ast.FunctionDef, ast.AsyncFunctionDef)):
                    g = self._add_func(
                        child, f"{f.qualname}.<locals>.{child.name}", child.name, f.cls, f
                    )
                    f.nested[child.name] = g
                elif isinstance(child, ast.Lambda):
                    nm = f"<lambda@{child.lineno}:{child.col_offset}>"
                    g = self._add_func(child, f"{f.qualname}.<locals>.{nm}", nm, f.cls, f)
                    f.nested[nm] = g
                elif isinstance(child, ast.ClassDef):
                    continue  # local classes are not indexed (NumpyEncoder)
                else:
                    visit(child)

        if isinstance(f.node, ast.Lambda):
            visit(f.node.body)
        else:
            for s in f.node.body:
                if isinstance(s, (ast.FunctionDef, ast.AsyncFunctionDef)):
                    g = self._add_func(
                        s, f"{f.qualname}.<locals>.{s.name}", s.name, f.cls, f
                    )
                    f.nested[s.name] = g
                else:
                    visit(s)
            for d in list(f.node.args.defaults) + list(f.node.args.kw_defaults):
                if d is not None:
                    visit(d)

    # --------------------------------------------------------------- resolve
    def resolve(self, qual: str, _depth: int = 0) -> str:
        """Follow re-export chains: ``ropt.results.Functions`` ->
        ``ropt.results._functions.Functions``.  Unknown names are returned
        unchanged (external libraries)."""
        if _depth > 12 or not qual:
            return qual
        if qual in self.funcs or qual in self.classes or qual in self.modules:
            return qual
        # split into (module prefix, remainder)
        parts = qual.split(".")
        for i in range(len(parts) - 1, 0, -1):
            mod = ".".join(parts[:i])
            if mod in self.modules:
                m = self.modules[mod]
                head, rest = parts[i], parts[i + 1 :]
                if head in m.imports:
                    target = m.imports[head]
                    if target == qual:
                        return qual
                    return self.resolve(".".join([target] + rest), _depth + 1)
                return qual
        return qual

    def resolve_in_module(self, m: Module, name: str) -> str | None:
        """Resolve a dotted name as seen from module ``m`` to a qualified name."""
        if not name:
            return None
        head, *rest = name.split(".")
        if head in m.functions or head in m.classes or head in m.constants:
            base = f"{m.name}.{head}"
        elif head in m.imports:
            base = m.imports[head]
        else:
            return None
        return self.resolve(".".join([base] + rest))

    # ------------------------------------------------------------- hierarchy
    def mro(self, c: Cls) -> list[Cls]:
        out: list[Cls] = []
        seen: set[str] = set()

        def rec(k: Cls) -> None:
            if k.qualname in seen:
                return
            seen.add(k.qualname)
            out.append(k)
            for b in k.base_names:
                if b in self.classes:
                    rec(self.classes[b])

        rec(c)
        return out

    def is_subclass(self, c: Cls | str, base_qual: str) -> bool:
        if isinstance(c, str):
            if c not in self.classes:
                return c == base_qual
            c = self.classes[c]
        return any(k.qualname == base_qual for k in self.mro(c)) or any(
            base_qual in k.base_names for k in self.mro(c)
        )

    def subclasses(self, base_qual: str, strict: bool = True) -> list[Cls]:
        out = []
        for c in self.classes.values():
            if c.qualname == base_qual:
                if not strict:
                    out.append(c)
                continue
            if self.is_subclass(c, base_qual):
                out.append(c)
        return sorted(out, key=lambda c: c.qualname)

    def find_method(self, c: Cls, name: str) -> Func | None:
        for k in self.mro(c):
            if name in k.methods:
                return k.methods[name]
        return None

    def implementations(self, base_qual: str, method: str) -> list[Func]:
        """Concrete (non-abstract) implementations of ``method`` in subclasses
        of ``base_qual`` (and in the base itself when it has a body)."""
        out = []
        for c in self.subclasses(base_qual, strict=False):
            f = c.methods.get(method)
            if f is None:
                continue
            if any("abstractmethod" in d for d in f.decorators):
                continue
            out.append(f)
        return out

    # -------------------------------------------------------------- lookups
    def func(self, qual: str) -> Func:
        q = self.resolve(qual)
        if q not in self.funcs:
            raise AnalysisError(f"anchor function not found: {qual}")
        return self.funcs[q]

    def cls(self, qual: str) -> Cls:
        q = self.resolve(qual)
        if q not in self.classes:
            raise AnalysisError(f"anchor class not found: {qual}")
        return self.classes[q]

    def module(self, name: str) -> Module:
        if name not in self.modules:
            raise AnalysisError(f"anchor module not found: {name}")
        return self.modules[name]

    def all_funcs(self) -> Iterator[Func]:
        for q in sorted(self.funcs):
            yield self.funcs[q]

    def funcs_in(self, module: str) -> list[Func]:
        return [f for f in self.all_funcs() if f.module.name == module]

    def enum_members(self, qual: str) -> dict[str, object]:
        c = self.cls(qual)
        out: dict[str, object] = {}
        for s in c.node.body:
            if isinstance(s, ast.Assign) and len(s.targets) == 1:
                t = s.targets[0]
                if isinstance(t, ast.Name) and isinstance(s.value, ast.Constant):
                    out[t.id] = s.value.value
        return out

    def entry_points(self) -> dict[str, dict[str, str]]:
        """[project.entry-points."group"] tables of pyproject.toml (tiny parser)."""
        path = os.path.join(self.root, "pyproject.toml")
        rel = "pyproject.toml"
        if rel in self.overrides:
            text = self.overrides[rel]
        elif os.path.exists(path):
            with open(path, encoding="utf-8") as fh:
                text = fh.read()
        else:
            return {}
        groups: dict[str, dict[str, str]] = {}
        cur: dict[str, str] | None = None
        for line in text.splitlines():
            line = line.strip()
            mh = re.match(r'^\[project\.entry-points\."?([^"\]]+)"?\]$', line)
            if mh:
                cur = groups.setdefault(mh.group(1), {})
                continue
            if line.startswith("["):
                cur = None
                continue
            if cur is not None:
                mk = re.match(r'^"?([\w\-]+)"?\s*=\s*"([^"]+)"', line)
                if mk:
                    cur[mk.group(1)] = mk.group(2)
        return groups


def norm_stmt(node: ast.AST) -> str:
    """Position-independent text of a construct (used in finding keys)."""
    try:
        txt = ast.unparse(node)
    except Exception:  # pragma: no cover
        txt = type(node).__name__
    txt = " ".join(txt.split())
    return txt[:160]
