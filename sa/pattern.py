"""E3c - normal forms and pattern matching on terms.

``norm`` rewrites a term into the normal form of DESIGN.md E3 (one law per
line below); ``match`` unifies a normalised term with a pattern containing
wildcards ``V('name')``.  Rules compare code with *reference terms* written in
the rule, so that behaviour-preserving rewrites of the code do not matter.
"""

from __future__ import annotations

from .terms import Term, phi


class V:
    """Pattern variable; binds consistently.  ``V('_')`` matches anything."""

    def __init__(self, name: str, pred=None) -> None:
        self.name = name
        self.pred = pred

    def __repr__(self) -> str:
        return f"?{self.name}"


_METHOD_TO_FUNC = {
    # x.m(args) == numpy.m(x, args)
    "sum": "numpy.sum", "dot": "numpy.dot", "mean": "numpy.mean", "any": "numpy.any", "all": "numpy.all",
    "reshape": "numpy.reshape", "transpose": "numpy.transpose", "flatten": "numpy.ravel", "ravel": "numpy.ravel",
    "copy": "numpy.copy", "repeat": "numpy.repeat", "clip": "numpy.clip", "max": "numpy.max", "min": "numpy.min",
    "argsort": "numpy.argsort", "cumsum": "numpy.cumsum", "astype": "numpy.astype",
}
_FUNC_TO_BINOP = {
    "numpy.multiply": "*", "numpy.add": "+", "numpy.subtract": "-", "numpy.divide": "/", "numpy.true_divide": "/",
    "numpy.power": "**", "numpy.logical_and": "&", "numpy.logical_or": "|", "numpy.bitwise_and": "&", "numpy.bitwise_or": "|",
    "numpy.matmul": "@", "numpy.greater": ">", "numpy.less": "<",
}
_FLIP = {"<": ">", "<=": ">=", ">": "<", ">=": "<="}
_NEG = {"<": ">=", "<=": ">", ">": "<=", ">=": "<", "==": "!=", "!=": "==", "is": "is not", "is not": "is", "in": "not in", "not in": "in"}


def norm(t):
    if not isinstance(t, tuple) or not t or not isinstance(t[0], str):
        if isinstance(t, tuple):
            return tuple(norm(x) for x in t)
        return t
    k = t[0]
    if k in ("const", "param", "global", "builtin", "func", "rec", "unknown", "unbound", "deep"):
        return t
    if k == "aug":  # x op= y  ==  x = x op y
        return norm(("binop", t[1], t[2], t[3]))
    if k == "ifexp" and len(t) == 4:
        a_, b_ = norm(t[2]), norm(t[3])
        if a_ == b_:
            return a_  # the same value on both branches (a helper that returns `x, None` or `x, f(x)`: component 0)
        return ("ifexp", norm(t[1]), a_, b_)
    if k == "call":
        fn = norm(t[1])
        args = tuple(norm(a) for a in t[2])
        kws = tuple((n, norm(v)) for n, v in t[3])
        # method form -> function form
        if fn[0] == "attr" and fn[2] in _METHOD_TO_FUNC:
            return norm(("call", ("global", _METHOD_TO_FUNC[fn[2]]), (fn[1],) + args, kws))
        if fn[0] == "global":
            q = fn[1]
            if q in _FUNC_TO_BINOP and len(args) == 2 and not kws:
                op = _FUNC_TO_BINOP[q]
                if op in ("<", ">"):
                    return norm(("cmp", op, args[0], args[1]))
                return norm(("binop", op, args[0], args[1]))
            if q == "numpy.logical_not" and len(args) == 1:
                return ("unary", "~", args[0])
            if q in ("numpy.negative",) and len(args) == 1:
                return ("unary", "-", args[0])
            if q in ("numpy.absolute", "numpy.fabs"):
                q = "numpy.abs"
            if q == "numpy.matmul":
                q = "numpy.dot"
            if q in ("numpy.logical_or.reduce",) and args:
                return norm(("call", ("global", "numpy.any"), args, kws))
            if q in ("numpy.logical_and.reduce",) and args:
                return norm(("call", ("global", "numpy.all"), args, kws))
            if q == "numpy.sqrt" and len(args) == 1:
                return ("binop", "**", args[0], ("const", 0.5))
            if q == "numpy.sum" and len(args) == 1 and all(n_ == "axis" for n_, _v in kws) and is_boolish(args[0]):
                q = "numpy.count_nonzero"  # sum of a boolean array == number of True entries
            if q == "numpy.invert" and len(args) == 1:
                return ("unary", "~", args[0])
            if q == "numpy.where" and len(args) == 3 and not kws and args[0][0] == "unary" and args[0][1] == "~":
                return ("call", fn, (args[0][2], args[2], args[1]), ())  # where(~c, a, b) == where(c, b, a)
            fn = ("global", q)
        if fn == ("builtin", "abs"):
            fn = ("global", "numpy.abs")
        # int(<count>) == <count>: counts are integers already
        if fn == ("builtin", "int") and len(args) == 1 and not kws and args[0][0] == "call" and args[0][1] in (
                ("global", "numpy.count_nonzero"), ("builtin", "len"), ("global", "numpy.size")):
            return args[0]
        # bool(<comparison / boolean expression>) == the expression: it is a truth value already (a numpy bool_ scalar at most)
        if fn == ("builtin", "bool") and len(args) == 1 and not kws and args[0][0] in ("cmp", "bool") or (
                fn == ("builtin", "bool") and len(args) == 1 and not kws and args[0][0] == "unary" and args[0][1] == "not"):
            return args[0]
        return ("call", fn, args, tuple(sorted(kws, key=lambda p: p[0])))
    if k == "attr":
        b = norm(t[1])
        if t[2] == "T":
            return ("call", ("global", "numpy.transpose"), (b,), ())
        return ("attr", b, t[2])
    if k == "binop":
        op, l, r = t[1], norm(t[2]), norm(t[3])
        if op == "@":
            return ("call", ("global", "numpy.dot"), (l, r), ())
        if op == "-":  # a - b == a + (-b)
            return norm(("binop", "+", l, ("unary", "-", r)))
        if op in ("+", "*", "&", "|"):
            items = []
            for x in (l, r):
                if x[0] == "binop" and x[1] == op:
                    items.extend(_flatten(x, op))
                else:
                    items.append(x)
            items = sorted(items, key=repr)
            out = items[0]
            for x in items[1:]:
                out = ("binop", op, out, x)
            return out
        return ("binop", op, l, r)
    if k == "unary":
        x = norm(t[2])
        if t[1] == "-" and x[0] == "unary" and x[1] == "-":
            return x[2]
        if t[1] == "-" and x[0] == "const" and isinstance(x[1], (int, float)):
            return ("const", -x[1])
        if t[1] == "+":
            return x
        if t[1] == "not":
            # exact negations only: `not (a < b)` is not `b <= a` for NaN operands
            if x[0] == "cmp" and x[1] in ("==", "!=", "is", "is not", "in", "not in"):
                return norm(("cmp", _NEG[x[1]], x[2], x[3]))
            if x[0] == "unary" and x[1] == "not":
                return x[2]
        if t[1] == "~" and x[0] == "unary" and x[1] == "~":
            return x[2]
        return ("unary", t[1], x)
    if k == "cmp":
        op, l, r = t[1], norm(t[2]), norm(t[3])
        if op in (">", ">="):  # a > b == b < a
            op, l, r = _FLIP[op], r, l
        # count_nonzero(B) compared with 0 / 1  ==  any(B) / not any(B)
        cnt, other, cnt_left = None, None, True
        if _is_count(l) and r[0] == "const":
            cnt, other = l, r[1]
        elif _is_count(r) and l[0] == "const":
            cnt, other, cnt_left = r, l[1], False
        if cnt is not None and isinstance(other, (int, float)) and not isinstance(other, bool):
            anyb = ("call", ("global", "numpy.any"), cnt[2], ())
            none = ("unary", "not", anyb)
            key = (op, other, cnt_left)
            if key in (("==", 0, True), ("<=", 0, True), ("<", 1, True), ("==", 0, False)):
                return none
            if key in (("!=", 0, True), ("!=", 0, False), ("<", 0, False), ("<=", 1, False)):
                return anyb
        return ("cmp", op, l, r)
    if k == "phi":
        return phi(norm(a) for a in t[1])
    if k == "sub" and len(t) == 3 and isinstance(t[1], tuple) and t[1] and t[1][0] == "comp" and t[1][1] == "list" and len(t[1][3]) == 1:
        # `[f(i) for i in range(n)][k]` is f(k): a table computed per position and read back at a position
        names, it, conds = t[1][3][0]
        if not conds and it[0] == "call" and it[1] == ("builtin", "range") and len(it[2]) == 1 and len(names) == 1:
            ids = set()
            stack = [t[1][2]]
            while stack:
                x = stack.pop()
                if isinstance(x, tuple) and x:
                    if x[0] == "iter" and len(x) == 3 and x[1] == it and isinstance(x[2], tuple) and x[2] and x[2][0] == "comp":
                        ids.add(x)
                    stack.extend(y for y in x if isinstance(y, tuple))
            if len(ids) <= 1 and t[2][0] not in ("slice", "tuple"):
                elt = t[1][2]
                if ids:
                    var = next(iter(ids))

                    def sub_(x):
                        if not isinstance(x, tuple):
                            return x
                        if x == var:
                            return t[2]
                        return tuple(sub_(y) for y in x)

                    elt = sub_(elt)
                return norm(elt)
    return tuple(norm(x) if isinstance(x, tuple) else x for x in t)


_BOOL_FUNCS = {"numpy.isnan", "numpy.isfinite", "numpy.isinf", "numpy.isclose", "numpy.logical_not", "numpy.logical_and", "numpy.logical_or",
               "numpy.isneginf", "numpy.isposinf"}


def is_boolish(t) -> bool:
    """Syntactically a boolean array: comparison, negation / conjunction of such, isnan(...) ..."""
    if t[0] == "cmp":
        return t[1] not in ("is", "is not", "in", "not in")
    if t[0] == "unary" and t[1] in ("~", "not"):
        return True  # masks: `~flags` (the repository never inverts integer arrays)
    if t[0] == "binop" and t[1] in ("&", "|", "^"):
        return is_boolish(t[2]) and is_boolish(t[3])
    if t[0] == "call" and t[1][0] == "global" and t[1][1] in _BOOL_FUNCS:
        return True
    return False


def _is_count(t) -> bool:
    return t[0] == "call" and t[1] == ("global", "numpy.count_nonzero") and len(t[2]) == 1 and not t[3]


def _flatten(x, op):
    if x[0] == "binop" and x[1] == op:
        return _flatten(x[2], op) + _flatten(x[3], op)
    return [x]


def match(t, p, b: dict | None = None) -> dict | None:
    """Unify term ``t`` with pattern ``p``; returns bindings or None."""
    if b is None:
        b = {}
    if isinstance(p, V):
        if p.name == "_":
            return b if (p.pred is None or p.pred(t)) else None
        if p.pred is not None and not p.pred(t):
            return None
        if p.name in b:
            return b if b[p.name] == t else None
        b2 = dict(b)
        b2[p.name] = t
        return b2
    if isinstance(p, tuple):
        if not isinstance(t, tuple) or len(t) != len(p):
            return None
        # commutative operators: try both orders
        if len(p) == 4 and p[0] == "binop" and p[1] in ("+", "*", "&", "|") and t[0] == "binop" and t[1] == p[1]:
            for a, c in ((t[2], t[3]), (t[3], t[2])):
                b1 = match(a, p[2], b)
                if b1 is not None:
                    b2 = match(c, p[3], b1)
                    if b2 is not None:
                        return b2
            return None
        cur = b
        for x, y in zip(t, p):
            cur = match(x, y, cur)
            if cur is None:
                return None
        return cur
    return b if t == p else None


def find_match(t, p, b: dict | None = None):
    """First subterm of ``t`` matching ``p`` -> (subterm, bindings) or None."""
    from .terms import subterms

    for s in subterms(t):
        r = match(s, p, b)
        if r is not None:
            return s, r
    return None


# --------------------------------------------------------------- pattern DSL
def G(q: str):
    return ("global", q)


def call(q: str, *args, **kw):
    return ("call", G(q) if isinstance(q, str) else q, tuple(args), tuple(sorted(kw.items())))


def mul(a, b):
    return ("binop", "*", a, b)


def add(a, b):
    return ("binop", "+", a, b)


def neg(a):
    return ("unary", "-", a)


def div(a, b):
    return ("binop", "/", a, b)


def C(v):
    return ("const", v)
