"""E2b - path queries with correlated-guard feasibility.

``find_path`` searches the CFG for a path from a start node to a goal that
avoids *blocked* nodes.  A path is pruned as infeasible only when it takes
contradictory decisions on the syntactically same pure condition (or on the
None-ness / truthiness of the same variable) with no intervening redefinition
of the operands: the two idioms DESIGN.md E2 lists.  Everything else is kept,
so a reported witness may be spurious only in ways the report shows, while a
"no path" answer is sound with respect to the CFG.
"""

from __future__ import annotations

import ast
from collections import deque
from typing import Callable

from .cfg import CFG, Node
from .dataflow import DataFlow

Fact = tuple  # (kind, text, names frozenset)

#: optional oracle (cfg, call node) -> True when the call can never return None (every resolved
#: callee is annotated with a return type that does not admit None); installed by core.Ctx
NONNULL_ORACLE = None


def _names(e: ast.AST) -> frozenset[str]:
    return frozenset(n.id for n in ast.walk(e) if isinstance(n, ast.Name))


def cond_facts(test: ast.AST, polarity: bool) -> list[tuple[Fact, bool]]:
    """Facts implied by taking the ``polarity`` branch of ``test``."""
    if isinstance(test, ast.UnaryOp) and isinstance(test.op, ast.Not):
        return cond_facts(test.operand, not polarity)
    if isinstance(test, ast.BoolOp):
        if isinstance(test.op, ast.And) and polarity:
            out = []
            for v in test.values:
                out += cond_facts(v, True)
            return out
        if isinstance(test.op, ast.Or) and not polarity:
            out = []
            for v in test.values:
                out += cond_facts(v, False)
            return out
        return [(("expr", ast.unparse(test), _names(test)), polarity)]
    if isinstance(test, ast.NamedExpr):
        return cond_facts(test.target, polarity)
    if (
        isinstance(test, ast.Compare)
        and len(test.ops) == 1
        and isinstance(test.ops[0], (ast.Is, ast.IsNot))
        and isinstance(test.comparators[0], ast.Constant)
        and test.comparators[0].value is None
    ):
        left = test.left
        if isinstance(left, ast.NamedExpr):
            left = left.target
        val = polarity if isinstance(test.ops[0], ast.Is) else not polarity
        return [(("isnone", ast.unparse(left), _names(left)), val)]
    if isinstance(test, (ast.Name, ast.Attribute)):
        txt = ast.unparse(test)
        facts = [(("truthy", txt, _names(test)), polarity)]
        if polarity:
            facts.append((("isnone", txt, _names(test)), False))
        return facts
    return [(("expr", ast.unparse(test), _names(test)), polarity)]


def _value_facts(target: str, value: ast.AST | None) -> list[tuple[Fact, bool]]:
    nm = frozenset([target])
    if value is None:
        return []
    if isinstance(value, ast.Constant):
        if value.value is None:
            return [(("isnone", target, nm), True), (("truthy", target, nm), False)]
        return [(("isnone", target, nm), False), (("truthy", target, nm), bool(value.value))]
    if isinstance(value, (ast.List, ast.Tuple, ast.Dict, ast.Set)):
        n = len(value.elts) if not isinstance(value, ast.Dict) else len(value.keys)
        return [(("isnone", target, nm), False), (("truthy", target, nm), n > 0)]
    return []


class PathFinder:
    def __init__(self, cfg: CFG, df: DataFlow) -> None:
        self.cfg = cfg
        self.df = df

    def _edge_facts(self, n: Node, label: str) -> list[tuple[Fact, bool]]:
        if n.kind == "test" and label in ("true", "false") and n.ast is not None:
            return cond_facts(n.ast, label == "true")
        return []

    def _kills(self, n: Node) -> set[str]:
        """Names whose facts are invalidated by executing node ``n``."""
        killed: set[str] = set()
        for d in self.df.node_defs.get(n, []):
            killed.add(d.var)
        a = n.ast
        if a is not None and n.kind in ("stmt", "test", "iter", "with", "match"):
            root = a.iter if n.kind == "iter" else (a.context_expr if n.kind == "with" else a)  # type: ignore[union-attr]
            for sub in ast.walk(root):
                if isinstance(sub, ast.Call):
                    # a call may mutate the objects it receives (receiver / args)
                    if isinstance(sub.func, ast.Attribute):
                        killed |= {f"@{x}" for x in _names(sub.func.value)}
                    for arg in sub.args:
                        killed |= {f"@{x}" for x in _names(arg)}
                    for kw in sub.keywords:
                        killed |= {f"@{x}" for x in _names(kw.value)}
        return killed

    def _assign_facts(self, n: Node) -> list[tuple[Fact, bool]]:
        out: list[tuple[Fact, bool]] = []
        a = n.ast
        if n.kind == "stmt" and isinstance(a, (ast.Assign, ast.AnnAssign)):
            targets = a.targets if isinstance(a, ast.Assign) else [a.target]
            # `a, b = x, y`: element-wise
            pairs_ = []
            for t in targets:
                if isinstance(t, (ast.Tuple, ast.List)) and isinstance(a.value, (ast.Tuple, ast.List)) and len(t.elts) == len(a.value.elts) \
                        and not any(isinstance(e, ast.Starred) for e in list(t.elts) + list(a.value.elts)):
                    pairs_ += list(zip(t.elts, a.value.elts))
            for t_, v_ in pairs_:
                if isinstance(t_, ast.Name):
                    out += _value_facts(t_.id, v_)
                    if isinstance(v_, ast.Name):
                        ds = self.df.reaching(n, v_.id)
                        if ds and all(d.kind == "except" for d in ds):
                            out.append((("isnone", t_.id, frozenset([t_.id])), False))
            for t in targets:
                if isinstance(t, ast.Name):
                    out += _value_facts(t.id, a.value)
                    if isinstance(a.value, ast.Call) and NONNULL_ORACLE is not None and NONNULL_ORACLE(self.cfg, a.value):
                        out.append((("isnone", t.id, frozenset([t.id])), False))
                    # ``x = exc`` where exc is bound by an except clause: not None
                    if isinstance(a.value, ast.Name):
                        ds = self.df.reaching(n, a.value.id)
                        if ds and all(d.kind == "except" for d in ds):
                            nm = frozenset([t.id])
                            out.append((("isnone", t.id, nm), False))
                elif isinstance(t, ast.Attribute):
                    txt = ast.unparse(t)
                    nmset = _names(t)
                    if isinstance(a.value, ast.Constant):
                        out.append((("isnone", txt, nmset), a.value.value is None))
        if n.kind == "stmt" and isinstance(a, ast.Assert):
            # on the normal edge the asserted condition holds
            out += cond_facts(a.test, True)
        if n.kind == "except" and isinstance(a, ast.ExceptHandler) and a.name:
            nm = frozenset([a.name])
            out.append((("isnone", a.name, nm), False))
        return out

    def _known_at(self, start: Node) -> list[tuple[Fact, bool]]:
        """Facts that hold on entry of ``start`` whatever path led there: a local whose reaching
        definitions are all assignments of constants of the same truthiness / None-ness."""
        out: list[tuple[Fact, bool]] = []
        try:
            names = list(self.df.locals)
        except Exception:  # noqa: BLE001
            return out
        for v in names:
            try:
                defs = self.df.reaching(start, v)
            except Exception:  # noqa: BLE001
                continue
            if not defs or len(defs) > 4:
                continue
            vals = []
            for d in defs:
                if d.kind == "assign" and not d.path and isinstance(d.value, ast.Constant):
                    vals.append(d.value.value)
                else:
                    vals = None
                    break
            if not vals:
                continue
            nm = frozenset([v])
            if all(x is None for x in vals):
                out.append((("isnone", v, nm), True))
            elif all(x is not None for x in vals):
                out.append((("isnone", v, nm), False))
                if all(bool(x) for x in vals):
                    out.append((("truthy", v, nm), True))
                elif all(not bool(x) for x in vals):
                    out.append((("truthy", v, nm), False))
        return out

    @staticmethod
    def _merge(facts: dict, new: list[tuple[Fact, bool]]) -> dict | None:
        out = dict(facts)
        for f, v in new:
            key = (f[0], f[1])
            if key in out and out[key][0] != v:
                return None
            out[key] = (v, f[2])
            # truthy(x)=True contradicts isnone(x)=True
            if f[0] == "truthy" and v and out.get(("isnone", f[1]), (False,))[0] is True:
                return None
            if f[0] == "isnone" and v and out.get(("truthy", f[1]), (False,))[0] is True:
                return None
        return out

    def find_path(
        self,
        start: Node,
        goal: Callable[[Node], bool],
        blocked: Callable[[Node], bool] | None = None,
        edge_ok: Callable[[Node, Node, str], bool] | None = None,
        start_facts: list[tuple[Fact, bool]] | None = None,
        max_states: int = 200000,
        goal_at_start: bool = False,
    ) -> list[Node] | None:
        init = self._merge({}, list(start_facts or []) + self._known_at(start))
        if init is None:
            init = self._merge({}, start_facts or [])
        if init is None:
            return None
        if goal_at_start and goal(start):
            return [start]

        def freeze(f: dict):
            return frozenset((k, v[0]) for k, v in f.items())

        start_state = (start, freeze(init))
        prev: dict = {start_state: None}
        facts_of = {start_state: init}
        dq = deque([start_state])
        n_states = 0
        while dq:
            state = dq.popleft()
            n, _ = state
            facts = facts_of[state]
            n_states += 1
            if n_states > max_states:
                # give up pruning: fall back to a plain reachability answer
                return self.cfg.path(start, goal, blocked)
            # effects of executing n: kills then facts from assignments
            killed = self._kills(n)
            if killed:
                nf = {}
                for k, (v, names) in facts.items():
                    hard = any(x in killed for x in names)
                    # attribute/expr facts are also invalidated by calls on the root object
                    soft = ("." in k[1] or k[0] == "expr") and any(f"@{x}" in killed for x in names)
                    if not hard and not soft:
                        nf[k] = (v, names)
                facts2 = nf
            else:
                facts2 = facts
            new_facts = self._assign_facts(n)
            # `x = y`: x is None / truthy exactly when y is (copy of a tracked name)
            a_ = n.ast
            if n.kind == "stmt" and isinstance(a_, (ast.Assign, ast.AnnAssign)) and isinstance(getattr(a_, "value", None), ast.Name):
                tgts = a_.targets if isinstance(a_, ast.Assign) else [a_.target]
                for t_ in tgts:
                    if isinstance(t_, ast.Name) and t_.id != a_.value.id:
                        for kind_ in ("isnone", "truthy"):
                            got = facts.get((kind_, a_.value.id))
                            if got is not None:
                                new_facts = list(new_facts) + [((kind_, t_.id, frozenset([t_.id])), got[0])]
            facts3 = self._merge(facts2, new_facts)
            normal_infeasible = False
            if facts3 is None:
                facts3 = facts2
                # an assertion that contradicts what is known on this path only leaves exceptionally
                normal_infeasible = n.kind == "stmt" and isinstance(a_, ast.Assert)
            for m, label in n.succ:
                if edge_ok is not None and not edge_ok(n, m, label):
                    continue
                if normal_infeasible and label != "exc":
                    continue
                if label == "exc":
                    # the statement did not complete: assignment facts do not hold
                    f4 = self._merge(facts2, [])
                else:
                    f4 = self._merge(facts3, self._edge_facts(n, label))
                if f4 is None:
                    continue  # infeasible: contradictory decisions
                if goal(m):
                    path = [m, n]
                    cur = prev[state]
                    while cur is not None:
                        path.append(cur[0])
                        cur = prev[cur]
                    return list(reversed(path))
                if blocked is not None and blocked(m):
                    continue
                st = (m, freeze(f4))
                if st in prev:
                    continue
                prev[st] = state
                facts_of[st] = f4
                dq.append(st)
        return None


def describe_path(func, path: list[Node], limit: int = 14) -> list[str]:
    out = []
    for n in path:
        if n.kind in ("entry", "join"):
            continue
        if n.kind == "exit":
            out.append("<normal return>")
        elif n.kind == "raise":
            out.append("<exception escapes>")
        else:
            src = func.module.line(n.lineno)
            out.append(f"L{n.lineno} [{n.kind}] {src[:90]}")
    if len(out) > limit:
        out = out[: limit // 2] + [f"... ({len(out) - limit} more) ..."] + out[-limit // 2 :]
    return out
