"""Content provenance: which leaf values can the entries of an array hold?

``content_sources`` walks a term through value-carrying positions only
(array constructors' fills, np.where branches, subscript stores and their
initial fill, arithmetic operands, slices, copies), expanding parameters
backwards through resolved call sites and package calls forwards through
their return terms.  This is what connects a sink in one module with, e.g., an
``np.ones`` initial fill four calls up (DESIGN.md E3).
"""

from __future__ import annotations

import ast

from .callgraph import _is_bound_call, bind_args
from .core import Ctx
from .model import Func
from .terms import Term, root_of

PRESERVING_FUNCS = {
    "numpy.array", "numpy.asarray", "numpy.copy", "numpy.nan_to_num", "numpy.expand_dims", "numpy.reshape", "numpy.ravel",
    "numpy.tile", "numpy.repeat", "numpy.broadcast_to", "numpy.squeeze", "numpy.transpose", "numpy.atleast_1d", "numpy.atleast_2d",
    "numpy.abs", "numpy.negative", "numpy.ascontiguousarray", "numpy.moveaxis", "numpy.swapaxes", "numpy.compress", "numpy.take",
    "ropt.config.utils.immutable_array", "ropt.results._utils._immutable_copy", "numpy.float64", "numpy.sort", "numpy.flip",
}
STACKING_FUNCS = {"numpy.vstack", "numpy.hstack", "numpy.concatenate", "numpy.stack", "numpy.append", "numpy.column_stack"}
CTOR_FUNCS = {"numpy.ones", "numpy.zeros", "numpy.empty", "numpy.full", "numpy.ones_like", "numpy.zeros_like", "numpy.empty_like", "numpy.full_like", "numpy.arange", "numpy.eye", "numpy.identity"}
PRESERVING_METHODS = {"copy", "flatten", "ravel", "reshape", "astype", "transpose", "squeeze", "view", "T", "tolist", "item"}
REDUCTIONS = {"numpy.sum", "numpy.mean", "numpy.max", "numpy.min", "numpy.count_nonzero", "numpy.linalg.norm"}


class Source:
    __slots__ = ("func", "term", "kind", "trail")

    def __init__(self, func: Func, term: Term, kind: str, trail: tuple) -> None:
        self.func, self.term, self.kind, self.trail = func, term, kind, trail

    def __repr__(self) -> str:
        from .terms import show

        return f"<{self.kind} {show(self.term, 60)} in {self.func.name}>"


def content_sources(ctx: Ctx, func: Func, term: Term, stop_methods: set[str] | None = None, max_depth: int = 7) -> list[Source]:
    stop_methods = stop_methods or set()
    out: list[Source] = []
    seen: set = set()

    def leaf(g, t, kind, trail):
        out.append(Source(g, t, kind, trail))

    def visit(g: Func, t: Term, depth: int, trail: tuple) -> None:
        key = (g.qualname, t)
        if key in seen:
            return
        seen.add(key)
        if depth > max_depth:
            leaf(g, t, "deep", trail)
            return
        k = t[0]
        V = lambda x: visit(g, x, depth, trail)  # noqa: E731
        if k == "phi":
            for a in t[1]:
                V(a)
        elif k == "ifexp":
            V(t[2])
            V(t[3])
        elif k == "const":
            if t[1] is not None:
                leaf(g, t, "const", trail)
        elif k == "rec":
            if len(t) >= 5:
                visit(ctx.repo.funcs[t[3]], ctx.X.deref(t), depth, trail)
        elif k == "param":
            pf = ctx.repo.funcs.get(t[1])
            callers = ctx.cg.callers(pf) if pf is not None else []
            n = 0
            for caller, call in callers:
                ct = ctx.X.at(caller, call)
                arg = bind_args(pf, ct, bound=_is_bound_call(ct, pf)).get(t[2])
                if arg is not None:
                    n += 1
                    visit(caller, arg, depth + 1, trail + ((caller.qualname, call.lineno),))
            if n == 0:
                leaf(g, t, "param", trail)
        elif k == "attr":
            r = root_of(t)
            if r[0] in ("param", "rec", "global", "iter", "call"):
                leaf(g, t, "attr", trail)
            else:
                V(t[1])
        elif k in ("sub", "iter", "enter", "star"):
            V(t[1])
        elif k == "item":
            x = t[1]
            if x[0] == "call":
                done = False
                for h in ctx.cg.resolve_fn(x[1], g):
                    rt = ctx.X.return_term(h)
                    for a in (rt[1] if rt[0] == "phi" else (rt,)):
                        if a[0] == "tuple" and 0 <= t[2] < len(a[1]):
                            visit(h, a[1][t[2]], depth + 1, trail + ((h.qualname, h.lineno),))
                            done = True
                if done:
                    return
            V(x)
        elif k == "update":
            V(t[1])
            V(t[4])
        elif k == "setattr":
            V(t[1])
        elif k == "mut":
            if t[2] == "fill" and t[3][0] == "call" and t[3][2]:
                V(t[3][2][0])  # x.fill(v): content is v
            elif t[2] in ("append", "extend", "insert", "add", "update") and t[3][0] == "call":
                V(t[1])
                for a in t[3][2]:
                    V(a)
            else:
                V(t[1])
        elif k == "aug" or k == "binop":
            l, r = t[2], t[3]
            V(l)
            # a scalar normaliser derived from the same array carries no new content
            if not (t[1] in ("/", "*") and _is_reduction_of(r, l)):
                V(r)
        elif k == "unary":
            V(t[2])
        elif k in ("tuple", "list", "set"):
            for a in t[1]:
                V(a)
        elif k == "comp":
            V(t[2])
        elif k == "cmp" or k == "bool":
            leaf(g, t, "bool", trail)
        elif k == "call":
            fn = t[1]
            if fn[0] == "global":
                q = fn[1]
                if q == "numpy.where" and len(t[2]) == 3:
                    V(t[2][1])
                    V(t[2][2])
                    return
                if q in PRESERVING_FUNCS and t[2]:
                    V(t[2][0])
                    return
                if q in STACKING_FUNCS and t[2]:
                    for a in t[2]:
                        V(a)
                    return
                if q in CTOR_FUNCS:
                    if q in ("numpy.full", "numpy.full_like") and len(t[2]) >= 2:
                        V(t[2][1])
                    else:
                        leaf(g, t, "ctor", trail)
                    return
                if q in ("numpy.dot", "numpy.matmul", "numpy.maximum", "numpy.minimum", "numpy.clip", "numpy.multiply", "numpy.add", "numpy.subtract", "numpy.divide"):
                    for a in t[2]:
                        V(a)
                    return
                if q in ctx.repo.classes:
                    leaf(g, t, "object", trail)
                    return
            if fn[0] == "attr":
                if fn[2] in PRESERVING_METHODS:
                    V(fn[1])
                    return
                if fn[2] in stop_methods:
                    leaf(g, t, f"call:{fn[2]}", trail)
                    return
            callees = [h for h in ctx.cg.resolve_fn(fn, g) if h.name not in ("__init__", "__post_init__") and not isinstance(h.node, ast.Lambda)]
            if callees:
                for h in callees:
                    if h.name in stop_methods:
                        leaf(g, t, f"call:{h.name}", trail)
                    else:
                        visit(h, ctx.X.return_term(h), depth + 1, trail + ((h.qualname, h.lineno),))
                return
            leaf(g, t, "call", trail)
        elif k in ("global", "builtin", "func"):
            leaf(g, t, "global", trail)
        else:
            leaf(g, t, "unknown", trail)

    visit(func, term, 0, ())
    return out


def _is_reduction_of(r: Term, l: Term) -> bool:
    """r is `l.sum()` / np.sum(l) style scalar of the same array."""
    if r[0] == "call":
        fn = r[1]
        if fn[0] == "attr" and fn[2] in ("sum", "max", "min", "mean") and fn[1] == l:
            return True
        if fn[0] == "global" and fn[1] in REDUCTIONS and r[2] and r[2][0] == l:
            return True
    return False
