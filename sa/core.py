"""E7/E8 - rule framework, verdicts, evidence, known findings."""

from __future__ import annotations

import ast
import json
import os
import time
from dataclasses import dataclass, field
from typing import Callable

from .callgraph import CallGraph
from .model import AnalysisError, Func, Repo, norm_stmt
from .terms import Expander

VERIF = os.path.dirname(os.path.dirname(os.path.abspath(__file__)))


@dataclass
class Instance:
    """One obligation instance of a rule (a sink, never the mechanism)."""

    rule: str
    where: str  # file:line
    func: str  # qualified function (or class / module)
    construct: str  # normalised, position independent text of the site
    obligation: str
    ok: bool
    detail: str = ""
    witness: list[str] = field(default_factory=list)

    @property
    def key(self) -> str:
        return f"{self.rule}|{self.func}|{self.construct}"

    def as_dict(self) -> dict:
        d = {
            "rule": self.rule,
            "where": self.where,
            "function": self.func,
            "construct": self.construct,
            "obligation": self.obligation,
            "ok": self.ok,
        }
        if self.detail:
            d["detail"] = self.detail
        if self.witness:
            d["witness"] = self.witness
        return d


@dataclass
class RuleResult:
    rule: str
    kind: str
    title: str
    instances: list[Instance] = field(default_factory=list)
    floor: int = 1
    exhaustive: bool = False
    notes: list[str] = field(default_factory=list)

    def add(
        self,
        func: Func | None,
        node: ast.AST | None,
        obligation: str,
        ok: bool,
        detail: str = "",
        witness: list[str] | None = None,
        construct: str | None = None,
        where: str | None = None,
        fname: str | None = None,
    ) -> Instance:
        if where is None:
            where = func.where(node) if func is not None else "?"
        if construct is None:
            construct = norm_stmt(node) if node is not None else obligation
        inst = Instance(
            self.rule,
            where,
            fname or (func.qualname if func is not None else "?"),
            construct,
            obligation,
            ok,
            detail,
            witness or [],
        )
        self.instances.append(inst)
        return inst


class Ctx:
    def __init__(self, repo: Repo, tier: str = "quick") -> None:
        self.repo = repo
        self.tier = tier
        self.X = Expander(repo)
        self._cg: CallGraph | None = None
        from . import paths

        paths.NONNULL_ORACLE = self._call_never_none
        self._nn_cache: dict = {}

    def _call_never_none(self, cfg, call) -> bool:
        """Every resolved callee of the call is annotated with a return type that excludes None."""
        import ast as _ast

        key = id(call)
        if key in self._nn_cache:
            return self._nn_cache[key]
        ok = False
        try:
            cs = self.cg.callees_of_call(cfg.func, call)
            if cs:
                ok = True
                for g in cs:
                    r = getattr(g.node, "returns", None)
                    if r is None or g.name == "__init__":
                        ok = g.name == "__init__" and ok
                        if not ok:
                            break
                        continue
                    txt = _ast.unparse(r)
                    if "None" in txt or "Optional" in txt or "Any" in txt:
                        ok = False
                        break
        except Exception:  # noqa: BLE001
            ok = False
        self._nn_cache[key] = ok
        return ok

    @property
    def cg(self) -> CallGraph:
        if self._cg is None:
            self._cg = CallGraph(self.repo, self.X)
            self._cg._build()
        return self._cg


Rule = Callable[[Ctx], RuleResult]

# rule registry: property id -> list of rule functions
REGISTRY: dict[str, list[Rule]] = {}
THOROUGH: dict[str, list[Rule]] = {}
META: dict[str, dict] = {}


def rule(prop: str, thorough_only: bool = False):
    def deco(fn: Rule) -> Rule:
        (THOROUGH if thorough_only else REGISTRY).setdefault(prop, []).append(fn)
        return fn

    return deco


def run_rules(ctx: Ctx, prop: str) -> list[RuleResult]:
    out = []
    rules = list(REGISTRY.get(prop, []))
    if ctx.tier == "thorough":
        rules += THOROUGH.get(prop, [])
    # functions the property's rules anchor on are analysis units of their own: they are never
    # replaced by their value when terms are built
    opaque = META.get(prop, {}).get("opaque")
    if opaque is not None:
        ctx.X.opaque |= set(opaque(ctx))
    for fn in rules:
        res = fn(ctx)
        uniq: dict = {}
        for inst in res.instances:
            k = (inst.key, inst.ok, inst.where)
            uniq.setdefault(k, inst)
        res.instances = list(uniq.values())
        # (a rule that did find a violation reports it: the floor guards against vacuous passes only)
        if len(res.instances) < res.floor and all(inst.ok for inst in res.instances):
            raise AnalysisError(
                f"rule {res.rule}: {len(res.instances)} obligation instance(s) found, "
                f"floor is {res.floor} (anchor vanished or construct not recognised)"
            )
        out.append(res)
    return out


# ---------------------------------------------------------- known findings
def load_known(path: str | None = None) -> dict:
    path = path or os.path.join(VERIF, "known_findings.json")
    if not os.path.exists(path):
        return {"open": [], "fixed": []}
    with open(path, encoding="utf-8") as fh:
        return json.load(fh)


def match_known(inst: Instance, prop: str, known: dict) -> dict | None:
    for e in known.get("open", []):
        if e.get("property") != prop or e.get("rule") != inst.rule:
            continue
        if e.get("function") != inst.func:
            continue
        if e.get("construct") == inst.construct:
            return e
    return None
